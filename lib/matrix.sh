#!/bin/sh
# usage: lib/matrix.sh [ID...] — apply every seeded change (seeded/<ID>/<variant>/patch.diff) to /repo in turn, run the quick
# check of the property it was written against, restore /repo, and record the verdicts in seeded/RESULTS.tsv
# (columns: seed, property, verdict, first line of the report, wall seconds).
cd /verif
ids="$@"; [ -z "$ids" ] && ids=$(ls seeded | grep '^C')
[ -n "$(git -C /repo status --short)" ] && { echo "/repo is not clean"; exit 2; }
tmp=$(mktemp); : > $tmp
for id in $ids; do
  for v in $(ls seeded/$id); do
    [ -f seeded/$id/$v/patch.diff ] || continue
    git -C /repo apply /verif/seeded/$id/$v/patch.diff || { printf '%s/%s\t%s\tPATCH-DOES-NOT-APPLY\t\t0\n' $id $v $id >> $tmp; continue; }
    t0=$(date +%s)
    out=$(./check $id --tier quick 2>&1 | grep -E "^(OK|VIOLATION)")
    t1=$(date +%s)
    git -C /repo checkout -- . ; git -C /repo clean -fdq
    if echo "$out" | grep -q "^VIOLATION"; then
      if echo "$out" | grep "^VIOLATION" | grep -qv "no-failing-input-found"; then verdict="DETECTED-with-input"; else verdict="DETECTED-no-failing-input-found"; fi
    else verdict="not-detected"; fi
    rp=$(echo "$out" | grep "^VIOLATION" | head -1 | sed 's/.*replay=\([^ ]*\).*/\1/')
    what=""; [ -n "$rp" ] && [ -f "$rp" ] && what=$(python3 -c "import json,sys; print(json.load(open('$rp')).get('what','')[:200].replace('\t',' ').replace('\n',' '))")
    printf '%s/%s\t%s\t%s\t%s\t%s\n' $id $v $id "$verdict" "$what" $((t1-t0)) >> $tmp
    echo "$id/$v $verdict ($((t1-t0))s)"
  done
done
if [ -z "$1" ]; then mv $tmp seeded/RESULTS.tsv; else cat $tmp >> seeded/RESULTS.partial.tsv; rm -f $tmp; fi
