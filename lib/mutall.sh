#!/bin/sh
# usage: lib/mutall.sh "<ID:variant:PROPS,...>..."  e.g. "C01:a:C01,C02"
for spec in "$@"; do
  id=$(echo $spec | cut -d: -f1); v=$(echo $spec | cut -d: -f2); props=$(echo $spec | cut -d: -f3 | tr ',' ' ')
  echo "== $id/$v -> $props"
  /verif/lib/mut.sh /verif/seeded/$id/$v/patch.diff $props
done
