#!/usr/bin/env python3
"""Write seeded/<ID>/<variant>/meta.json from NOTES.md and seeded/RESULTS.tsv (produced by lib/matrix.sh)."""
import json, os, re, glob, subprocess

ROOT = "/verif/seeded"
results = {}
if os.path.exists(os.path.join(ROOT, "RESULTS.tsv")):
    for line in open(os.path.join(ROOT, "RESULTS.tsv")):
        f = line.rstrip("\n").split("\t")
        if len(f) >= 5:
            results[f[0]] = {"property_checked": f[1], "verdict": f[2], "first_report": f[3], "wall_s": int(f[4] or 0)}

def section(text, pat):
    m = re.search(r"^#+[^\n]*(" + pat + r")[^\n]*\n(.*?)(?=^#+ |\Z)", text, re.S | re.M | re.I)
    return re.sub(r"\s+", " ", m.group(2)).strip()[:1500] if m else ""

head = subprocess.run(["git", "-C", "/repo", "rev-parse", "--short", "HEAD"], capture_output=True, text=True).stdout.strip()
for d in sorted(glob.glob(os.path.join(ROOT, "C*", "*"))):
    if not os.path.exists(os.path.join(d, "patch.diff")):
        continue
    pid, var = d.split("/")[-2:]
    notes = open(os.path.join(d, "NOTES.md")).read() if os.path.exists(os.path.join(d, "NOTES.md")) else ""
    title = next((l.lstrip("# ").strip() for l in notes.splitlines() if l.startswith("#")), "")
    files = re.findall(r"^\+\+\+ b/(\S+)", open(os.path.join(d, "patch.diff")).read(), re.M)
    demo = [f for f in os.listdir(d) if f.endswith("_test.go")]
    r = results.get("%s/%s" % (pid, var), {})
    meta = {
        "seed": "%s/%s" % (pid, var),
        "breaks_property": pid,
        "title": title,
        "files_changed": files,
        "what_it_needs_to_manifest": section(notes, r"manifest|condition|needs") or section(notes, r"why"),
        "demo_test": demo,
        "author": "fresh sub-agent given only the property text and a scratch worktree (prompt: seeded/PROMPT.txt)",
        "confirmed": "patch applies to /repo (git apply), builds, existing suite passes apart from the two envtest tests; demo test fails with the change and passes without (as run by the author and re-run when the seed was taken in; see NOTES.md)",
        "checked_with": "lib/matrix.sh: git -C /repo apply patch.diff; ./check %s --tier quick; git -C /repo checkout -- ." % pid,
        "repo_head_when_checked": head,
        "result": r or {"verdict": "not run yet"},
    }
    if var.endswith("obsolete"):
        meta["note"] = "no longer breaks the property: after fix 88699b5 the generator is stateless, so sharing it between checks is harmless; kept to show that the check stays quiet on a harmless change"
    json.dump(meta, open(os.path.join(d, "meta.json"), "w"), indent=1)
print("meta.json written for", len(glob.glob(os.path.join(ROOT, "C*", "*", "meta.json"))), "seeds")

# table for DESIGN.md
rows = ["| seed | verdict of `./check <ID> --tier quick` | first report |", "|---|---|---|"]
for k in sorted(results):
    rows.append("| %s | %s | %s |" % (k, results[k]["verdict"], results[k]["first_report"][:110].replace("|", "/")))
p = "/verif/DESIGN.md"
s = open(p).read()
if "<!-- SEEDED-TABLE -->" in s and results:
    block = "<!-- SEEDED-TABLE -->\n" + "\n".join(rows) + "\n<!-- /SEEDED-TABLE -->"
    s = re.sub(r"<!-- SEEDED-TABLE -->(.*?<!-- /SEEDED-TABLE -->)?", lambda m: block, s, flags=re.S)
    open(p, "w").write(s)
