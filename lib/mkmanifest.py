#!/usr/bin/env python3
"""Regenerates MANIFEST.json from lib/registry.py (claimed checks) and lib/claims.py (texts)."""
import json, os, sys
HERE = os.path.dirname(os.path.abspath(__file__))
sys.path.insert(0, HERE)
from registry import PROPS
from claims import CLAIMS, NOT_APPLICABLE

VERIF = os.path.dirname(HERE)
ids = [json.loads(l)["id"] for l in open(os.path.join(VERIF, "properties.jsonl"))]
checks = []
na = []
for pid in ids:
    if pid in PROPS and pid in CLAIMS:
        c = CLAIMS[pid]
        checks.append({
            "property_id": pid,
            "quick_cmd": "./check %s --tier quick" % pid,
            "thorough_cmd": "./check %s --tier thorough" % pid,
            "evidence_file": "/verif/evidence/%s.json" % pid,
            "replay_cmd_template": "./check %s --replay {path}" % pid,
            "engine": "coq-proof+correspondence",
            "level_claimed": {"category": c.get("category", "proof"), "text": c["text"], "design_ref": c.get("design_ref", "DESIGN.md section 6, " + pid)},
            "level_note": c["note"],
            "technique": c["technique"],
        })
    else:
        na.append({"property_id": pid, "reason": NOT_APPLICABLE.get(pid, "check not built yet in this session (work in progress; planned in DESIGN.md section 6)")})
m = {
    "version": 1,
    "setup_cmd": "./setup.sh",
    "hooks": {
        "guard": "verif",
        "enable": "go build -tags verif (the harness module /verif/harness replaces github.com/istio-ecosystem/authservice by /repo)",
        "baseline_off_cmd": "cd /repo && GOFLAGS=-mod=mod GOPROXY=off go test -vet=off -count=1 ./cmd/... ./config/... ./internal/...",
        "source_commits": [l.strip() for l in open(os.path.join(VERIF, "HOOK_COMMITS")).read().split() if l.strip()] if os.path.exists(os.path.join(VERIF, "HOOK_COMMITS")) else [],
        "add_only": True,
    },
    "engines": [{"name": "coq-proof+correspondence", "path": "/verif/check",
                 "serves_properties": [c["property_id"] for c in checks],
                 "kind_free_text": "Coq 8.16.1 theorems over hand-written executable models (/verif/coq) + differential correspondence: a Go harness drives the real code of the current /repo tree and coqc evaluates model and monitors on the recorded observations (vm_compute)"}],
    "checks": checks,
    "notes": "See DESIGN.md. Known findings: known_findings.json. Seeded changes used to validate the checks: seeded/.",
    "not_applicable": na,
}
json.dump(m, open(os.path.join(VERIF, "MANIFEST.json"), "w"), indent=1)
print("checks:", [c["property_id"] for c in checks], "not claimed:", [n["property_id"] for n in na])
