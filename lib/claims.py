"""Claim texts per property for MANIFEST.json."""
NOT_APPLICABLE = {}
CLAIMS = {
    'C01': {'note': 'Trusted: Coq kernel+vm_compute; hand-written model (validated by lock-step replay); Go harness; jwx / encoding/json / net/url behind descriptors computed by the harness (jwt.Parse result, '
         "independent stdlib signature verifier). Gallina axioms: none (Closed under the global context). Session timeouts are C10's business; gRPC transport and Envoy failure-mode policy are "
         'outside.',
 'technique': "Coq proof by symbolic execution of the handler's program tree (free monad over store/IdP/key/generator effects): for ALL environment answer lists, OK has one of two exact trace "
              'shapes; lifted to the abstract session map; correspondence: lock-step replay of recorded real executions incl. systematic fault-point enumeration',
 'text': 'Machine-checked: C01_ok_justified (for every config, token universe, clock, request and every list of environment answers - every store/IdP/key failure at every position included - an OK '
         'verdict has exactly the fresh-tokens shape or the successful-refresh shape), C01_any_failure_denies, C01_no_cookie_no_ok, C01_ok_needs_live_session (against the abstract session map). Tie '
         'to the code on every run: the REAL handler of the current tree is driven over generated histories with spying wrappers around the real stores (memory, Redis/miniredis), key provider, '
         'generator, clock and a loopback token endpoint; every effect with its arguments and every response are recorded, the Coq model is replayed in lock-step on the recorded answers (any '
         "difference in effects, their order, their arguments or the projected response is a correspondence failure) and the property's monitor is evaluated on the implementation's own trace by coqc "
         '(vm_compute). Quick: ~600 random histories (8-40 requests, faults before/after effect singly and in pairs, adversarial provider, both stores - Redis with two replicas -, 7 store timeouts, debug and info logging) + ~250 enumerated fault placements over 7 base '
         'scenarios, each followed by healthy requests; a timeout ghost flags an OK for a session past its absolute/idle limit.'},
    'C02': {'note': 'Trusted: Coq kernel+vm_compute; hand-written model (validated by lock-step replay); Go harness; jwx / encoding/json / net/url behind descriptors computed by the harness (jwt.Parse result, '
         'independent stdlib signature verifier). Gallina axioms: none (Closed under the global context). Equal header names for ID and access token drop the ID token (config corner, Example '
         'C02_same_header_drops_id_token; not reported as a violation).',
 'technique': 'Coq proof: tokens are written only in two fully determined trace shapes whose ID token validated (all answer lists); invariant over all histories that the session map only holds '
              'validated ID tokens; correspondence: lock-step replay + adversarial JWT grammar with an independent stdlib verifier',
 'text': 'Machine-checked: C02_bound_implies_validated (settok_shape for all runs), C02_forwarded_eq_bound, C02_header_encoding, C02_store_holds_only_validated (invariant of every history from the '
         'empty map, by induction). Tie to the code on every run: the REAL handler of the current tree is driven over generated histories with spying wrappers around the real stores (memory, '
         'Redis/miniredis), key provider, generator, clock and a loopback token endpoint; every effect with its arguments and every response are recorded, the Coq model is replayed in lock-step on '
         "the recorded answers (any difference in effects, their order, their arguments or the projected response is a correspondence failure) and the property's monitor is evaluated on the "
         "implementation's own trace by coqc (vm_compute). The provider simulator answers from an adversarial grammar on login and refresh (alg none, HMAC-with-public-key, foreign key same kid, kid "
         "games, tampered, stripped, 2-segment, garbage; audience and nonce variants); every token's signature verdict is computed by crypto/rsa / crypto/ecdsa independently of jwx."},
    'C03': {'note': 'Trusted: Coq kernel+vm_compute; hand-written model (validated by lock-step replay); Go harness; jwx / encoding/json / net/url behind descriptors computed by the harness (jwt.Parse result, '
         'independent stdlib signature verifier). Gallina axioms: none (Closed under the global context).',
 'technique': 'Coq proof by forward execution of the three checks of a login against the abstract session map, for all requests/configs/compliant answers; correspondence: full browser runs against '
              'the real handler over the product of compliant provider shapes x configs x stores x URLs',
 'text': "Machine-checked: C03_login_completes (the three checks of a login - redirect, callback with ONE exchange and 302 to the first URL byte for byte, then OK with the provider's tokens and no "
         "further provider call - for every config, map state, first request, generator tuple and compliant provider answer), C03_lifetime (exact meaning of 'tokens remain valid'). Tie to the code "
         'on every run: the REAL handler of the current tree is driven over generated histories with spying wrappers around the real stores (memory, Redis/miniredis), key provider, generator, clock '
         'and a loopback token endpoint; every effect with its arguments and every response are recorded, the Coq model is replayed in lock-step on the recorded answers (any difference in effects, '
         "their order, their arguments or the projected response is a correspondence failure) and the property's monitor is evaluated on the implementation's own trace by coqc (vm_compute). Quick: a "
         'third of the product expires_in{absent,60,3600} x refresh x audience{string,array} x token_type capitalisations x 3 configs x {memory,redis} x URLs with reserved/non-ASCII bytes, each '
         'followed by 1-8 requests inside the lifetime.'},
    'C04': {'note': 'Trusted: Coq kernel+vm_compute; hand-written model (validated by lock-step replay); Go harness; jwx / encoding/json / net/url behind descriptors computed by the harness (jwt.Parse result, '
         'independent stdlib signature verifier). Gallina axioms: none (Closed under the global context). Overlapping identical callbacks (both reaching the provider before either completes) are a '
         "schedule question covered under C09's exploration; single use of the code is the provider's duty.",
 'technique': "Coq proof: every token-endpoint call of every run is the 2nd effect of a callback bound to the presented session's stored state/verifier (or the refresh); consumption and replay "
              'theorems over the session map; correspondence: lock-step replay of multi-browser + attacker histories with a strict RFC 6749/7636 ledger monitor',
 'text': 'Machine-checked: C04_exchange_bound (idp_calls_shape for all runs), C04_state_issued_with_session, C04_state_consumed, C04_replay_no_exchange. Tie to the code on every run: the REAL '
         'handler of the current tree is driven over generated histories with spying wrappers around the real stores (memory, Redis/miniredis), key provider, generator, clock and a loopback token '
         'endpoint; every effect with its arguments and every response are recorded, the Coq model is replayed in lock-step on the recorded answers (any difference in effects, their order, their '
         "arguments or the projected response is a correspondence failure) and the property's monitor is evaluated on the implementation's own trace by coqc (vm_compute). Histories interleave 3 "
         'browsers and an attacker (replayed/swapped/forged/re-cased/duplicated state and code, other sessions, other hosts, malformed queries); the ledger monitor checks every recorded code '
         'exchange field by field against what was issued for the presented session and flags any exchange after consumption.'},
    'C05': {'note': 'Trusted: Coq kernel+vm_compute; hand-written model (validated by lock-step replay); Go harness; jwx / encoding/json / net/url behind descriptors computed by the harness (jwt.Parse result, '
         "independent stdlib signature verifier). Gallina axioms: none (Closed under the global context). A cookie_name_prefix containing ';', '=' or whitespace is accepted by the loader and yields "
         'a header that does not read back as intended (C05_cookie_attrs_refuted_nontoken); the theorems carry that guard.',
 'technique': 'Coq proof: renewal shape of every run that draws identifiers; invariant that the map only holds ids the service drew; cookie attribute theorem via an independent RFC 6265 reading for '
              'all cookie-safe prefixes/ids; correspondence: lock-step replay + Set-Cookie read back independently',
 'text': 'Machine-checked: C05_renewal, C05_tokens_under_presented_id, C05_only_issued_ids (history invariant), C05_cookie_attrs and C05_cookie_roundtrip (all cookie-safe prefixes and ids). Tie to '
         'the code on every run: the REAL handler of the current tree is driven over generated histories with spying wrappers around the real stores (memory, Redis/miniredis), key provider, '
         'generator, clock and a loopback token endpoint; every effect with its arguments and every response are recorded, the Coq model is replayed in lock-step on the recorded answers (any '
         "difference in effects, their order, their arguments or the projected response is a correspondence failure) and the property's monitor is evaluated on the implementation's own trace by coqc "
         '(vm_compute).'},
    'C11': {'note': 'Trusted: Coq kernel+vm_compute; hand-written model (validated by lock-step replay); Go harness; jwx / encoding/json / net/url behind descriptors computed by the harness (jwt.Parse result, '
         'independent stdlib signature verifier). Gallina axioms: none (Closed under the global context).',
 'technique': 'Coq proof: exact success shape (merge function) and failure shape (session removal attempted or session-error) for all answer lists; correspondence: long histories over many token '
              'lifetimes against a rotating/omitting/failing provider with a refresh-token ledger',
 'text': 'Machine-checked: C11_refresh_success_shape, C11_merged_is_stored, C11_failure_ends_session. Tie to the code on every run: the REAL handler of the current tree is driven over generated '
         'histories with spying wrappers around the real stores (memory, Redis/miniredis), key provider, generator, clock and a loopback token endpoint; every effect with its arguments and every '
         'response are recorded, the Coq model is replayed in lock-step on the recorded answers (any difference in effects, their order, their arguments or the projected response is a correspondence '
         "failure) and the property's monitor is evaluated on the implementation's own trace by coqc (vm_compute). Quick: 250 histories of 40-120 requests with clock advances; the ledger monitor "
         'demands that every refresh exchange presents the refresh token the provider issued last for that session.'},
    'C13': {'note': 'Trusted: Coq kernel+vm_compute; hand-written model (validated by lock-step replay); Go harness; jwx / encoding/json / net/url behind descriptors computed by the harness (jwt.Parse result, '
         'independent stdlib signature verifier). Gallina axioms: none (Closed under the global context).',
 'technique': 'Coq proof: QueryEscape/ParseQuery/Values.Encode round-trip for ALL byte strings (256-case byte lemmas lifted by induction), hence the login Location decodes to exactly the eight '
              'pairs; shape of every 302; correspondence: lock-step replay (byte-exact Location strings compared)',
 'text': 'Machine-checked: C13_escape_roundtrip, C13_encode_parse_roundtrip, C13_location_wellformed, C13_location_endpoint_query_retained, C13_redirects. Tie to the code on every run: the REAL '
         'handler of the current tree is driven over generated histories with spying wrappers around the real stores (memory, Redis/miniredis), key provider, generator, clock and a loopback token '
         'endpoint; every effect with its arguments and every response are recorded, the Coq model is replayed in lock-step on the recorded answers (any difference in effects, their order, their '
         "arguments or the projected response is a correspondence failure) and the property's monitor is evaluated on the implementation's own trace by coqc (vm_compute). The model's Location is "
         "compared byte for byte with the implementation's for client ids / scopes / callback URIs with reserved and non-ASCII bytes and an endpoint with its own query."},
    'C14': {'note': 'Trusted: Coq kernel+vm_compute; hand-written model (validated by lock-step replay); Go harness; jwx / encoding/json / net/url behind descriptors computed by the harness (jwt.Parse result, '
         'independent stdlib signature verifier). Gallina axioms: none (Closed under the global context). The two-run non-interference formulation is not proved (the public-expression '
         'characterisation is); logs are not examined.',
 'technique': 'Coq proof: every denial of every run is assembled from an explicit list of public expressions (no secret, verifier or token among their inputs); OK adds only the configured token '
              'headers; correspondence: lock-step replay + marker scan of every answer under 10 encodings',
 'text': 'Machine-checked: C14_denials_are_public, C14_public_material_ignores_secrets, C14_ok_adds_only_tokens. Tie to the code on every run: the REAL handler of the current tree is driven over generated histories with spying wrappers '
         'around the real stores (memory, Redis/miniredis), key provider, generator, clock and a loopback token endpoint; every effect with its arguments and every response are recorded, the Coq '
         "model is replayed in lock-step on the recorded answers (any difference in effects, their order, their arguments or the projected response is a correspondence failure) and the property's "
         "monitor is evaluated on the implementation's own trace by coqc (vm_compute). Every credential of a history is a unique marker; each answer's status message, headers and body are scanned "
         'for it raw, query/path-escaped, base64 (4 alphabets), hex, %q-quoted and inside Basic credentials.'},
    'C15': {'note': 'Trusted: Coq kernel+vm_compute; hand-written model (validated by lock-step replay); Go harness; jwx / encoding/json / net/url behind descriptors computed by the harness (jwt.Parse result, '
         'independent stdlib signature verifier). Gallina axioms: none (Closed under the global context). encoding/json and jwx are exercised, not modelled; coverage-guided fuzzing is not part of '
         'the quick tier.',
 'technique': 'Coq proof: no run of the model reaches a panicking leaf, every typed run ends in a well-formed verdict; correspondence: recover() around every real check over adversarial requests and '
              'provider bodies, verdict class compared with the model',
 'text': 'Machine-checked: C15_never_panics, C15_total. Tie to the code on every run: the REAL handler of the current tree is driven over generated histories with spying wrappers around the real '
         'stores (memory, Redis/miniredis), key provider, generator, clock and a loopback token endpoint; every effect with its arguments and every response are recorded, the Coq model is replayed '
         "in lock-step on the recorded answers (any difference in effects, their order, their arguments or the projected response is a correspondence failure) and the property's monitor is evaluated "
         "on the implementation's own trace by coqc (vm_compute). A panic anywhere in the real check (library code included) surfaces as OPanic in the recorded response and fails monitor and "
         'correspondence with the concrete input.'},
    'C10': {'note': "Trusted: Coq kernel+vm_compute; hand-written store models (validated per operation); miniredis stands for Redis; Go harness. "
         'Gallina axioms: none.',
 'technique': 'Coq proof: abstract session map parameterised by a liveness rule; band lemmas (lia over Z.div) for the memory and the Redis rule; honoured-only-if-alive / live-is-honoured / '
              'creation-time-fixed for any rule; the memory-store model and the command-level Redis model equal the map under their rules for ALL operation sequences (simulations); correspondence: real stores under a virtual clock vs '
              'the models in lock-step + an observation-only band monitor + a system-level run through the real start-up wiring',
 'text': 'Machine-checked: C10_memory_rule_band, C10_redis_rule_band (never honoured after created+abs / last use+idle; alive whenever a whole second remains inside both), '
         'C10_honoured_only_if_alive, C10_live_session_is_honoured, C10_created_fixed (activity moves only the last-use stamp), C10_memory_store_follows_its_rule (refinement, all sequences, '
         'arbitrary clock readings), C10_redis_store_follows_its_rule (refinement, all sequences with non-decreasing clocks), C10_ok_only_if_alive / C10_ok_within_timeouts (the handler model on top of the abstract map gives OK only for a session alive under the rule: inside both limits). Tie to the code on every run: ~1,500 random operation sequences (3-30 ops, clock advances landing on / 1 ns / 1 s around each limit, 12 (abs,idle) pairs incl. '
         'zero) + all length-2 sequences over 2 ids x 6 ops x 3 advances, executed on the REAL memory store and the REAL Redis store (miniredis in step with the virtual clock), compared per '
         'operation with the Coq models of both stores (Redis at command level: HSET/HDEL/HSETNX/EXPIREAT in whole seconds) and judged by a band monitor that uses the observed results only; plus the '
         'store as assembled by NewSessionStoreFactory.PreRun with the real clock (2 s absolute, 1 s idle).'},
    'C12': {'note': 'Trusted: as C10. Fixed (33d4a84): Redis ClearAuthorizationState on a missing session erred. Outside the well-formed guard Redis hides unparsable ID tokens / '
         'incomplete login states (Example C12_refuted_unguarded). The Redis theorem is about the command-level model (Store/Redis.v), which is compared with the real store on miniredis on every run.',
 'technique': 'Coq proof: the abstract map without expiry IS the plain map (all sequences); plain-map laws; the memory-store model AND the command-level Redis model refine the abstract map under their liveness rules (forward simulations, all sequences; Redis: non-decreasing clocks, well-formed values); correspondence: '
              'both real stores vs their models and vs the abstract map per operation, operations routed to two Redis store objects; linearizability of concurrent memory-store histories by witness '
              'order checked in Coq',
 'text': 'Machine-checked: C12_spec_is_plain_map, C12_read_latest_write, C12_ids_independent, C12_remove_erases_all, C12_clear_keeps_tokens, C12_memory_refines_spec, C12_redis_refines_spec, C12_created_fixed. Tie to the '
         'code on every run: the same store-level sequences as C10 (incl. bounded-exhaustive short ones) on the real memory store and on two Redis store objects sharing one server (each operation '
         "routed to either: a store object holds no session state), each result compared with the store's Coq model AND with the abstract map under the store's liveness rule (well-formed values for "
         'Redis); ~150 concurrent histories (3-4 goroutines x 4-5 operations) of the real memory store for which the harness searches a linearization and Coq verifies it (permutation, real-time '
         'order, sequential replay on the memory model gives the observed results).'},
    'C09': {'note': 'Trusted: as C01, plus the gate-based scheduler of the harness. Known findings (not small to repair): stale refresh write (memory, Redis), stale callback write (memory). Any other way of '
         'surviving a logout is reported as a violation.',
 'technique': 'Coq proof over ALL schedules at effect granularity (merged traces of complete runs, store answers constrained by the session map): logout finality holds in every execution without a '
              'stale write (induction along the global order with the proved trace shapes); the unrestricted statement is refuted by a machine-checked witness execution; sequential finality by '
              'history invariant; correspondence: exhaustive enumeration of the interleavings of real goroutines held at store/IdP gates, replayed per thread in lock-step and judged on the global '
              'order',
 'text': 'Machine-checked: C09_logout_response, C09_sequential_final, C09_concurrent_partial (any number of concurrent checks, every interleaving: if no check that performed an effect before the '
         "logout's removal writes under the session id after it, no check with that cookie that acts after the removal is OK), C09_concurrent_final_refuted (a concrete execution - refresh in flight "
         '- in which the logout is answered and the check is then answered OK and the session exists again; the same schedule is reproduced on the real code every run and reported as KNOWN-FINDING). '
         'Tie to the code on every run: every interleaving of a logout with one concurrent check (fresh / expired-refreshable / expired-no-refresh / mid-login callback / pending; 2-5 schedules each) '
         'and up to 150 per triple with two concurrent checks, on memory and Redis, real goroutines stopped at every store call and token-endpoint call; each thread replayed against the model in '
         'lock-step, the global order checked against the session map, finality judged by the monitor which classifies a violation by the stale write that caused it; 200 random sequential histories '
         'with logouts and replays of logged-out cookies.'},
    'C17': {'note': 'Trusted: Coq kernel+vm_compute; the hand-written loader model incl. its reading of proto.Merge and of the generated validation rules (validated by equality of accepted configurations on '
         'every run); protojson, net/url, go-redis URL parsing and net.ParseIP as oracles; Go harness. Gallina axioms: none.',
 'technique': 'Coq proof on a model of Validate() over the decoded message (port clash, URL checks, chain pre-checks, proto.Merge of override over default, defaults, structural checks, generated '
              'ValidateAll rules): never Panic; Ok implies every filter fully resolved (list inductions over chains/filters, case analysis per check); correspondence: ~3,000 grammar-generated '
              'documents (38% accepted) + fixture mutations loaded by the real Validate under recover(), class AND accepted configuration compared with the model',
 'text': 'Machine-checked: C17_no_panic (for every decoded document), C17_accept_sound (accepted => each chain has at most one OIDC filter and every OIDC filter is fully resolved in the sense of the '
         'statement: openid scope, parseable non-root callback, distinct non-root logout path, colon-free client id, secret source, ID-token header, endpoints or discovery URI; default consumed; no '
         'override/untyped filter left), C17_merge_fieldwise. Tie to the code on every run: documents built field by field as perturbations of acceptable ones (every OIDC field, each oneof arm incl. '
         'set-but-empty members, untyped filters, sparse overrides, unparsable / root / colliding URLs, tcp:// Redis URIs, odd ports/addresses/log levels) plus mutations of the 19 repository '
         "fixtures; each is decoded with protojson, printed as the model's input with the oracle answers (url.Parse, redis.ParseURL, net.ParseIP), loaded with LocalConfigFile.Validate under "
         "recover(); the class (accepted / error / panic) and, when accepted, the whole resulting configuration are compared with the model's result in Coq; a panic or an accepted-but-unresolved "
         'configuration is a violation regardless of the model.'},
    'C19': {'note': 'Trusted: Coq kernel+vm_compute; hand-written controller model; the verif-tagged constructor hook; controller-runtime fake client; Go harness. Gallina axioms: none.',
 'technique': 'Coq proof: the controller model (start-up map + Reconcile) yields, for ALL event histories, cluster states and configurations, exactly the per-filter reference (induction over the '
              'history; exactness of the start-up map by induction over the filter list); cross-namespace refusal; correspondence: random configurations and event histories against the real '
              "SecretController over controller-runtime's fake client",
 'text': "Machine-checked: C19_tracks_reference (every filter's effective secret after every event of every history equals the independent per-filter reference: last delivered non-empty value of the "
         'not-being-deleted Secret it referenced at start-up, same namespace; otherwise unchanged), C19_unreferenced_untouched, C19_cross_ns_refused. Tie to the code on every run: 600 random '
         'configurations (1-4 OIDC filters, literal / absent secrets and references to shared, distinct or empty-named Secrets in the empty, own or a foreign namespace) with histories of 4-25 events '
         "(create, update, delete, being-deleted via finalizer, key-less, empty value, foreign namespace, unrelated names, resyncs) applied to controller-runtime's fake client and followed by the "
         "real Reconcile; after every event each filter's GetClientSecret() is compared with the controller model and with the reference in Coq; for every tenth configuration the Authorization "
         'header of a real authorization-code exchange is checked to carry the current value.'},
    'C20': {'note': "Trusted: Coq kernel+vm_compute; hand-written pool model; Go's crypto/tls and x509; real-time waits (10 intervals of 40-80 ms); FNV-64a collision-freedom on explored keys. Fixed (eabedd4): a "
         'later registration for the same file with different settings cancelled the earlier watcher. The lookup-then-insert window of LoadTLSConfig under concurrent first loads is not explored. '
         'Gallina axioms: none.',
 'technique': 'Coq proof on a model of LoadTLSConfig / updateCA / FileWatcher / BoolStrValue: first load builds exactly the expected trust, skip only if requested and no CA, identical settings '
              'share, distinct settings get distinct objects (pool key injective), rotation reaches the pooled object at the next tick, a watcher is stopped only by a re-registration of the same settings; refutation witness for the old key; '
              ' correspondence: real pool + watcher + NewHTTPClient judged by real TLS handshakes against loopback servers of throw-away CAs',
 'text': 'PARTIAL (decision and bookkeeping logic proved; X.509, handshake and timers are runtime facts exercised by the correspondence run). Machine-checked: C20_trust_matches_config, '
         'C20_skip_only_if_requested_and_no_ca, C20_identical_settings_share, C20_distinct_settings_distinct, C20_rotation, C20_rotation_all_histories (invariant of every reachable pool state: a rewritten CA file reaches the pooled object of every settings watching it, for all histories), C20_superseded_watcher_stops, C20_other_settings_do_not_stop_a_watcher (+ Examples C20_old_pool_key_collides, '
         'C20_two_settings_one_file_both_follow). Tie to the code on every run: 6 designed scenarios (colliding concatenations, identical settings, single-watcher rotation A->B->A, two settings '
         'on one file, every spelling of skip_verify) and 40 random sequences of loads / CA-file rewrites / waits of ten intervals against the real pool and watcher; after every step every client '
         'built by NewHTTPClient at load time opens NEW connections to the TLS servers of CA A and CA B; load results (nil / error / object identity) and handshake outcomes are compared with the '
         'pool model and with a settings-and-file-history reference in Coq.'},
    'C16': {'note': 'Trusted: Coq kernel+vm_compute; the Go race detector and this machine\'s scheduler; the lexical translator (racesummary.go) and the committed list known_unprotected (Corr/C16.v) with the reason for each entry. '
         'Gallina axioms: none. Unlock-synchronises-with-Lock (Go memory model) is taken as given. What the theorem cannot exhibit: the schedules themselves - those come from real goroutines.',
 'technique': 'Coq proof of lockset soundness over all event traces (any threads, any interleaving): two accesses by different threads under one correctly used lock are separated by Rel(t1);Acq(t2); '
              'per-run obligation evaluated by coqc over an access summary REGENERATED from the Go sources (translator); plus the real service hammered by 16 goroutines under the happens-before race detector with a deadlock watchdog',
 'text': 'PARTIAL. Machine-checked once: C16_lockset_sound and C16_obligation_sound (for every trace in which the lock is acquired only when free and released only by its holder, accesses to one location by two threads that each hold the lock are '
         'ordered by a release/acquire pair). Re-checked on every run against the current sources: a go/parser translator follows Lock/Unlock/defer regions in every non-test function of internal/..., including helpers '
         'all of whose call sites hold the lock (fixpoint), and emits every access to a struct field or package variable as (location, function, write?, under its lock?, start-up?); coqc evaluates the obligation that every '
         'location written while serving is accessed under its lock everywhere, except for a committed list with reasons; a new unprotected location is a VIOLATION (no-failing-input-found unless the detector also sees it). '
         'Executed schedules: 8 OIDC filters (static and discovered endpoints, inline and fetched key sets, memory and Redis; four of them first used seconds into the run; sessions shared between goroutines through the expiry of their tokens) sharing configuration objects, TLS pool, discovery cache, JWKS provider and stores are driven through the real '
         'ExtAuthZFilter.Check by 16 goroutines issuing every request kind while the secret controller reconciles rotating secrets and the CA file is rewritten; built with -race; every report that involves the service is '
         'canonicalised to its writer function(s) and reported with the two stacks as the replay; runtime aborts (concurrent map access) and a stalled request counter (deadlock) are findings too.'},
    'C18': {'note': 'Trusted: Coq kernel+vm_compute; hand-written model (handler model validated by lock-step replay in C01-C15; factory model validated here against the real factory); Go harness; store timeouts read by reflection. '
         'Gallina axioms: none. The property as stated is REFUTED for shared stores (theorems with witnesses); those are known findings, the positive theorems carry stores_distinct.',
 'technique': 'Coq proof over ALL histories of checks through any number of filters (each check = any run of the proved handler model with its filter\'s configuration against the store the factory hands it): '
              'an OK is always for a session bound through a filter with the same store (invariant by induction over the history); corollaries under stores_distinct; refutation witnesses computed in Coq; '
              'correspondence: real factory + real Check over all 2- and 3-filter store assignments x ordered pairs x cookie namings',
 'text': 'Machine-checked: C18_ok_has_origin (any configuration, history, cookie naming, store failures: an OK verdict of filter g is for a session whose tokens were bound by a check of a filter handed the same store), '
         'C18_isolated_when_stores_distinct (with a store per filter: honoured only by the creating filter), C18_own_timeouts_when_stores_distinct, and the refutations C18_refuted_shared_store (three concrete checks: login at A, '
         'OK at B with A\'s ID token forwarded) and C18_refuted_foreign_timeouts (memory: first filter wins; Redis: last filter wins). Tie to the code on every run: all 36 assignments of {memory, Redis A, Redis B} to 2 and 3 '
         'filters with random timeouts are assembled by the REAL store factory and ExtAuthZFilter; store identity per pair, store timeouts per filter and, per ordered pair x 6 cookie namings, a real login at i followed by '
         'the presentation at j are compared with the model\'s prediction (shares && request_sid under j\'s prefix); cross-filter OKs and foreign timeouts are monitor failures (known findings by store kind).'},
    'C06': {'note': 'Trusted: Coq kernel+vm_compute; the translator and its classification table; the OS CSPRNG. The syntactic summary cannot prove disjointness of draws (covered by the relation battery, i.e. '
         'tested). Gallina axioms: none.',
 'technique': "Coq theorems on an abstract generator (time-seeded => attacker's candidate list of size <= window always contains the id; CSPRNG with draws of its own => the public view is "
              'independent of the id) + a per-run proof obligation [secure summary = true] evaluated by coqc on an entropy-source summary REGENERATED from the Go sources by a translator (go/parser); '
              'failing-input search: seed brute force over the measured call window, relation battery over 20,000 real draws',
 'text': 'PARTIAL. Machine-checked once: C06_time_seeded_predictable, C06_csprng_view_independent. Re-checked on every run against the current sources: the translator finds every session-generator '
         'constructor used by non-test code, follows the methods that produce session id / nonce / state / verifier through the package, classifies every function outside the module against a table '
         '(crypto/rand, oauth2.GenerateVerifier: CSPRNG; math/rand, time, pid: weak; anything unknown: Unknown) and the stateful stream objects they draw from; Coq evaluates the obligation on that '
         'summary. Search on every run: for 5 real logins the attack of the first theorem is run for real (all seeds in the measured window, math/rand, match on public state+nonce); 20,000 logins '
         'are drawn and checked for repeats, textual relations between the outputs of one login and of consecutive logins, and gross per-position bias.'},
    "C07": {
        "technique": "Coq proof (induction over rule/pattern lists and strings) of the trigger decision = documented function of the path component, for all rule sets, targets and regex engines; correspondence: exhaustive small-alphabet targets x rule sets through ExtAuthZFilter.Check, evaluated against model and an independent monitor by coqc vm_compute",
        "text": "Machine-checked theorems (C07_trigger_spec, C07_query_irrelevant, C07_path_split; closed under the global context) over a model of GetPathQueryFragment/stringMatch/matchTriggerRule/mustTriggerCheck, for ALL rule sets and ALL byte strings. The model is tied to the code on every run by running ExtAuthZFilter.Check of the current tree on every target over {/,a,b,.,?,#} up to length 5 (6 in thorough) for dozens of rule sets (all four match kinds, regex from a sub-grammar) and comparing with the model and with an independently written boolean spec inside Coq.",
        "note": "Trusted: Coq kernel+vm_compute, the hand-written model (validated by the correspondence run), the Go harness, RE2 represented by a derivative matcher on the generated sub-grammar (theorems hold for any engine). Envoy's own path normalisation is out of scope.",
    },
    "C08": {
        "technique": "Coq proof (induction over chain and filter lists) that the Check loop equals an independent reference evaluator incl. the list of evaluated filters; correspondence: bounded-exhaustive + random chain layouts through the real Check with mock and scripted OIDC filters and a spying store factory",
        "text": "Machine-checked theorems (C08_check_eq_ref and four corollaries: first match wins, all filters must allow, evaluation stops at the first refusal, unmatched default) for ALL chain lists, header maps, flags and filter behaviours. Tied to the code each run by ~12k (quick) layouts through ExtAuthZFilter.Check: all one-chain layouts over 19 criteria x 31 filter lists x 5 header values x flag, and random 0-4 chain layouts; verdict class and the OIDC filters actually evaluated (observed through the store factory) are compared with model and reference evaluator in Coq.",
        "note": "Trusted: Coq kernel+vm_compute, hand-written model, Go harness. Filters are abstract in the model; header names are assumed lower-cased by Envoy and configured names ASCII (strings.ToLower is modelled for ASCII).",
    },
}
