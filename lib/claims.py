"""Claim texts per property for MANIFEST.json."""
NOT_APPLICABLE = {}
CLAIMS = {
    "C07": {
        "technique": "Coq proof (induction over rule/pattern lists and strings) of the trigger decision = documented function of the path component, for all rule sets, targets and regex engines; correspondence: exhaustive small-alphabet targets x rule sets through ExtAuthZFilter.Check, evaluated against model and an independent monitor by coqc vm_compute",
        "text": "Machine-checked theorems (C07_trigger_spec, C07_query_irrelevant, C07_path_split; closed under the global context) over a model of GetPathQueryFragment/stringMatch/matchTriggerRule/mustTriggerCheck, for ALL rule sets and ALL byte strings. The model is tied to the code on every run by running ExtAuthZFilter.Check of the current tree on every target over {/,a,b,.,?,#} up to length 5 (6 in thorough) for dozens of rule sets (all four match kinds, regex from a sub-grammar) and comparing with the model and with an independently written boolean spec inside Coq.",
        "note": "Trusted: Coq kernel+vm_compute, the hand-written model (validated by the correspondence run), the Go harness, RE2 represented by a derivative matcher on the generated sub-grammar (theorems hold for any engine). Envoy's own path normalisation is out of scope.",
    },
    "C08": {
        "technique": "Coq proof (induction over chain and filter lists) that the Check loop equals an independent reference evaluator incl. the list of evaluated filters; correspondence: bounded-exhaustive + random chain layouts through the real Check with mock and scripted OIDC filters and a spying store factory",
        "text": "Machine-checked theorems (C08_check_eq_ref and four corollaries: first match wins, all filters must allow, evaluation stops at the first refusal, unmatched default) for ALL chain lists, header maps, flags and filter behaviours. Tied to the code each run by ~12k (quick) layouts through ExtAuthZFilter.Check: all one-chain layouts over 19 criteria x 31 filter lists x 5 header values x flag, and random 0-4 chain layouts; verdict class and the OIDC filters actually evaluated (observed through the store factory) are compared with model and reference evaluator in Coq.",
        "note": "Trusted: Coq kernel+vm_compute, hand-written model, Go harness. Filters are abstract in the model; header names are assumed lower-cased by Envoy and configured names ASCII (strings.ToLower is modelled for ASCII).",
    },
}
