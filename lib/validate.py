#!/usr/bin/env python3
import json, sys, glob, os
import jsonschema
V = os.path.dirname(os.path.dirname(os.path.abspath(__file__)))
jsonschema.validate(json.load(open(V + '/MANIFEST.json')), json.load(open('/root/.vp/MANIFEST.schema.json')))
es = json.load(open('/root/.vp/EVIDENCE.schema.json'))
for f in sorted(glob.glob(V + '/evidence/*.json')):
    jsonschema.validate(json.load(open(f)), es)
print('manifest + %d evidence files valid' % len(glob.glob(V + '/evidence/*.json')))
