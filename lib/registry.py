"""Per-property registry used by ./check: theorem names, trusted base, replay descriptions."""

TRUSTED_COMMON = [
    "Coq 8.16.1 kernel + vm_compute (no native_compute); coqchk run in the thorough tier",
    "hand-written Coq model of the anchored code (tied to /repo by the correspondence run of this check, not by construction)",
    "Go harness (/verif/harness): drives the real code, records observations, prints Gallina terms",
    "Python orchestrator (/verif/check): verdict classification, known-findings matching",
]


def _words(alpha, n):
    if n == 0:
        return [""]
    sub = _words(alpha, n - 1)
    return [a + w for a in alpha for w in sub]


def _c07_item(d, it):
    ws = []
    for i in range(d["len"] + 1):
        ws += _words(d["alpha"], i)
    if it < len(ws):
        return {"target": ws[it]}
    e = d["extra"][it - len(ws)]
    return {"target": e[0], "implementation_triggered": e[1]}


def _hist_item(d, it):
    try:
        return d["steps"][it]
    except Exception:
        return it


_HANDLER_TRUSTED = [
    "jwx (JWT parsing, signature verification), encoding/json and net/url.Parse sit behind descriptors supplied by the harness (tokdb: what jwt.Parse and an independent stdlib verifier make of each token)",
    "the handler is run against spying wrappers of the REAL stores (memory, Redis on miniredis), key provider and a loopback token endpoint; golang.org/x/oauth2 computes the PKCE challenge",
]


def _store_item(d, it):
    try:
        return {"step": it, "operation": d["steps"][it], "timeouts_s": [d["abs_s"], d["idle_s"]]}
    except Exception:
        return it


def _sig_store(d, it, codes):
    if codes == [5]:
        return "C12/redis-clear-missing"
    return None


def _sig_c09(d, it, codes):
    store = d.get("store", "?") if isinstance(d, dict) else "?"
    if codes and all(c in (11,) for c in codes):
        return "C09/stale-refresh-write/" + store
    if codes and all(c in (12,) for c in codes):
        return "C09/stale-callback-write/" + store
    return None


def _sig_hist(d, it, codes):
    return None


def _sig_c18(d, it, codes):
    item = (d or {}).get("items", {}).get(str(it), {})
    if 2 in codes and item.get("kind") == "cross":
        if not item.get("same_server_uri"):
            return "C18/cross-filter-session/distinct-stores"
        return "C18/cross-filter-session/" + ("memory" if item.get("store_j") == "mem" else "redis-same-server-uri")
    if 4 in codes and item.get("kind") == "timeouts":
        # the known finding: the timeouts in force are those of ANOTHER FILTER THAT IS HANDED THE SAME STORE (first one for the
        # memory store, last one for a Redis server URI); foreign timeouts of any other origin are a different violation
        fs = (d or {}).get("filters", [])
        i = item.get("filter")
        eff = (item.get("effective_absolute_s"), item.get("effective_idle_s"))
        me = next((f for f in fs if f.get("filter") == i), None)
        sharers = [f for f in fs if me is not None and f.get("filter") != i and f.get("store") == me.get("store")]
        if any((f.get("absolute_s"), f.get("idle_s")) == eff for f in sharers):
            return "C18/foreign-timeouts/" + item.get("rule", "?")
        return "C18/foreign-timeouts/of-a-filter-with-another-store"
    return None


PROPS = {
    "C01": {
        "modules": ["Properties.C01"],
        "theorems": ["C01_ok_justified", "C01_any_failure_denies", "C01_no_cookie_no_ok", "C01_ok_needs_live_session"],
        "describe_item": _hist_item, "trusted": _HANDLER_TRUSTED,
        "assumptions": ["session timeouts/evictions are C10's business: the history model lets the map drop any session between checks"],
    },
    "C02": {
        "modules": ["Properties.C02"],
        "theorems": ["C02_bound_implies_validated", "C02_forwarded_eq_bound", "C02_header_encoding", "C02_store_holds_only_validated"],
        "describe_item": _hist_item, "trusted": _HANDLER_TRUSTED,
        "assumptions": ["unforgeability of RSA/ECDSA signatures; jwx behaves on unexplored tokens as on the explored adversarial grammar"],
    },
    "C04": {
        "modules": ["Properties.C04"],
        "theorems": ["C04_exchange_bound", "C04_state_issued_with_session", "C04_state_consumed", "C04_replay_no_exchange"],
        "describe_item": _hist_item, "trusted": _HANDLER_TRUSTED,
        "assumptions": ["S256 is computed by golang.org/x/oauth2 (checked against the provider simulator's own S256 on every exchange)",
                        "interleavings of overlapping callbacks are covered by C09's schedule exploration, not here"],
    },
    "C05": {
        "modules": ["Properties.C05"],
        "theorems": ["C05_renewal", "C05_tokens_under_presented_id", "C05_only_issued_ids", "C05_cookie_attrs", "C05_cookie_roundtrip"],
        "describe_item": _hist_item, "trusted": _HANDLER_TRUSTED,
        "assumptions": ["cookie theorems are stated for cookie-safe prefixes and ids (printable ASCII without ';', '=' and space); outside it see C05_cookie_attrs_refuted_nontoken",
                        "freshness of drawn ids (different from anything presented before) is the generator's job (C06); the monitor checks it on the explored histories"],
    },
    "C11": {
        "modules": ["Properties.C11"],
        "theorems": ["C11_refresh_success_shape", "C11_merged_is_stored", "C11_failure_ends_session"],
        "describe_item": _hist_item, "trusted": _HANDLER_TRUSTED,
        "assumptions": [],
    },
    "C14": {
        "modules": ["Properties.C14"],
        "theorems": ["C14_denials_are_public", "C14_public_material_ignores_secrets", "C14_ok_adds_only_tokens"],
        "describe_item": _hist_item, "trusted": _HANDLER_TRUSTED,
        "assumptions": ["logs are not a user-agent channel and are not examined"],
    },
    "C15": {
        "modules": ["Properties.C15"],
        "theorems": ["C15_never_panics", "C15_total"],
        "describe_item": _hist_item, "trusted": _HANDLER_TRUSTED,
        "assumptions": ["panics inside third-party libraries are visible only to the recover() of the correspondence run, not to the theorem"],
    },
    "C09": {
        "modules": ["Properties.C09"],
        "theorems": ["C09_logout_response", "C09_sequential_final", "C09_concurrent_final_refuted", "C09_concurrent_partial"],
        "describe_item": _hist_item, "signature": _sig_c09, "trusted": _HANDLER_TRUSTED + [
            "schedules are enforced by gates in the spying store wrappers and in the loopback token endpoint (one effect at a time); the Go scheduler and memory model below that granularity are C12/C16's business"],
        "assumptions": ["the generator never hands out a session id twice (fresh ids; C06)", "store calls are atomic (C12)"],
    },
    "C10": {
        "modules": ["Properties.C10"],
        "theorems": ["C10_memory_rule_band", "C10_redis_rule_band", "C10_honoured_only_if_alive", "C10_live_session_is_honoured", "C10_created_fixed", "C10_memory_store_follows_its_rule", "C10_redis_store_follows_its_rule", "C10_ok_only_if_alive", "C10_ok_within_timeouts"],
        "describe_item": _store_item, "signature": _sig_store,
        "trusted": ["Redis is represented by miniredis (virtual clock via SetTime/FastForward); go-redis and the RFC 3339 time encoding are exercised, not modelled",
                    "the system-level run uses the real start-up wiring (NewSessionStoreFactory.PreRun) and the real clock for the memory store; miniredis does not expire keys in real time, so Redis is covered at store level only"],
        "assumptions": ["time does not run backwards between operations"],
    },
    "C12": {
        "modules": ["Properties.C12"],
        "theorems": ["C12_spec_is_plain_map", "C12_read_latest_write", "C12_ids_independent", "C12_remove_erases_all", "C12_clear_keeps_tokens", "C12_memory_refines_spec", "C12_redis_refines_spec", "C12_created_fixed"],
        "describe_item": _store_item, "signature": _sig_store,
        "trusted": ["Redis is represented by miniredis; the Redis store's command-level model (Store/Redis.v) is tied to the code by lock-step comparison only - its refinement of the abstract map is compared on every explored sequence, not proved",
                    "linearizability: the witness order is searched by the harness and CHECKED in Coq against the memory-store model"],
        "assumptions": ["values are the ones the handler writes (parsing non-empty ID token, four non-empty login-state members) for the Redis/spec comparison"],
    },
    "C17": {
        "modules": ["Properties.C17"],
        "theorems": ["C17_no_panic", "C17_accept_sound", "C17_merge_fieldwise"],
        "describe_item": (lambda d, it: {"origin": d.get("origin"), "class": d.get("class"), "message": d.get("message")}),
        "trusted": ["protojson decoding, net/url.Parse, redis.ParseURL and net.ParseIP are oracles whose answers the harness attaches to the decoded document; proto.Merge and the generated ValidateAll rules are MODELLED (Config/Loader.v) and tied to the code by comparing class and accepted configuration on every generated document"],
        "assumptions": ["the model starts from the decoded message: documents protojson rejects are only checked for 'error, not panic'"],
    },
    "C19": {
        "modules": ["Properties.C19"],
        "theorems": ["C19_tracks_reference", "C19_unreferenced_untouched", "C19_cross_ns_refused"],
        "describe_item": (lambda d, it: {"filter_or_row": it, "sources": d.get("sources"), "events": d.get("events")}),
        "trusted": ["controller-runtime's fake client stands for the API server and the controller manager's event delivery is represented by calling Reconcile after each change (hook: NewSecretControllerForVerification, build tag verif)",
                    "the token request's use of the current value is read through GetClientSecret() and, for a sample, from the Authorization header of a real code exchange"],
        "assumptions": ["Reconcile calls are serialised (controller-runtime's default of one worker per controller); the data race between Reconcile and checks is C16's business"],
    },
    "C20": {
        "modules": ["Properties.C20"],
        "theorems": ["C20_trust_matches_config", "C20_skip_only_if_requested_and_no_ca", "C20_identical_settings_share", "C20_distinct_settings_distinct",
                     "C20_rotation", "C20_rotation_all_histories", "C20_superseded_watcher_stops", "C20_other_settings_do_not_stop_a_watcher"],
        "describe_item": (lambda d, it: {"scenario": d.get("scenario"), "op_index": it, "op": (d.get("ops") or [None] * (it + 1))[it] if isinstance(it, int) and it < len(d.get("ops") or []) else None}),
        "signature": (lambda d, it, codes: "C20/same-file-watcher-superseded" if codes == [12] else None),
        "trusted": ["X.509 verification and the TLS handshake are Go's (judged by real handshakes against loopback servers of throw-away CAs); timers are real (waits of ten intervals); FNV-64a is assumed collision-free on the explored pool keys"],
        "assumptions": ["LoadTLSConfig calls are not concurrent with one another in the explored sequences (the lookup-then-insert window of the pool is not explored)"],
    },
    "C06": {
        "modules": ["Properties.C06"],
        "theorems": ["C06_time_seeded_predictable", "C06_csprng_view_independent"],
        "obligation_codes": [3],
        "describe_item": (lambda d, it: d),
        "trusted": ["the translator (harness/cmd/harness/c06.go: go/parser over internal/oidc and the constructors used by non-test code) and its classification table of external functions (crypto/rand, oauth2.GenerateVerifier = CSPRNG; math/rand, time, pid = weak; unknown packages = Unknown, which fails the obligation)",
                    "the OS CSPRNG itself; disjointness of draws is only tested (relation battery), not proved from the source"],
        "assumptions": ["PARTIAL: an information-flow theorem about an abstract generator plus a conservative syntactic source classification"],
    },
    "C16": {
        "modules": ["Properties.C16"],
        "theorems": ["C16_lockset_sound", "C16_obligation_sound"],
        "obligation_codes": [3],
        "race": True,
        "describe_item": (lambda d, it: {0: "a location outside the committed list is written while serving and accessed outside its lock",
                                         1: "the regenerated summary is implausibly small (translator broken?)", 2: "no summary"}.get(it, it)),
        "trusted": ["the Go race detector (ThreadSanitizer happens-before) as the judge of executed schedules; the scheduler of this machine as the source of schedules",
                    "the translator harness/cmd/harness/racesummary.go (go/parser, lexical lock regions, syntactic types; closures' parameters and values reached through interfaces are not tracked)",
                    "Corr/C16.v known_unprotected: the committed list of locations that are unprotected for a stated reason (goroutine-confined, published through a channel, or an open finding)"],
        "assumptions": ["PARTIAL: the theorem is the soundness of the lock discipline for ALL executions; that the code follows the discipline is a per-run syntactic obligation plus the race detector on the schedules that occurred",
                        "the Go memory model's rule that Unlock synchronises-with a later Lock is taken as given"],
    },
    "C18": {
        "modules": ["Properties.C18"],
        "theorems": ["C18_ok_has_origin", "C18_isolated_when_stores_distinct", "C18_own_timeouts_when_stores_distinct",
                     "C18_refuted_shared_store", "C18_refuted_foreign_timeouts"],
        "describe_item": (lambda d, it: d.get("items", {}).get(str(it), it)),
        "signature": _sig_c18,
        "trusted": _HANDLER_TRUSTED + ["the store objects' timeouts are read from their unexported fields by reflection; how a store enforces its timeouts is C10's business",
                                       "one provider simulator serves all filters (distinct endpoints paths, client ids and secrets per filter)"],
        "assumptions": ["the property as stated is refuted for configurations in which two filters are handed the same store (C18_refuted_shared_store, C18_refuted_foreign_timeouts; known findings); the positive theorems carry the hypothesis stores_distinct",
                        "filters are in separate chains (one OIDC filter per chain), as in the property's quantifier"],
    },
    "C03": {
        "modules": ["Properties.C03"],
        "theorems": ["C03_login_completes", "C03_lifetime"],
        "describe_item": _hist_item, "trusted": _HANDLER_TRUSTED,
        "assumptions": ["'compliant provider' is the hypothesis list of C03_login_completes; cookie parsing of the presented cookie is C05_cookie_roundtrip",
                        "the provider's authorization UI and Envoy's redirect handling are represented by the browser simulator"],
    },
    "C13": {
        "modules": ["Properties.C13"],
        "theorems": ["C13_escape_roundtrip", "C13_encode_parse_roundtrip", "C13_location_wellformed", "C13_location_endpoint_query_retained", "C13_redirects"],
        "describe_item": _hist_item, "trusted": _HANDLER_TRUSTED,
        "assumptions": ["the authorization endpoint carries no fragment (the loader does not forbid one); 'scope contains openid' is established by the loader (C17)"],
    },
    "C07": {
        "modules": ["Properties.C07"],
        "theorems": ["C07_trigger_spec", "C07_query_irrelevant", "C07_path_split"],
        "describe_item": _c07_item,
        "trusted": ["regexp (RE2) is represented by a derivative matcher on a generated sub-grammar (test side only; the theorems hold for any engine)"],
        "assumptions": ["request targets reach Check in the :path form path[?query][#fragment]"],
    },
    "C08": {
        "modules": ["Properties.C08"],
        "theorems": ["C08_check_eq_ref", "C08_first_match_wins", "C08_all_filters_must_allow",
                     "C08_stops_at_first_refusal", "C08_unmatched_default"],
        "trusted": ["filters are abstract in the model (mock filters and scripted OIDC filters in the harness)"],
        "assumptions": ["Envoy delivers header names lower-cased; configured header names are ASCII"],
    },
}
