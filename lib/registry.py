"""Per-property registry used by ./check: theorem names, trusted base, replay descriptions."""

TRUSTED_COMMON = [
    "Coq 8.16.1 kernel + vm_compute (no native_compute); coqchk run in the thorough tier",
    "hand-written Coq model of the anchored code (tied to /repo by the correspondence run of this check, not by construction)",
    "Go harness (/verif/harness): drives the real code, records observations, prints Gallina terms",
    "Python orchestrator (/verif/check): verdict classification, known-findings matching",
]


def _words(alpha, n):
    if n == 0:
        return [""]
    sub = _words(alpha, n - 1)
    return [a + w for a in alpha for w in sub]


def _c07_item(d, it):
    ws = []
    for i in range(d["len"] + 1):
        ws += _words(d["alpha"], i)
    if it < len(ws):
        return {"target": ws[it]}
    e = d["extra"][it - len(ws)]
    return {"target": e[0], "implementation_triggered": e[1]}


def _hist_item(d, it):
    try:
        return d["steps"][it]
    except Exception:
        return it


PROPS = {
    "C01": {
        "modules": ["Properties.C01"],
        "theorems": [],
        "describe_item": _hist_item,
        "trusted": ["jwx (JWT parsing, signature verification), encoding/json and net/url.Parse sit behind descriptors supplied by the harness"],
        "assumptions": [],
    },
    "C03": {"modules": ["Properties.C01"], "theorems": [], "describe_item": _hist_item},
    "C13": {"modules": ["Properties.C01"], "theorems": [], "describe_item": _hist_item},
    "C15": {"modules": ["Properties.C01"], "theorems": [], "describe_item": _hist_item},
    "C07": {
        "modules": ["Properties.C07"],
        "theorems": ["C07_trigger_spec", "C07_query_irrelevant", "C07_path_split"],
        "describe_item": _c07_item,
        "trusted": ["regexp (RE2) is represented by a derivative matcher on a generated sub-grammar (test side only; the theorems hold for any engine)"],
        "assumptions": ["request targets reach Check in the :path form path[?query][#fragment]"],
    },
    "C08": {
        "modules": ["Properties.C08"],
        "theorems": ["C08_check_eq_ref", "C08_first_match_wins", "C08_all_filters_must_allow",
                     "C08_stops_at_first_refusal", "C08_unmatched_default"],
        "trusted": ["filters are abstract in the model (mock filters and scripted OIDC filters in the harness)"],
        "assumptions": ["Envoy delivers header names lower-cased; configured header names are ASCII"],
    },
}
