#!/bin/sh
# usage: lib/mut.sh <patch.diff> <PROP>... — apply a seeded change to /repo, run the quick checks, undo it
P=$1; shift
cd /repo && git apply "$P" || { echo "patch does not apply"; exit 2; }
cd /verif
for p in "$@"; do ./check $p --tier quick 2>&1 | grep -E "^(OK|VIOLATION|KNOWN)" | sed "s|^|[$p] |"; done
cd /repo && git checkout -- . && git status --short | head -3
