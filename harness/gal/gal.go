// Package gal prints Gallina terms for the cases files evaluated by coqc.
package gal

import (
	"fmt"
	"strings"
	"sync"
)

// interning: every byte string longer than a few bytes is defined once per cases file
// (Definition sN := us len [words]) and referenced by name.
var (
	internMu   sync.Mutex
	internIdx  = map[string]int{}
	internDefs []string
)

// ResetIntern starts a new cases file.
func ResetIntern() { internMu.Lock(); internIdx = map[string]int{}; internDefs = nil; internMu.Unlock() }

// InternDefs returns the definitions of the strings interned since the last reset.
func InternDefs() []string { internMu.Lock(); defer internMu.Unlock(); return internDefs }

func packed(s string) string {
	var b strings.Builder
	fmt.Fprintf(&b, "(us %d [", len(s))
	for i := 0; i < len(s); i += 7 {
		var w uint64
		for j := 0; j < 7; j++ {
			w <<= 8
			if i+j < len(s) {
				w |= uint64(s[i+j])
			}
		}
		if i > 0 {
			b.WriteString("; ")
		}
		fmt.Fprintf(&b, "0x%x%%uint63", w)
	}
	b.WriteString("])")
	return b.String()
}

func plainASCII(s string) bool {
	for i := 0; i < len(s); i++ {
		c := s[i]
		if c < 0x20 || c > 0x7e || c == '"' {
			return false
		}
	}
	return true
}

// S is a byte string.  Short printable ones are literals; others are packed and interned.
func S(s string) string {
	if s == "" {
		return `""`
	}
	if len(s) <= 12 && plainASCII(s) {
		return `"` + s + `"`
	}
	internMu.Lock()
	defer internMu.Unlock()
	if i, ok := internIdx[s]; ok {
		return fmt.Sprintf("s%d", i)
	}
	i := len(internDefs)
	internIdx[s] = i
	internDefs = append(internDefs, fmt.Sprintf("Definition s%d := Eval vm_compute in %s.", i, packed(s)))
	return fmt.Sprintf("s%d", i)
}

// Lit is a literal Coq string; only for text known to be plain ASCII without quotes.
func Lit(s string) string { return `"` + s + `"` }

func B(b bool) string {
	if b {
		return "true"
	}
	return "false"
}

func N(n int) string { return fmt.Sprintf("%d", n) }

func Z(n int64) string { return fmt.Sprintf("(%d)%%Z", n) }

func L(items []string) string { return "[" + strings.Join(items, "; ") + "]" }

func Ns(ns []int) string {
	out := make([]string, len(ns))
	for i, n := range ns {
		out[i] = N(n)
	}
	return L(out)
}

func Pair(a, b string) string { return "(" + a + ", " + b + ")" }

func Opt(present bool, v string) string {
	if present {
		return "(Some " + v + ")"
	}
	return "None"
}

// App applies a constructor or function.
func App(f string, args ...string) string {
	if len(args) == 0 {
		return f
	}
	return "(" + f + " " + strings.Join(args, " ") + ")"
}

// Rec prints a record {| f := v; ... |}; fields as alternating name, value.
func Rec(kv ...string) string {
	var b strings.Builder
	b.WriteString("{| ")
	for i := 0; i+1 < len(kv); i += 2 {
		if i > 0 {
			b.WriteString("; ")
		}
		b.WriteString(kv[i] + " := " + kv[i+1])
	}
	b.WriteString(" |}")
	return b.String()
}
