// Package gal prints Gallina terms for the cases files evaluated by coqc.
package gal

import (
	"encoding/hex"
	"fmt"
	"strings"
)

// S is a byte string, transported as hex and decoded in Coq by Base.Str.hx.
func S(s string) string {
	if s == "" {
		return `""`
	}
	return `(hx "` + hex.EncodeToString([]byte(s)) + `")`
}

// Lit is a literal Coq string; only for text known to be plain ASCII without quotes.
func Lit(s string) string { return `"` + s + `"` }

func B(b bool) string {
	if b {
		return "true"
	}
	return "false"
}

func N(n int) string { return fmt.Sprintf("%d", n) }

func Z(n int64) string { return fmt.Sprintf("(%d)%%Z", n) }

func L(items []string) string { return "[" + strings.Join(items, "; ") + "]" }

func Ns(ns []int) string {
	out := make([]string, len(ns))
	for i, n := range ns {
		out[i] = N(n)
	}
	return L(out)
}

func Pair(a, b string) string { return "(" + a + ", " + b + ")" }

func Opt(present bool, v string) string {
	if present {
		return "(Some " + v + ")"
	}
	return "None"
}

// App applies a constructor or function.
func App(f string, args ...string) string {
	if len(args) == 0 {
		return f
	}
	return "(" + f + " " + strings.Join(args, " ") + ")"
}

// Rec prints a record {| f := v; ... |}; fields as alternating name, value.
func Rec(kv ...string) string {
	var b strings.Builder
	b.WriteString("{| ")
	for i := 0; i+1 < len(kv); i += 2 {
		if i > 0 {
			b.WriteString("; ")
		}
		b.WriteString(kv[i] + " := " + kv[i+1])
	}
	b.WriteString(" |}")
	return b.String()
}
