package main

// c16.go — C16 (freedom from data races): many goroutines hammer ExtAuthZFilter.Check with every request kind against
// shared configuration, stores, TLS pool, discovery cache and key provider, while client secrets are reconciled and
// the trusted CA file is rewritten.  Built with -race; the race detector's reports are collected from its log by the
// check script.  (The static half - lock discipline re-extracted from the sources - is in racesummary.go.)

import (
	"context"
	"fmt"
	"net/url"
	"os"
	"path/filepath"
	"strings"
	"sync"
	"sync/atomic"
	"time"

	"github.com/alicebob/miniredis/v2"
	corev1 "k8s.io/api/core/v1"
	metav1 "k8s.io/apimachinery/pkg/apis/meta/v1"
	"k8s.io/apimachinery/pkg/types"
	ctrl "sigs.k8s.io/controller-runtime"
	"sigs.k8s.io/controller-runtime/pkg/client/fake"

	"google.golang.org/protobuf/types/known/durationpb"

	configv1 "github.com/istio-ecosystem/authservice/config/gen/go/v1"
	oidcv1 "github.com/istio-ecosystem/authservice/config/gen/go/v1/oidc"
	"github.com/istio-ecosystem/authservice/internal"
	"github.com/istio-ecosystem/authservice/internal/k8s"
	"github.com/istio-ecosystem/authservice/internal/oidc"
	"github.com/istio-ecosystem/authservice/internal/server"
)

func runC16(c *Ctx) {
	c.Sum.Rule = "16 goroutines x every request kind (no cookie, login redirect, callback with token exchange, authenticated request, expired tokens with refresh, logout, unknown cookie) through the real ExtAuthZFilter.Check " +
		"against 8 OIDC filters (4 of them first used 1-4 s into the run) sharing one configuration object each: static and DISCOVERED endpoints x memory and Redis stores, key sets inline and fetched by the real JWKS provider; concurrently the secret controller reconciles rotating client secrets " +
		"and the watched CA file is rewritten every few milliseconds; run under the happens-before race detector with a deadlock watchdog; distinct_nontrivial = distinct (filter, request kind, verdict) combinations observed"
	dur := 6 * time.Second
	if c.Thorough() {
		dur = 90 * time.Second
	}
	ctx, cancel := context.WithCancel(context.Background())
	defer cancel()
	// provider
	w := newWorld(c.Seed, cfgOpts{Prefix: "", Access: true, Logout: true, Scopes: []string{"openid"}, IDHeader: "authorization", IDPreamble: "Bearer", ATHeader: "x-at",
		CallbackURI: "https://app.test/callback", ClientID: "client-1", Secret: "s", Store: "memory"})
	defer w.Close()
	var codeN int64
	var mu sync.Mutex
	nonces := map[string]string{} // state -> nonce (from the login redirects, so that callbacks can be answered properly)
	w.idp.next = func(form url.Values, auth string) idpAnswer {
		nonce := ""
		if form.Get("grant_type") == "authorization_code" {
			mu.Lock()
			nonce = nonces[form.Get("code")] // the hammer uses the state as the code
			mu.Unlock()
		}
		// the client id differs per filter: the audience carries all of them
		tok, _ := w.keys.mint(tokSpec{Sig: "good-rsa", Aud: []string{"client-0", "client-1", "client-2", "client-3", "client-4", "client-5", "client-6", "client-7"}, NonceKind: "str", Nonce: nonce, Exp: time.Now().Unix() + 2})
		return idpAnswer{Body: fmt.Sprintf(`{"id_token":%q,"access_token":"at","refresh_token":"rt-%d","expires_in":1,"token_type":"Bearer"}`, tok, atomic.AddInt64(&codeN, 1))}
	}
	caDir := filepath.Join(c.Out, "ca")
	must(os.MkdirAll(caDir, 0o755))
	caFile := filepath.Join(caDir, "ca.pem")
	ca1, ca2 := newTestCA("R1"), newTestCA("R2")
	defer ca1.srv.Close()
	defer ca2.srv.Close()
	must(os.WriteFile(caFile, []byte(ca1.PEM), 0o644))
	mr, err := miniredis.Run()
	must(err)
	defer mr.Close()
	// configuration: 4 chains selected by the x-tenant header
	cfg := &configv1.Config{}
	var oidcs []*oidcv1.OIDCConfig
	for i := 0; i < 8; i++ {
		o := &oidcv1.OIDCConfig{CallbackUri: "https://app.test/callback", ClientId: fmt.Sprintf("client-%d", i),
			ClientSecretConfig: &oidcv1.OIDCConfig_ClientSecretRef{ClientSecretRef: &oidcv1.OIDCConfig_SecretReference{Name: "sec"}},
			Scopes:             []string{"openid"}, CookieNamePrefix: fmt.Sprintf("t%d", i), IdToken: &oidcv1.TokenConfig{Header: "authorization", Preamble: "Bearer"},
			AccessToken: &oidcv1.TokenConfig{Header: "x-at"}, Logout: &oidcv1.LogoutConfig{Path: "/logout", RedirectUri: w.idp.srv.URL + "/end"},
			TrustedCaConfig: &oidcv1.OIDCConfig_TrustedCertificateAuthorityFile{TrustedCertificateAuthorityFile: caFile},
			TrustedCertificateAuthorityRefreshInterval: durationpb.New(5 * time.Millisecond),
			AbsoluteSessionTimeout:                     2, IdleSessionTimeout: 1}
		if i >= 4 { // late tenants: TLS settings of their own (first loaded while the CA file is being rotated), static endpoints, a key set of their own inline
			o.TrustedCertificateAuthorityRefreshInterval = durationpb.New(time.Duration(5+i) * time.Millisecond)
			o.AuthorizationUri, o.TokenUri = w.idp.srv.URL+"/auth", w.idp.srv.URL+"/token"
			o.JwksConfig = &oidcv1.OIDCConfig_Jwks{Jwks: strings.Replace(w.idp.jwksDoc, `{"keys"`, fmt.Sprintf(`{"tenant":%d,"keys"`, i), 1)}
		} else if i%2 == 0 {
			o.AuthorizationUri, o.TokenUri = w.idp.srv.URL+"/auth", w.idp.srv.URL+"/token"
			// static endpoints: one filter with the key set inline, one with a fetched key set (the discovered ones fetch theirs too)
			if i == 0 {
				o.JwksConfig = &oidcv1.OIDCConfig_Jwks{Jwks: w.idp.jwksDoc}
			} else {
				o.JwksConfig = &oidcv1.OIDCConfig_JwksFetcher{JwksFetcher: &oidcv1.OIDCConfig_JwksFetcherConfig{JwksUri: w.idp.srv.URL + "/jwks", PeriodicFetchIntervalSec: 1}}
			}
		} else {
			o.ConfigurationUri = w.idp.srv.URL + "/.well-known/openid-configuration"
			o.Logout.RedirectUri = ""
		}
		if i%4 >= 2 {
			o.RedisSessionStoreConfig = &oidcv1.RedisConfig{ServerUri: "redis://" + mr.Addr()}
		}
		oidcs = append(oidcs, o)
		cfg.Chains = append(cfg.Chains, &configv1.FilterChain{Name: fmt.Sprintf("c%d", i),
			Match:   &configv1.Match{Header: "x-tenant", Criteria: &configv1.Match_Equality{Equality: fmt.Sprint(i)}},
			Filters: []*configv1.Filter{{Type: &configv1.Filter_Oidc{Oidc: o}}}})
	}
	tlsPool := internal.NewTLSConfigPool(ctx)
	jwks := oidc.NewJWKSProvider(cfg, tlsPool)
	go func() { _ = jwks.ServeContext(ctx) }()
	sessions := oidc.NewSessionStoreFactory(cfg)
	must(sessions.PreRun())
	filter := server.NewExtAuthZFilter(cfg, tlsPool, jwks, sessions)
	cl := fake.NewClientBuilder().Build()
	sc, err := k8s.NewSecretControllerForVerification(cfg, "ns", cl)
	must(err)
	must(cl.Create(ctx, &corev1.Secret{ObjectMeta: metav1.ObjectMeta{Namespace: "ns", Name: "sec"}, Data: map[string][]byte{"client-secret": []byte("v0")}}))
	_, _ = sc.Reconcile(ctx, ctrl.Request{NamespacedName: types.NamespacedName{Namespace: "ns", Name: "sec"}})

	var wg sync.WaitGroup
	started := time.Now()
	var total, oks int64
	var progress int64
	stop := make(chan struct{})
	seen := sync.Map{}
	var shared [8]atomic.Value // tenant -> a session cookie published by some worker: used by all of them at once
	var sharedAt [8]atomic.Value
	worker := func(id int) {
		defer wg.Done()
		jar := map[int]string{}     // tenant -> session cookie
		pending := map[int]string{} // tenant -> state of the login in progress
		for n := 0; ; n++ {
			select {
			case <-stop:
				return
			default:
			}
			// tenants 4..7 receive their first request only after 1, 2, 3, 4 seconds: whatever is initialised lazily per filter
			// (key sets, discovery, TLS configuration, stores) is then initialised in the middle of the traffic of the others
			active := 4 + int(time.Since(started)/time.Second)
			if active > 8 {
				active = 8
			}
			t := (id + n) % active
			name := cookieName(fmt.Sprintf("t%d", t))
			kind, path := "visit", "/app"
			switch {
			case pending[t] != "":
				kind, path = "callback", "/callback?code="+pending[t]+"&state="+pending[t]
			case n%13 == 0 && jar[t] != "":
				kind, path = "logout", "/logout"
			case n%17 == 0:
				kind = "unknown-cookie"
			case n%2 == 1 && shared[t].Load() != nil:
				kind = "shared-session" // the same session presented by several goroutines at once (a page and its assets)
			}
			hdr := map[string]string{"x-tenant": fmt.Sprint(t)}
			if kind == "unknown-cookie" {
				hdr["cookie"] = name + "=nobody"
			} else if kind == "shared-session" {
				hdr["cookie"] = name + "=" + shared[t].Load().(string)
			} else if jar[t] != "" {
				hdr["cookie"] = name + "=" + jar[t]
			}
			resp, err := filter.Check(ctx, mkReq("https", "app.test", path, hdr))
			atomic.AddInt64(&total, 1)
			atomic.AddInt64(&progress, 1)
			verdict := "error"
			if err == nil {
				verdict = fmt.Sprint(resp.GetStatus().GetCode(), "/", resp.GetDeniedResponse().GetStatus().GetCode())
				if resp.GetStatus().GetCode() == 0 {
					atomic.AddInt64(&oks, 1)
					// the published session stays the same for 1.8 s, so that it is used by all workers THROUGH the expiry of its
					// tokens (1 s) - several checks then refresh the same session at once
					if kind == "visit" && jar[t] != "" {
						if at, _ := sharedAt[t].Load().(time.Time); at.IsZero() || time.Since(at) > 1800*time.Millisecond {
							shared[t].Store(jar[t])
							sharedAt[t].Store(time.Now())
						}
					}
				}
				if kind == "shared-session" {
					seen.Store(fmt.Sprintf("tenant%d|%s|%s", t, kind, verdict), true)
					continue // the answers to a borrowed session do not touch this worker's own cookie jar
				}
				for _, h := range resp.GetDeniedResponse().GetHeaders() {
					switch h.GetHeader().GetKey() {
					case "set-cookie":
						v := strings.SplitN(strings.SplitN(h.GetHeader().GetValue(), ";", 2)[0], "=", 2)
						if len(v) == 2 && v[0] == name {
							jar[t] = v[1]
							if v[1] == "deleted" {
								jar[t] = ""
							}
						}
					case "location":
						if u, perr := url.Parse(h.GetHeader().GetValue()); perr == nil && u.Query().Get("state") != "" && u.Query().Get("nonce") != "" {
							mu.Lock()
							nonces[u.Query().Get("state")] = u.Query().Get("nonce")
							mu.Unlock()
							pending[t] = u.Query().Get("state")
						}
					}
				}
			}
			if kind == "callback" {
				pending[t] = ""
			}
			seen.Store(fmt.Sprintf("tenant%d|%s|%s", t, kind, verdict), true)
		}
	}
	for i := 0; i < 16; i++ {
		wg.Add(1)
		go worker(i)
	}
	// background: secret rotation and CA rewrites
	wg.Add(2)
	go func() {
		defer wg.Done()
		for n := 1; ; n++ {
			select {
			case <-stop:
				return
			case <-time.After(3 * time.Millisecond):
			}
			s := &corev1.Secret{}
			if cl.Get(ctx, types.NamespacedName{Namespace: "ns", Name: "sec"}, s) == nil {
				s.Data["client-secret"] = []byte(fmt.Sprintf("v%d", n))
				_ = cl.Update(ctx, s)
			}
			_, _ = sc.Reconcile(ctx, ctrl.Request{NamespacedName: types.NamespacedName{Namespace: "ns", Name: "sec"}})
		}
	}()
	go func() {
		defer wg.Done()
		for n := 0; ; n++ {
			select {
			case <-stop:
				return
			case <-time.After(7 * time.Millisecond):
			}
			tmp := caFile + ".tmp"
			_ = os.WriteFile(tmp, []byte([]string{ca1.PEM, ca2.PEM}[n%2]), 0o644)
			_ = os.Rename(tmp, caFile)
		}
	}()
	// watchdog: the request counter must keep moving
	deadline := time.Now().Add(dur)
	last := int64(-1)
	stuck := 0
	for time.Now().Before(deadline) {
		time.Sleep(500 * time.Millisecond)
		cur := atomic.LoadInt64(&progress)
		if cur == last {
			stuck++
		} else {
			stuck = 0
		}
		last = cur
		if stuck >= 8 {
			c.Sum.GoFindings = append(c.Sum.GoFindings, Finding{Signature: "C16/deadlock", What: "no check completed for 4 seconds while 16 goroutines were issuing requests (deadlock)",
				Replay: map[string]any{"requests_completed": cur}})
			break
		}
	}
	close(stop)
	done := make(chan struct{})
	go func() { wg.Wait(); close(done) }()
	select {
	case <-done:
	case <-time.After(10 * time.Second):
		c.Sum.GoFindings = append(c.Sum.GoFindings, Finding{Signature: "C16/deadlock", What: "workers did not finish within 10 s after the stop signal", Replay: map[string]any{}})
	}
	c.Sum.Evaluations = int(atomic.LoadInt64(&total))
	seen.Range(func(k, v any) bool {
		c.Distinct(k.(string))
		c.Hist("combination", k.(string))
		return true
	})
	c.Sample(map[string]any{"requests": c.Sum.Evaluations, "answered_ok": atomic.LoadInt64(&oks), "duration_s": dur.Seconds()})
	c.Sum.Notes = append(c.Sum.Notes, fmt.Sprintf("%d checks, %d answered OK", c.Sum.Evaluations, atomic.LoadInt64(&oks)))
	raceSummaryShard(c)
}

func init() { props["C16"] = runC16 }
