package main

// c_handler.go — the history-driven checks of the OIDC handler that share the player / simulator:
// C02, C04, C05, C11, C14 (C01, C03, C13, C15 have their own files).

import (
	"encoding/base64"
	"encoding/hex"
	"fmt"
	"net/url"
	"strings"
)

func init() {
	props["C02"] = func(c *Ctx) {
		n := 500
		if c.Thorough() {
			n = 3000
		}
		c.Sum.Rule = "random histories with a high rate of adversarial provider answers on the login AND the refresh path (alg=none, HMAC with the public key, foreign key with the same kid, " +
			"missing/unknown kid, tampered payload, stripped signature, two-segment and garbage forms, absent/foreign/near-miss/array audience, absent/foreign/empty/non-string nonce) mixed with honest ones, " +
			"4 header/preamble configurations (incl. equal header names), memory and Redis; every stored ID token is re-verified by a stdlib-only verifier; " +
			"distinct_nontrivial = distinct projected traces reaching a token exchange or write"
		c.Sum.Rule += "; PLUS key-set separation: two filters with different static key sets under one kid, one JWKS provider, logins signed with the own and with the other filter's key, both orders of first use"
		runHistories(c, 2, histProfile{N: n, MinLen: 8, MaxLen: 36, FaultRate: 6, AttackRate: 40, Stores: []string{"memory", "redis"}}, nil)
		runFaultEnum(c, []string{"memory", "redis"})
		keySetSeparation(c)
	}
	props["C04"] = func(c *Ctx) {
		n := 500
		if c.Thorough() {
			n = 3000
		}
		c.Sum.Rule = "random histories of 2-3 browsers and an attacker (replayed / swapped / forged / re-cased / duplicated state and code, callbacks under other sessions and hosts, " +
			"malformed callback queries) against the recording provider, which checks every code exchange field by field (RFC 6749 / 7636) ; store faults at a low rate; " +
			"distinct_nontrivial = distinct projected traces reaching a token exchange or write"
		runHistories(c, 4, histProfile{N: n, MinLen: 10, MaxLen: 40, FaultRate: 8, AttackRate: 45, Stores: []string{"memory", "redis"}, Browsers: 3}, nil)
	}
	props["C05"] = func(c *Ctx) {
		n := 500
		if c.Thorough() {
			n = 3000
		}
		c.Sum.Rule = "random histories in which clients present absent, stale, attacker-chosen, pending and authenticated session ids on every kind of path, 4 cookie prefixes, 2 browsers, faults; " +
			"every Set-Cookie is read back with an independent RFC 6265 parser; distinct_nontrivial = distinct projected traces reaching a token exchange or write"
		runHistories(c, 5, histProfile{N: n, MinLen: 8, MaxLen: 36, FaultRate: 10, AttackRate: 35, Stores: []string{"memory", "redis"}, Browsers: 2}, nil)
	}
	props["C11"] = func(c *Ctx) {
		n := 250
		if c.Thorough() {
			n = 1000
		}
		c.Sum.Rule = "long histories (40-120 requests, clock advances across many token lifetimes) against a provider that rotates refresh tokens or not, omits optional members, " +
			"answers adversarially or fails; the provider's ledger of issued refresh tokens is checked at every refresh exchange; distinct_nontrivial = distinct projected traces reaching a token exchange or write"
		runHistories(c, 11, histProfile{N: n, MinLen: 40, MaxLen: 120, FaultRate: 5, AttackRate: 8, Stores: []string{"memory", "redis"}}, func(s *Sim) map[string]any {
			// (a stale refresh token reaching the provider is judged by the Coq ledger monitor, which knows when a store
			// fault lost the rotated token - then the session legitimately ends at the next refresh)
			if len(s.StaleRT) > 0 {
				c.Hist("stale_refresh_token_seen_by_provider", "histories")
			}
			return map[string]any{"stale_refresh_tokens_seen_by_provider": s.StaleRT}
		})
	}
	props["C14"] = func(c *Ctx) {
		n := 400
		if c.Thorough() {
			n = 2500
		}
		c.Sum.Rule = "random histories with faults, attacks and adversarial provider answers; every credential (client secret, verifiers, access / refresh / ID tokens) is a unique marker and every answer " +
			"(gRPC status message, headers, body) is scanned for each of them raw, query- and path-escaped, base64 (4 alphabets), hex and inside Basic credentials; distinct_nontrivial = distinct projected traces reaching a token exchange or write"
		runHistories(c, 14, histProfile{N: n, MinLen: 8, MaxLen: 36, FaultRate: 15, AttackRate: 30, Stores: []string{"memory", "redis"}, Browsers: 2}, func(s *Sim) map[string]any {
			secrets := s.allSecrets()
			// what may never be sent anywhere: the client secret, verifiers and refresh tokens (an OK forwards the ID token
			// and, when configured, the access token - nothing else)
			var never []string
			for _, x := range secrets {
				if x == s.w.Cfg.GetClientSecret() || strings.HasPrefix(x, "RT-") {
					never = append(never, x)
				}
			}
			for _, g := range s.w.gen.All {
				never = append(never, g.Verifier)
			}
			for i, st := range s.Steps {
				if st.Resp.Class == "allow" {
					text := ""
					for _, h := range st.Resp.Headers {
						text += "\n" + h[0] + ": " + h[1]
					}
					if sec, enc := findLeak(text, never, s.w.Cfg.GetClientId()); sec != "" {
						c.Sum.GoFindings = append(c.Sum.GoFindings, Finding{Signature: "C14/credential-forwarded-upstream",
							What: fmt.Sprintf("OK answer %d adds a credential that is neither the ID token nor the access token to the upstream request (%s encoding): %.40s...", i, enc, sec),
							Replay: s.descr(map[string]any{"step": i})})
						break
					}
					continue
				}
				text := st.Resp.Message + "\n" + st.Resp.Body
				for _, h := range st.Resp.Headers {
					text += "\n" + h[0] + ": " + h[1]
				}
				if sec, enc := findLeak(text, secrets, s.w.Cfg.GetClientId()); sec != "" {
					c.Sum.GoFindings = append(c.Sum.GoFindings, Finding{Signature: "C14/credential-in-answer",
						What: fmt.Sprintf("answer %d to the browser contains a credential (%s encoding): %.40s...", i, enc, sec), Replay: s.descr(map[string]any{"step": i})})
					break
				}
			}
			return nil
		})
		chainLeak(c)
	}
}

// findLeak looks for any secret in text under the encodings the service could apply.
func findLeak(text string, secrets []string, clientID string) (string, string) {
	for _, s := range secrets {
		if s == "" {
			continue
		}
		encs := map[string]string{
			"raw": s, "query-escaped": url.QueryEscape(s), "path-escaped": url.PathEscape(s),
			"base64-std": base64.StdEncoding.EncodeToString([]byte(s)), "base64-url": base64.URLEncoding.EncodeToString([]byte(s)),
			"base64-rawstd": base64.RawStdEncoding.EncodeToString([]byte(s)), "base64-rawurl": base64.RawURLEncoding.EncodeToString([]byte(s)),
			"hex": hex.EncodeToString([]byte(s)), "basic": base64.StdEncoding.EncodeToString([]byte(clientID + ":" + s)),
			"quoted": fmt.Sprintf("%q", s),
		}
		for name, e := range encs {
			if len(e) >= 6 && strings.Contains(text, e) {
				return s, name
			}
		}
	}
	return "", ""
}
