package main

func init() { props["C01"] = runC01 }

func runC01(c *Ctx) {
	n := 600
	if c.Thorough() {
		n = 4000
	}
	c.Sum.Rule = "random implementation-steered histories (browser/attacker/IdP simulator, virtual clock) of 8-40 requests x {memory, redis(miniredis)} x 5 filter configurations x 7 (absolute, idle) session timeouts of the store incl. none, " +
		"with store faults (before/after effect, singly and in pairs, at random call indices), key-lookup failures and adversarial provider answers; " +
		"distinct_nontrivial = distinct projected traces (verdict class, status, effect kinds and failures per request) of histories that reached a token exchange or a token write"
	c.Sum.Rule += "; PLUS fault-point enumeration: 7 base scenarios (fresh, expired-refreshable under 5 provider behaviours, expired-no-refresh, callback under 3, logout, unknown cookie, pending) x " +
		"a store fault before/after effect at each of the first 6 store calls (all pairs in thorough) and a key-lookup failure, each followed by two healthy requests with the same cookie"
	runHistories(c, 1, histProfile{N: n, MinLen: 8, MaxLen: 40, FaultRate: 18, AttackRate: 15, Stores: []string{"memory", "redis"},
		Timeouts: [][2]int{{0, 0}, {600, 0}, {0, 200}, {900, 300}, {3000, 0}, {0, 0}, {300, 120}}}, nil)
	runFaultEnum(c, []string{"memory", "redis"})
}
