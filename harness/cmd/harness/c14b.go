package main

// c14b.go — C14 across filters of one chain: Check hands ONE response object down the chain.  With an OIDC filter that
// allows (its tokens are put into the OK part of the response) followed by a filter that denies or redirects, nothing of
// the first filter's tokens may reach the browser.  (The loader refuses two OIDC filters in one chain; the filter itself
// does not, so the chain is assembled directly.)

import (
	"context"
	"fmt"
	"net/url"
	"strings"
	"sync"
	"time"

	configv1 "github.com/istio-ecosystem/authservice/config/gen/go/v1"
	mockv1 "github.com/istio-ecosystem/authservice/config/gen/go/v1/mock"
	oidcv1 "github.com/istio-ecosystem/authservice/config/gen/go/v1/oidc"
	"github.com/istio-ecosystem/authservice/internal"
	"github.com/istio-ecosystem/authservice/internal/oidc"
	"github.com/istio-ecosystem/authservice/internal/server"
)

func chainLeak(c *Ctx) {
	ctx, cancel := context.WithCancel(context.Background())
	defer cancel()
	for _, second := range []string{"oidc", "mock-deny"} {
		w := newWorld(c.Seed+77, cfgOpts{Prefix: "", Access: true, Logout: false, Scopes: []string{"openid"}, IDHeader: "authorization", IDPreamble: "Bearer", ATHeader: "x-at",
			CallbackURI: "https://app.test/callback", ClientID: "client-0", Secret: "s", Store: "memory"})
		var mu sync.Mutex
		nonces := map[string]string{}
		var idTok, atTok string
		w.idp.next = func(form url.Values, auth string) idpAnswer {
			mu.Lock()
			nonce := nonces[form.Get("code")]
			mu.Unlock()
			tok, _ := w.keys.mint(tokSpec{Sig: "good-rsa", Aud: []string{"client-0", "client-1"}, NonceKind: "str", Nonce: nonce, Exp: time.Now().Unix() + 3600})
			mu.Lock()
			idTok, atTok = tok, "AT-chain-leak-marker-0123456789"
			mu.Unlock()
			return idpAnswer{Body: fmt.Sprintf(`{"id_token":%q,"access_token":%q,"refresh_token":"RT-chain-leak-marker-0123456789","expires_in":3600,"token_type":"Bearer"}`, tok, atTok)}
		}
		mk := func(i int) *oidcv1.OIDCConfig {
			return &oidcv1.OIDCConfig{CallbackUri: fmt.Sprintf("https://app.test/callback%d", i), ClientId: fmt.Sprintf("client-%d", i),
				ClientSecretConfig: &oidcv1.OIDCConfig_ClientSecret{ClientSecret: "s"}, AuthorizationUri: w.idp.srv.URL + "/auth", TokenUri: w.idp.srv.URL + "/token",
				JwksConfig: &oidcv1.OIDCConfig_Jwks{Jwks: w.keys.jwksDoc}, Scopes: []string{"openid"}, CookieNamePrefix: fmt.Sprintf("ch%d", i),
				IdToken: &oidcv1.TokenConfig{Header: "authorization", Preamble: "Bearer"}, AccessToken: &oidcv1.TokenConfig{Header: "x-at"}}
		}
		first := mk(0)
		filters := []*configv1.Filter{{Type: &configv1.Filter_Oidc{Oidc: first}}}
		if second == "oidc" {
			filters = append(filters, &configv1.Filter{Type: &configv1.Filter_Oidc{Oidc: mk(1)}})
		} else {
			filters = append(filters, &configv1.Filter{Type: &configv1.Filter_Mock{Mock: &mockv1.MockConfig{Allow: false}}})
		}
		cfg := &configv1.Config{Chains: []*configv1.FilterChain{{Name: "c", Filters: filters}}}
		tlsPool := internal.NewTLSConfigPool(ctx)
		jwks := oidc.NewJWKSProvider(cfg, tlsPool)
		go func() { _ = jwks.ServeContext(ctx) }()
		sessions := oidc.NewSessionStoreFactory(cfg)
		must(sessions.PreRun())
		filter := server.NewExtAuthZFilter(cfg, tlsPool, jwks, sessions)
		check := func(path, cookie string) (map[string]string, string) {
			hdr := map[string]string{}
			if cookie != "" {
				hdr["cookie"] = cookie
			}
			resp, err := filter.Check(ctx, mkReq("https", "app.test", path, hdr))
			c.Sum.Evaluations++
			out := map[string]string{}
			if err != nil {
				return out, ""
			}
			text := resp.GetStatus().GetMessage() + "\n" + resp.GetDeniedResponse().GetBody()
			for _, h := range resp.GetDeniedResponse().GetHeaders() {
				out[h.GetHeader().GetKey()] = h.GetHeader().GetValue()
				text += "\n" + h.GetHeader().GetKey() + ": " + h.GetHeader().GetValue()
			}
			return out, text
		}
		h, _ := check("/app", "")
		sc := strings.SplitN(strings.SplitN(h["set-cookie"], ";", 2)[0], "=", 2)
		u, perr := url.Parse(h["location"])
		if len(sc) != 2 || perr != nil {
			w.Close()
			continue
		}
		state := u.Query().Get("state")
		mu.Lock()
		nonces[state] = u.Query().Get("nonce")
		mu.Unlock()
		check("/callback0?code="+state+"&state="+state, sc[0]+"="+sc[1])
		// the first filter now allows; the second one denies (mock) or redirects to its provider (OIDC)
		_, text := check("/app", sc[0]+"="+sc[1])
		mu.Lock()
		secrets := []string{idTok, atTok, "RT-chain-leak-marker-0123456789"}
		mu.Unlock()
		if sec, enc := findLeak(text, secrets, "client-0"); sec != "" {
			c.Sum.GoFindings = append(c.Sum.GoFindings, Finding{Signature: "C14/credential-in-answer",
				What: fmt.Sprintf("the answer of a chain whose first OIDC filter allowed and whose second filter (%s) refused carries a token of the first filter to the browser (%s encoding): %.40s...", second, enc, sec),
				Replay: map[string]any{"chain": []string{"oidc client-0", second}, "answer": text}})
		}
		c.Hist("chain_leak", second)
		w.Close()
	}
}
