package main

// player.go — runs histories of requests against the real OIDC handler with every collaborator
// replaced by a recording (and fault-injecting) wrapper around the REAL implementation:
// session store (memory or Redis/miniredis), key provider, id generator, clock, token endpoint.

import (
	"compress/gzip"
	"context"
	"crypto"
	"crypto/ecdsa"
	"crypto/elliptic"
	"crypto/hmac"
	"crypto/rand"
	"crypto/rsa"
	"crypto/sha256"
	"crypto/x509"
	"encoding/base64"
	"encoding/json"
	"encoding/pem"
	"errors"
	"fmt"
	"io"
	"math/big"
	mrand "math/rand"
	"net"
	"net/http"
	"net/http/httptest"
	"net/url"
	"sort"
	"strings"
	"sync"
	"sync/atomic"
	"time"

	"github.com/alicebob/miniredis/v2"
	envoy "github.com/envoyproxy/go-control-plane/envoy/service/auth/v3"
	"github.com/lestrrat-go/jwx/v2/jwk"
	"github.com/lestrrat-go/jwx/v2/jwt"
	"github.com/redis/go-redis/v9"
	"golang.org/x/oauth2"
	"google.golang.org/grpc/codes"

	configv1 "github.com/istio-ecosystem/authservice/config/gen/go/v1"
	"github.com/tetratelabs/telemetry"
	"github.com/tetratelabs/telemetry/function"

	oidcv1 "github.com/istio-ecosystem/authservice/config/gen/go/v1/oidc"
	"github.com/istio-ecosystem/authservice/internal"
	"github.com/istio-ecosystem/authservice/internal/authz"
	"github.com/istio-ecosystem/authservice/internal/oidc"
	"github.com/istio-ecosystem/authservice/verifharness/gal"
)

var errInjected = errors.New("injected fault")

// ---------------------------------------------------------------- keys and tokens

type keyring struct {
	rsa1, rsaForeign *rsa.PrivateKey
	ec1              *ecdsa.PrivateKey
	jwksDoc          string // rsa1 as kid "k1" (alg RS256), ec1 as kid "k2" (no alg)
}

var (
	keysOnce sync.Once
	keys     *keyring
)

func b64u(b []byte) string   { return base64.RawURLEncoding.EncodeToString(b) }
func b64std(b []byte) string { return base64.StdEncoding.EncodeToString(b) }

func getKeys() *keyring {
	keysOnce.Do(func() {
		k := &keyring{}
		var err error
		k.rsa1, err = rsa.GenerateKey(rand.Reader, 2048)
		must(err)
		k.rsaForeign, err = rsa.GenerateKey(rand.Reader, 2048)
		must(err)
		k.ec1, err = ecdsa.GenerateKey(elliptic.P256(), rand.Reader)
		must(err)
		e := big.NewInt(int64(k.rsa1.E)).Bytes()
		pad := func(b []byte) []byte {
			out := make([]byte, 32)
			copy(out[32-len(b):], b)
			return out
		}
		k.jwksDoc = fmt.Sprintf(`{"keys":[{"kty":"RSA","kid":"k1","use":"sig","alg":"RS256","n":%q,"e":%q},{"kty":"EC","kid":"k2","use":"sig","crv":"P-256","x":%q,"y":%q}]}`,
			b64u(k.rsa1.N.Bytes()), b64u(e), b64u(pad(k.ec1.X.Bytes())), b64u(pad(k.ec1.Y.Bytes())))
		keys = k
	})
	return keys
}

type tokDesc struct {
	Parses    bool     `json:"parses"`
	NonceKind string   `json:"nonce_kind"` // absent str other
	Nonce     string   `json:"nonce,omitempty"`
	Aud       []string `json:"aud"`
	Exp       int64    `json:"exp_ns"`
	SigOK     bool     `json:"sig_ok"`
	How       string   `json:"how"`
}

func (d tokDesc) gal() string {
	n := "NAbsent"
	switch d.NonceKind {
	case "str":
		n = "(NStr " + gal.S(d.Nonce) + ")"
	case "other":
		n = "NOther"
	}
	var aud []string
	for _, a := range d.Aud {
		aud = append(aud, gal.S(a))
	}
	return gal.Rec("d_parses", gal.B(d.Parses), "d_nonce", n, "d_aud", gal.L(aud), "d_exp", gal.Z(d.Exp), "d_sig_ok", gal.B(d.SigOK))
}

// tokSpec says how to build an ID token.
type tokSpec struct {
	Sig       string // good-rsa good-ec none hs-pub foreign tampered stripped nokid unknownkid garbage twoseg
	Aud       any    // nil (absent), string, []string
	NonceKind string // absent str other
	Nonce     string
	Exp       int64 // seconds; 0 = absent
	Extra     string
	Claims    map[string]any // further / overriding claims, of any JSON type (azp, aud, exp, iat, ... of unexpected types)
}

func (k *keyring) mint(s tokSpec) (string, tokDesc) {
	d := tokDesc{NonceKind: s.NonceKind, Nonce: s.Nonce, Exp: s.Exp * 1e9, How: s.Sig}
	claims := map[string]any{"iss": "https://idp.test", "sub": "user", "iat": 1}
	switch a := s.Aud.(type) {
	case string:
		claims["aud"] = a
		d.Aud = []string{a}
	case []string:
		claims["aud"] = a
		d.Aud = a
	}
	switch s.NonceKind {
	case "str":
		claims["nonce"] = s.Nonce
	case "other":
		claims["nonce"] = 12345
	}
	if s.Exp != 0 {
		claims["exp"] = s.Exp
	}
	if s.Extra != "" {
		claims["x"] = s.Extra
	}
	for k, v := range s.Claims {
		claims[k] = v
	}
	payload, _ := json.Marshal(claims)
	hdr := func(alg, kid string) string {
		if kid == "" {
			return b64u([]byte(fmt.Sprintf(`{"alg":%q,"typ":"JWT"}`, alg)))
		}
		return b64u([]byte(fmt.Sprintf(`{"alg":%q,"kid":%q,"typ":"JWT"}`, alg, kid)))
	}
	signRSA := func(key *rsa.PrivateKey, in string) string {
		h := sha256.Sum256([]byte(in))
		sig, err := rsa.SignPKCS1v15(rand.Reader, key, crypto.SHA256, h[:])
		must(err)
		return b64u(sig)
	}
	var tok string
	switch s.Sig {
	case "good-rsa":
		in := hdr("RS256", "k1") + "." + b64u(payload)
		tok = in + "." + signRSA(k.rsa1, in)
	case "good-ec":
		in := hdr("ES256", "k2") + "." + b64u(payload)
		h := sha256.Sum256([]byte(in))
		r, sg, err := ecdsa.Sign(rand.Reader, k.ec1, h[:])
		must(err)
		sig := make([]byte, 64)
		r.FillBytes(sig[:32])
		sg.FillBytes(sig[32:])
		tok = in + "." + b64u(sig)
	case "none":
		tok = hdr("none", "k1") + "." + b64u(payload) + "."
	case "hs-pub":
		in := hdr("HS256", "k1") + "." + b64u(payload)
		pub := pem.EncodeToMemory(&pem.Block{Type: "PUBLIC KEY", Bytes: must2(x509.MarshalPKIXPublicKey(&k.rsa1.PublicKey))})
		m := hmac.New(sha256.New, pub)
		m.Write([]byte(in))
		tok = in + "." + b64u(m.Sum(nil))
	case "foreign":
		in := hdr("RS256", "k1") + "." + b64u(payload)
		tok = in + "." + signRSA(k.rsaForeign, in)
	case "tampered":
		in := hdr("RS256", "k1") + "." + b64u(payload)
		sig := signRSA(k.rsa1, in)
		claims["sub"] = "admin"
		p2, _ := json.Marshal(claims)
		tok = hdr("RS256", "k1") + "." + b64u(p2) + "." + sig
	case "stripped":
		tok = hdr("RS256", "k1") + "." + b64u(payload) + "."
	case "nokid":
		in := hdr("RS256", "") + "." + b64u(payload)
		tok = in + "." + signRSA(k.rsa1, in)
	case "unknownkid":
		in := hdr("RS256", "zz") + "." + b64u(payload)
		tok = in + "." + signRSA(k.rsa1, in)
	case "twoseg":
		tok = hdr("RS256", "k1") + "." + b64u(payload)
	case "bare-claims": // the claims object itself, not a JWS at all (a lenient JWT parser accepts it when it does not verify)
		tok = string(payload)
	case "json-jws": // JWS JSON serialisation (flattened) instead of the compact one
		in := hdr("RS256", "k1") + "." + b64u(payload)
		tok = fmt.Sprintf(`{"protected":%q,"payload":%q,"signature":%q}`, hdr("RS256", "k1"), b64u(payload), signRSA(k.rsa1, in))
	default: // garbage
		tok = "not-a-jwt-" + s.Extra
	}
	// what the JWT library makes of it (jwx is modelled, not verified)
	parsed, err := jwt.Parse([]byte(tok), jwt.WithValidate(false), jwt.WithVerify(false))
	d.Parses = err == nil
	if !d.Parses {
		d = tokDesc{NonceKind: "absent", How: s.Sig}
	} else {
		// the descriptor says what the library reports (audience list, nonce claim and its type, expiry)
		d.Aud = parsed.Audience()
		d.Exp = 0
		if !parsed.Expiration().IsZero() {
			d.Exp = parsed.Expiration().UnixNano()
		}
		if n, ok := parsed.Get("nonce"); !ok {
			d.NonceKind, d.Nonce = "absent", ""
		} else if ns, isStr := n.(string); isStr {
			d.NonceKind, d.Nonce = "str", ns
		} else {
			d.NonceKind, d.Nonce = "other", ""
		}
	}
	d.SigOK = k.independentVerify(tok)
	return tok, d
}

func must2[T any](v T, err error) T {
	must(err)
	return v
}

// independentVerify: stdlib-only check that tok is a compact JWS whose kid names a key of the
// configured set and whose signature verifies under that key with the key's algorithm.
func (k *keyring) independentVerify(tok string) bool {
	parts := strings.Split(tok, ".")
	if len(parts) != 3 {
		return false
	}
	hb, err := base64.RawURLEncoding.DecodeString(parts[0])
	if err != nil {
		return false
	}
	var h struct {
		Alg string `json:"alg"`
		Kid string `json:"kid"`
	}
	if json.Unmarshal(hb, &h) != nil {
		return false
	}
	sig, err := base64.RawURLEncoding.DecodeString(parts[2])
	if err != nil {
		return false
	}
	sum := sha256.Sum256([]byte(parts[0] + "." + parts[1]))
	switch {
	case h.Kid == "k1" && h.Alg == "RS256":
		return rsa.VerifyPKCS1v15(&k.rsa1.PublicKey, crypto.SHA256, sum[:], sig) == nil
	case h.Kid == "k2" && h.Alg == "ES256" && len(sig) == 64:
		return ecdsa.Verify(&k.ec1.PublicKey, sum[:], new(big.Int).SetBytes(sig[:32]), new(big.Int).SetBytes(sig[32:]))
	}
	return false
}

// ---------------------------------------------------------------- trace records

type effRec struct {
	Eff string `json:"eff"` // Gallina
	Ans string `json:"ans"` // Gallina
	// structured copy for the Go-side bookkeeping and for replays
	Kind string                   `json:"kind"`
	Sid  string                   `json:"sid,omitempty"`
	OK   bool                     `json:"ok"`
	Tok  *oidc.TokenResponse      `json:"tok,omitempty"`
	Auth *oidc.AuthorizationState `json:"auth,omitempty"`
	Form url.Values               `json:"form,omitempty"`
	Idp  string                   `json:"idp,omitempty"`
}

type recorder struct {
	mu    sync.Mutex
	trace []effRec
}

func (r *recorder) add(e effRec) {
	r.mu.Lock()
	r.trace = append(r.trace, e)
	r.mu.Unlock()
}

func galTokens(t *oidc.TokenResponse) string {
	var exp int64
	if !t.AccessTokenExpiresAt.IsZero() {
		exp = t.AccessTokenExpiresAt.UnixNano()
	}
	return gal.Rec("t_id", gal.S(t.IDToken), "t_access", gal.S(t.AccessToken), "t_refresh", gal.S(t.RefreshToken), "t_expiry", gal.Z(exp))
}

func galAuth(a *oidc.AuthorizationState) string {
	return gal.Rec("a_state", gal.S(a.State), "a_nonce", gal.S(a.Nonce), "a_url", gal.S(a.RequestedURL), "a_verifier", gal.S(a.CodeVerifier))
}

// ---------------------------------------------------------------- spy store

type faultKind int

const (
	noFault faultKind = iota
	failBefore
	failAfter
)

type spyStore struct {
	inner    oidc.SessionStore
	replicas []oidc.SessionStore // Redis: several store objects on one server (service replicas); each request is served by one of them
	rec      *recorder
	mu       sync.Mutex
	n        int                    // store calls in the current request
	faults   map[int]faultKind      // by call index in the current request
	gate     func(kind, sid string) // optional: blocks until the scheduler lets the call run
}

func (s *spyStore) begin(kind, sid string) faultKind {
	if s.gate != nil {
		s.gate(kind, sid)
	}
	s.mu.Lock()
	defer s.mu.Unlock()
	f := s.faults[s.n]
	s.n++
	return f
}

func (s *spyStore) unit(kind, sid, eff string, f func() error) error {
	fault := s.begin(kind, sid)
	var err error
	if fault == failBefore {
		err = errInjected
	} else {
		err = f()
		if fault == failAfter {
			err = errInjected
		}
	}
	s.rec.add(effRec{Eff: eff, Ans: "(AUnit " + gal.B(err == nil) + ")", Kind: kind, Sid: sid, OK: err == nil})
	return err
}

func (s *spyStore) SetTokenResponse(ctx context.Context, sid string, t *oidc.TokenResponse) error {
	cp := *t
	err := s.unit("SetTok", sid, "(ESetTok "+gal.S(sid)+" "+galTokens(t)+")", func() error { return s.inner.SetTokenResponse(ctx, sid, t) })
	s.rec.mu.Lock()
	s.rec.trace[len(s.rec.trace)-1].Tok = &cp
	s.rec.mu.Unlock()
	return err
}

func (s *spyStore) GetTokenResponse(ctx context.Context, sid string) (*oidc.TokenResponse, error) {
	fault := s.begin("GetTok", sid)
	var t *oidc.TokenResponse
	var err error
	if fault == failBefore {
		err = errInjected
	} else {
		t, err = s.inner.GetTokenResponse(ctx, sid)
		if fault == failAfter {
			t, err = nil, errInjected
		}
	}
	ans := "(ATok None)"
	var cp *oidc.TokenResponse
	if err == nil {
		if t == nil {
			ans = "(ATok (Some None))"
		} else {
			c := *t
			cp = &c // snapshot for the record; the handler gets what the store hands out (the memory store
			// hands out its internal pointer: a handler that writes through it changes the session without a store call,
			// which the next read of that session exposes)
			ans = "(ATok (Some (Some " + galTokens(&c) + ")))"
		}
	}
	s.rec.add(effRec{Eff: "(EGetTok " + gal.S(sid) + ")", Ans: ans, Kind: "GetTok", Sid: sid, OK: err == nil, Tok: cp})
	return t, err
}

func (s *spyStore) SetAuthorizationState(ctx context.Context, sid string, a *oidc.AuthorizationState) error {
	cp := *a
	err := s.unit("SetAuth", sid, "(ESetAuth "+gal.S(sid)+" "+galAuth(a)+")", func() error { return s.inner.SetAuthorizationState(ctx, sid, a) })
	s.rec.mu.Lock()
	s.rec.trace[len(s.rec.trace)-1].Auth = &cp
	s.rec.mu.Unlock()
	return err
}

func (s *spyStore) GetAuthorizationState(ctx context.Context, sid string) (*oidc.AuthorizationState, error) {
	fault := s.begin("GetAuth", sid)
	var a *oidc.AuthorizationState
	var err error
	if fault == failBefore {
		err = errInjected
	} else {
		a, err = s.inner.GetAuthorizationState(ctx, sid)
		if fault == failAfter {
			a, err = nil, errInjected
		}
	}
	ans := "(AAuth None)"
	var cp *oidc.AuthorizationState
	if err == nil {
		if a == nil {
			ans = "(AAuth (Some None))"
		} else {
			c := *a
			cp = &c
			ans = "(AAuth (Some (Some " + galAuth(a) + ")))"
		}
	}
	s.rec.add(effRec{Eff: "(EGetAuth " + gal.S(sid) + ")", Ans: ans, Kind: "GetAuth", Sid: sid, OK: err == nil, Auth: cp})
	return a, err
}

func (s *spyStore) ClearAuthorizationState(ctx context.Context, sid string) error {
	return s.unit("ClearAuth", sid, "(EClearAuth "+gal.S(sid)+")", func() error { return s.inner.ClearAuthorizationState(ctx, sid) })
}

func (s *spyStore) RemoveSession(ctx context.Context, sid string) error {
	return s.unit("Remove", sid, "(ERemove "+gal.S(sid)+")", func() error { return s.inner.RemoveSession(ctx, sid) })
}

func (s *spyStore) RemoveAllExpired(ctx context.Context) error { return s.inner.RemoveAllExpired(ctx) }

type oneStoreFactory struct{ s oidc.SessionStore }

func (f oneStoreFactory) Get(*oidcv1.OIDCConfig) oidc.SessionStore { return f.s }

// ---------------------------------------------------------------- spy key provider, generator

type spyJWKS struct {
	inner oidc.JWKSProvider
	rec   *recorder
	fail  bool // fail the lookups of the current request
}

func (j *spyJWKS) Get(ctx context.Context, cfg *oidcv1.OIDCConfig) (jwk.Set, error) {
	if j.fail {
		j.rec.add(effRec{Eff: "EJwks", Ans: "(AJwks false)", Kind: "Jwks"})
		return nil, errInjected
	}
	set, err := j.inner.Get(ctx, cfg)
	j.rec.add(effRec{Eff: "EJwks", Ans: "(AJwks " + gal.B(err == nil) + ")", Kind: "Jwks", OK: err == nil})
	return set, err
}

type genOut struct{ Sid, Nonce, State, Verifier, Challenge string }

type spyGen struct {
	base int // offset of the id counter (distinct per concurrent thread)
	rec  *recorder
	r    *mrand.Rand
	cur  genOut
	All  []genOut
	n    int
	used int // bit mask of the parts of cur handed out
}

func (g *spyGen) alnum(n int) string {
	const cs = "abcdefghijklmnopqrstuvwxyzABCDEFGHIJKLMNOPQRSTUVWXYZ0123456789"
	b := make([]byte, n)
	for i := range b {
		b[i] = cs[g.r.Intn(len(cs))]
	}
	return string(b)
}

func (g *spyGen) fresh() {
	g.n++
	v := g.alnum(43)
	g.cur = genOut{Sid: fmt.Sprintf("S%d", g.base+g.n) + g.alnum(12), Nonce: fmt.Sprintf("N%d", g.base+g.n) + g.alnum(8),
		State: fmt.Sprintf("T%d", g.base+g.n) + g.alnum(8), Verifier: v, Challenge: oauth2.S256ChallengeFromVerifier(v)}
	g.used = 0
	g.All = append(g.All, g.cur)
	c := g.cur
	g.rec.add(effRec{Eff: "EGen", Kind: "Gen", OK: true,
		Ans: "(AGen " + gal.Rec("g_sid", gal.S(c.Sid), "g_nonce", gal.S(c.Nonce), "g_state", gal.S(c.State),
			"g_verifier", gal.S(c.Verifier), "g_challenge", gal.S(c.Challenge)) + ")"})
}

func (g *spyGen) part(bit int) {
	if g.used == 0 || g.used&bit != 0 { // first draw of a login, or a part asked twice: a new tuple
		g.fresh()
	}
	g.used |= bit
}
func (g *spyGen) GenerateSessionID() string    { g.part(1); return g.cur.Sid }
func (g *spyGen) GenerateNonce() string        { g.part(2); return g.cur.Nonce }
func (g *spyGen) GenerateState() string        { g.part(4); return g.cur.State }
func (g *spyGen) GenerateCodeVerifier() string { g.part(8); return g.cur.Verifier }

// ---------------------------------------------------------------- token endpoint

type idpAnswer struct {
	Transport bool   // close the connection without answering
	Status    int    // 0 = 200
	Body      string // raw body
}

type idpServer struct {
	srv   *httptest.Server
	rec   *recorder
	mu    sync.Mutex
	next  func(form url.Values, auth string) idpAnswer
	gate  func()
	Calls int
	// route: for concurrent runs, a token endpoint path /t<N>/token belongs to thread N, which has its own
	// recorder and gate; returns nil when the path carries no thread tag
	route              func(path string) (rec *recorder, gate func(), clean string)
	discovery, jwksDoc string
	framing            int64
	discoveryFor       func(rawQuery string) string // when set: the discovery document depends on the query (one provider, several policies)
}

// what encoding/json makes of a token response (same member names as the service expects;
// written here independently)
type idpDecoded struct {
	IDToken      string `json:"id_token"`
	AccessToken  string `json:"access_token"`
	RefreshToken string `json:"refresh_token"`
	ExpiresIn    int    `json:"expires_in"`
	TokenType    string `json:"token_type"`
}

func galIdpAnswer(a idpAnswer) (string, string) {
	switch {
	case a.Transport:
		return "(AIdp IdpTransportError)", "transport-error"
	case a.Status != 0 && a.Status != 200:
		return fmt.Sprintf("(AIdp (IdpStatus %d))", a.Status), "status"
	}
	var d *idpDecoded
	if err := json.Unmarshal([]byte(a.Body), &d); err != nil || d == nil {
		return "(AIdp IdpUndecodable)", "undecodable"
	}
	return "(AIdp (IdpBody " + gal.Rec("b_id", gal.S(d.IDToken), "b_access", gal.S(d.AccessToken), "b_refresh", gal.S(d.RefreshToken),
		"b_expires_in", gal.Z(int64(d.ExpiresIn)), "b_token_type", gal.S(d.TokenType)) + "))", "body"
}

func next3(p *int64) int64 { return atomic.AddInt64(p, 1) % 3 }

func newIdpServer(rec *recorder) *idpServer {
	s := &idpServer{rec: rec}
	s.srv = httptest.NewServer(http.HandlerFunc(func(w http.ResponseWriter, r *http.Request) {
		switch r.URL.Path {
		case "/.well-known/openid-configuration":
			w.Header().Set("Content-Type", "application/json")
			if s.discoveryFor != nil && r.URL.RawQuery != "" {
				io.WriteString(w, s.discoveryFor(r.URL.RawQuery))
				return
			}
			io.WriteString(w, s.discovery)
			return
		case "/jwks":
			w.Header().Set("Content-Type", "application/json")
			io.WriteString(w, s.jwksDoc)
			return
		}
		body, _ := io.ReadAll(r.Body)
		form, _ := url.ParseQuery(string(body))
		rec, gate, uri := s.rec, s.gate, r.URL.RequestURI()
		if s.route != nil {
			if r2, g2, clean := s.route(r.URL.Path); r2 != nil {
				rec, gate, uri = r2, g2, clean
			}
		}
		if gate != nil {
			gate()
		}
		s.mu.Lock()
		s.Calls++
		next := s.next
		s.mu.Unlock()
		ans := idpAnswer{Status: 500, Body: "unscripted"}
		if next != nil {
			ans = next(form, r.Header.Get("Authorization"))
		}
		ga, cls := galIdpAnswer(ans)
		rec.add(effRec{Kind: "Idp", Form: form, Idp: cls, OK: cls == "body",
			Eff: "(EIdp " + gal.Rec("q_uri", gal.S("http://"+r.Host+uri), "q_body", gal.S(string(body)),
				"q_auth", gal.S(r.Header.Get("Authorization")), "q_ctype", gal.S(r.Header.Get("Content-Type"))) + ")",
			Ans: ga})
		w.Header().Set("Connection", "close")
		if ans.Transport {
			if hj, ok := w.(http.Hijacker); ok {
				c, _, _ := hj.Hijack()
				if tc, ok := c.(*net.TCPConn); ok {
					tc.SetLinger(0)
				}
				c.Close()
				return
			}
		}
		// the framing of the answer varies: with Content-Length, chunked (length unknown to the client), gzip-encoded
		switch framing := next3(&s.framing); {
		case framing == 1 && len(ans.Body) > 1:
			if ans.Status != 0 {
				w.WriteHeader(ans.Status)
			}
			io.WriteString(w, ans.Body[:len(ans.Body)/2])
			if fl, ok := w.(http.Flusher); ok {
				fl.Flush()
			}
			io.WriteString(w, ans.Body[len(ans.Body)/2:])
		case framing == 2 && strings.Contains(r.Header.Get("Accept-Encoding"), "gzip"):
			w.Header().Set("Content-Encoding", "gzip")
			if ans.Status != 0 {
				w.WriteHeader(ans.Status)
			}
			zw := gzip.NewWriter(w)
			io.WriteString(zw, ans.Body)
			zw.Close()
		default:
			if ans.Status != 0 {
				w.WriteHeader(ans.Status)
			}
			io.WriteString(w, ans.Body)
		}
	}))
	return s
}

// ---------------------------------------------------------------- world

type World struct {
	Cfg       *oidcv1.OIDCConfig
	StoreKind string
	Abs, Idle time.Duration
	now       time.Time
	rec       *recorder
	store     *spyStore
	mr        *miniredis.Miniredis
	rcli      *redis.Client
	idp       *idpServer
	jwks      *spyJWKS
	gen       *spyGen
	keys      *keyring
	tokdb     map[string]tokDesc
	tlsPool   internal.TLSConfigPool
	clock     *oidc.Clock
	cancel    context.CancelFunc
	rhook     *cmdFaultHook
	// NextCmdFaults: Redis commands (lower-case names) to fail once during the next request
	NextCmdFaults []string
	// late observation: the previous response object is looked at again after the next check was built
	lastResp      *envoy.CheckResponse
	lastGal       string
	LateMutations []string
	// requests served so far (Redis: selects the replica that serves the next one); PinReplica keeps the first replica
	reqCount   int
	PinReplica bool
	// OK verdicts of checks during which a Redis command was failed (C01)
	OKDespiteCmdFault []string
}

type cfgOpts struct {
	Prefix      string
	Access      bool
	Logout      bool
	Scopes      []string
	AuthQuery   string // own query of the authorization endpoint ("" = none)
	Discovery   bool   // endpoints, key location and end-session URI come from the provider's discovery document
	IDHeader    string
	IDPreamble  string
	ATHeader    string
	ATPreamble  string
	CallbackURI string
	ClientID    string
	Secret      string
	Store       string // memory redis
	Abs, Idle   int    // seconds
	DebugLog    bool   // every logging scope at debug level (the service's log_level "all:debug"): the debug-only code paths run
}

var logSystemOnce sync.Once

// setLogging brings the service's logging system up once (output is formatted and discarded) and puts every scope at
// debug or info level: at debug level the handler logs tokens and states and wraps its HTTP client in the logging
// round tripper.
func setLogging(debug bool) {
	logSystemOnce.Do(func() {
		lg := function.NewLogger(func(level telemetry.Level, msg string, err error, values function.Values) {
			_, _ = fmt.Fprint(io.Discard, msg, err, values.FromContext, values.FromLogger, values.FromMethod)
		})
		_ = internal.NewLogSystem(lg, &configv1.Config{})
	})
	lvl := telemetry.LevelInfo
	if debug {
		lvl = telemetry.LevelDebug
	}
	for _, name := range []string{internal.Authz, internal.Config, internal.Default, internal.Health, internal.IDP, internal.JWKS,
		internal.Requests, internal.Server, internal.Session, internal.K8s} {
		internal.Logger(name).SetLevel(lvl)
	}
}

func newWorld(seed int64, o cfgOpts) *World {
	setLogging(o.DebugLog)
	w := &World{rec: &recorder{}, keys: getKeys(), tokdb: map[string]tokDesc{}, StoreKind: o.Store,
		now: time.Unix(1_700_000_000, 0), tlsPool: internal.NewTLSConfigPool(context.Background())}
	w.clock = &oidc.Clock{NowFn: func() time.Time { return w.now }}
	w.idp = newIdpServer(w.rec)
	authURI := w.idp.srv.URL + "/auth"
	if o.AuthQuery != "" {
		authURI += "?" + o.AuthQuery
	}
	// optional provider metadata, varied per world: none of it may change what the service sends
	dr := mrand.New(mrand.NewSource(seed ^ 0x5eed))
	extras := ""
	for _, m := range []struct {
		name string
		vals []string
	}{
		{"code_challenge_methods_supported", []string{"", `["S256"]`, `["plain"]`, `["plain","S256"]`, `[]`}},
		{"token_endpoint_auth_methods_supported", []string{"", `["client_secret_basic"]`, `["client_secret_post"]`, `["private_key_jwt","client_secret_post"]`}},
		{"response_types_supported", []string{"", `["code"]`, `["id_token","token"]`}},
		{"scopes_supported", []string{"", `["openid"]`, `["profile"]`}},
		{"id_token_signing_alg_values_supported", []string{"", `["RS256"]`, `["none"]`, `["HS256"]`}},
		{"grant_types_supported", []string{"", `["authorization_code"]`, `["implicit"]`}},
		{"subject_types_supported", []string{"", `["public"]`}},
	} {
		if v := m.vals[dr.Intn(len(m.vals))]; v != "" {
			extras += fmt.Sprintf(",%q:%s", m.name, v)
		}
	}
	w.idp.discovery = fmt.Sprintf(`{"issuer":%q,"authorization_endpoint":%q,"token_endpoint":%q,"jwks_uri":%q,"end_session_endpoint":%q%s}`,
		w.idp.srv.URL, authURI, w.idp.srv.URL+"/token", w.idp.srv.URL+"/jwks", w.idp.srv.URL+"/endsession?x=1", extras)
	w.idp.jwksDoc = w.keys.jwksDoc
	w.Cfg = &oidcv1.OIDCConfig{
		AuthorizationUri: authURI, TokenUri: w.idp.srv.URL + "/token", CallbackUri: o.CallbackURI,
		JwksConfig: &oidcv1.OIDCConfig_Jwks{Jwks: w.keys.jwksDoc}, ClientId: o.ClientID,
		ClientSecretConfig: &oidcv1.OIDCConfig_ClientSecret{ClientSecret: o.Secret},
		Scopes:             o.Scopes, CookieNamePrefix: o.Prefix,
		IdToken:                &oidcv1.TokenConfig{Header: o.IDHeader, Preamble: o.IDPreamble},
		AbsoluteSessionTimeout: uint32(o.Abs), IdleSessionTimeout: uint32(o.Idle),
	}
	if o.Access {
		w.Cfg.AccessToken = &oidcv1.TokenConfig{Header: o.ATHeader, Preamble: o.ATPreamble}
	}
	if o.Logout {
		w.Cfg.Logout = &oidcv1.LogoutConfig{Path: "/logout", RedirectUri: w.idp.srv.URL + "/endsession?x=1"}
	}
	if o.Discovery {
		// everything the discovery document provides is left unset
		w.Cfg.ConfigurationUri = w.idp.srv.URL + "/.well-known/openid-configuration"
		w.Cfg.AuthorizationUri, w.Cfg.TokenUri, w.Cfg.JwksConfig = "", "", nil
		if o.Logout {
			w.Cfg.Logout.RedirectUri = ""
		}
	}
	w.Abs, w.Idle = time.Duration(o.Abs)*time.Second, time.Duration(o.Idle)*time.Second
	var inner oidc.SessionStore
	var replicas []oidc.SessionStore
	if o.Store == "redis" {
		var err error
		w.mr, err = miniredis.Run()
		must(err)
		w.mr.SetTime(w.now)
		w.rcli = redis.NewClient(&redis.Options{Addr: w.mr.Addr()})
		w.rhook = &cmdFaultHook{}
		w.rcli.AddHook(w.rhook)
		inner, err = oidc.NewRedisStore(w.clock, w.rcli, w.Abs, w.Idle)
		must(err)
		second, err := oidc.NewRedisStore(w.clock, w.rcli, w.Abs, w.Idle)
		must(err)
		replicas = []oidc.SessionStore{inner, second}
	} else {
		inner = oidc.NewMemoryStore(w.clock, w.Abs, w.Idle)
	}
	w.store = &spyStore{inner: inner, replicas: replicas, rec: w.rec, faults: map[int]faultKind{}}
	prov := oidc.NewJWKSProvider(&configv1.Config{}, w.tlsPool)
	var ctx context.Context
	ctx, w.cancel = context.WithCancel(context.Background())
	go func() { _ = prov.ServeContext(ctx) }() // the fetched-keys path waits for the provider's service to run
	w.jwks = &spyJWKS{rec: w.rec, inner: prov}
	w.gen = &spyGen{rec: w.rec, r: mrand.New(mrand.NewSource(seed))}
	return w
}

func (w *World) Close() {
	if w.cancel != nil {
		w.cancel()
	}
	w.idp.srv.Close()
	if w.rcli != nil {
		w.rcli.Close()
	}
	if w.mr != nil {
		w.mr.Close()
	}
}

func (w *World) Tick(d time.Duration) {
	w.now = w.now.Add(d)
	if w.mr != nil {
		w.mr.SetTime(w.now)
		w.mr.FastForward(d)
	}
}

func (w *World) mint(s tokSpec) string {
	tok, d := w.keys.mint(s)
	w.tokdb[tok] = d
	return tok
}

// cmdFaultHook fails the next Redis command of a given name (command-level fault: the server is not reached).
type cmdFaultHook struct {
	mu    sync.Mutex
	fail  map[string]bool
	fired []string // commands that were actually failed during the current request
}

func (h *cmdFaultHook) DialHook(next redis.DialHook) redis.DialHook { return next }
func (h *cmdFaultHook) ProcessHook(next redis.ProcessHook) redis.ProcessHook {
	return func(ctx context.Context, cmd redis.Cmder) error {
		h.mu.Lock()
		f := h.fail[strings.ToLower(cmd.Name())]
		if f {
			delete(h.fail, strings.ToLower(cmd.Name()))
			h.fired = append(h.fired, strings.ToLower(cmd.Name()))
		}
		h.mu.Unlock()
		if f {
			cmd.SetErr(errInjected)
			return errInjected
		}
		return next(ctx, cmd)
	}
}
func (h *cmdFaultHook) ProcessPipelineHook(next redis.ProcessPipelineHook) redis.ProcessPipelineHook {
	return next
}

// ---------------------------------------------------------------- one request

type reqSpec struct {
	NoHTTP                            bool
	Scheme, Host, Path, Query, Cookie string
}

type obsResp struct {
	Class   string      `json:"class"` // allow deny panic error
	Code    string      `json:"code"`
	Status  int         `json:"http_status"`
	Headers [][2]string `json:"headers"`
	Body    string      `json:"body"`
	Message string      `json:"status_message,omitempty"`
	Gal     string      `json:"-"`
}

type stepRec struct {
	Now       int64          `json:"now_ns"`
	Req       reqSpec        `json:"request"`
	Faults    map[int]string `json:"faults,omitempty"`
	JwksFail  bool           `json:"jwks_fail,omitempty"`
	CmdFaults []string       `json:"redis_command_faults,omitempty"`
	Trace     []effRec       `json:"trace"`
	Resp      obsResp        `json:"response"`
}

var codeGal = map[codes.Code]string{codes.OK: "GOk", codes.InvalidArgument: "GInvalidArgument", codes.Unauthenticated: "GUnauthenticated",
	codes.Internal: "GInternal", codes.Unknown: "GUnknown", codes.PermissionDenied: "GPermissionDenied"}

func galKVs(kvs [][2]string) string {
	var out []string
	for _, kv := range kvs {
		out = append(out, gal.Pair(gal.S(kv[0]), gal.S(kv[1])))
	}
	return gal.L(out)
}

func observe(resp *envoy.CheckResponse, err error, panicked any) obsResp {
	if panicked != nil {
		return obsResp{Class: "panic", Body: fmt.Sprint(panicked), Gal: "OPanic"}
	}
	if err != nil {
		return obsResp{Class: "error", Body: err.Error(), Gal: "OBadAnswer"}
	}
	code := codes.Code(resp.GetStatus().GetCode())
	if code == codes.OK {
		o := obsResp{Class: "allow", Code: "GOk"}
		for _, h := range resp.GetOkResponse().GetHeaders() {
			o.Headers = append(o.Headers, [2]string{h.GetHeader().GetKey(), h.GetHeader().GetValue()})
		}
		sort.Slice(o.Headers, func(i, j int) bool { return o.Headers[i][0] < o.Headers[j][0] })
		o.Gal = "(OAllow " + galKVs(o.Headers) + ")"
		return o
	}
	d := resp.GetDeniedResponse()
	cg, ok := codeGal[code]
	if !ok {
		cg = "GPermissionDenied"
	}
	o := obsResp{Class: "deny", Code: cg, Status: int(d.GetStatus().GetCode()), Body: d.GetBody(), Message: resp.GetStatus().GetMessage()}
	for _, h := range d.GetHeaders() {
		o.Headers = append(o.Headers, [2]string{h.GetHeader().GetKey(), h.GetHeader().GetValue()})
	}
	o.Gal = "(ODeny " + gal.Rec("d_code", cg, "d_status", gal.N(o.Status), "d_headers", galKVs(o.Headers), "d_body", gal.S(o.Body)) + ")"
	return o
}

func (r reqSpec) envoy() *envoy.CheckRequest {
	if r.NoHTTP {
		return &envoy.CheckRequest{Attributes: &envoy.AttributeContext{Request: &envoy.AttributeContext_Request{}}}
	}
	h := map[string]string{}
	if r.Cookie != "" {
		h["cookie"] = r.Cookie
	}
	return &envoy.CheckRequest{Attributes: &envoy.AttributeContext{Request: &envoy.AttributeContext_Request{
		Http: &envoy.AttributeContext_HttpRequest{Method: "GET", Scheme: r.Scheme, Host: r.Host, Path: r.Path, Query: r.Query, Headers: h}}}}
}

func (r reqSpec) gal() string {
	return gal.Rec("r_has_http", gal.B(!r.NoHTTP), "r_scheme", gal.S(r.Scheme), "r_host", gal.S(r.Host), "r_path", gal.S(r.Path),
		"r_query", gal.S(r.Query), "r_cookie", gal.S(r.Cookie))
}

// Do runs one request through a NEW handler (as the service does per check).
func (w *World) Do(r reqSpec, faults map[int]faultKind, jwksFail bool) stepRec {
	w.rec.trace = nil
	w.store.n = 0
	if n := len(w.store.replicas); n > 0 && !w.PinReplica { // any replica attached to the same Redis serves any session
		w.reqCount++
		w.store.inner = w.store.replicas[(w.reqCount*7/3)%n]
	}
	w.store.faults = faults
	if w.store.faults == nil {
		w.store.faults = map[int]faultKind{}
	}
	w.jwks.fail = jwksFail
	st := stepRec{Now: w.now.UnixNano(), Req: r, JwksFail: jwksFail, CmdFaults: w.NextCmdFaults}
	if w.rhook != nil {
		w.rhook.mu.Lock()
		w.rhook.fail = map[string]bool{}
		w.rhook.fired = nil
		for _, c := range w.NextCmdFaults {
			w.rhook.fail[c] = true
		}
		w.rhook.mu.Unlock()
	}
	w.NextCmdFaults = nil
	if len(faults) > 0 {
		st.Faults = map[int]string{}
		for k, v := range faults {
			st.Faults[k] = map[faultKind]string{failBefore: "before", failAfter: "after"}[v]
		}
	}
	resp := &envoy.CheckResponse{}
	var err error
	var pv any
	func() {
		defer func() { pv = recover() }()
		var h authz.Handler
		h, err = authz.NewOIDCHandler(w.Cfg, w.tlsPool, w.jwks, oneStoreFactory{w.store}, *w.clock, w.gen)
		if err != nil {
			return
		}
		err = h.Process(bg, r.envoy(), resp)
	}()
	st.Resp = observe(resp, err, pv)
	st.Trace = append([]effRec(nil), w.rec.trace...)
	// fail-closed below the store interface: a Redis command of this check failed (the server was not reached) - whatever the
	// store makes of it, the check must not be answered OK
	if w.rhook != nil {
		w.rhook.mu.Lock()
		if len(w.rhook.fired) > 0 && st.Resp.Class == "allow" {
			w.OKDespiteCmdFault = append(w.OKDespiteCmdFault, fmt.Sprintf("request %s %s: Redis command(s) %v failed, verdict OK", r.Path, r.Cookie, w.rhook.fired))
		}
		w.rhook.mu.Unlock()
	}
	// an answer already handed back must not change when later checks are processed (gRPC serialises it later)
	if w.lastResp != nil {
		if again := observe(w.lastResp, nil, nil); again.Gal != w.lastGal {
			w.LateMutations = append(w.LateMutations, fmt.Sprintf("was %.300s ; became %.300s", w.lastGal, again.Gal))
		}
	}
	w.lastResp, w.lastGal = nil, ""
	if err == nil && pv == nil {
		w.lastResp, w.lastGal = resp, st.Resp.Gal
	}
	return st
}

func (st stepRec) gal() string {
	var tr []string
	for _, e := range st.Trace {
		tr = append(tr, gal.Pair(e.Eff, e.Ans))
	}
	return gal.Rec("s_now", gal.Z(st.Now), "s_req", st.Req.gal(), "s_trace", gal.L(tr), "s_resp", st.Resp.Gal)
}

// galCfg prints the filter configuration as the model's cfg (url.Parse of the callback supplied).
func (w *World) galCfg() string {
	c := w.Cfg
	u, err := url.Parse(c.GetCallbackUri())
	if err != nil {
		u = &url.URL{}
	}
	at := "None"
	if c.GetAccessToken() != nil {
		at = "(Some " + gal.Rec("tc_header", gal.S(c.GetAccessToken().GetHeader()), "tc_preamble", gal.S(c.GetAccessToken().GetPreamble())) + ")"
	}
	lo := "None"
	if c.GetLogout() != nil {
		lo = "(Some " + gal.Rec("lo_path", gal.S(c.GetLogout().GetPath()), "lo_redirect", gal.S(c.GetLogout().GetRedirectUri())) + ")"
	}
	var sc []string
	for _, s := range c.GetScopes() {
		sc = append(sc, gal.S(s))
	}
	return gal.Rec("client_id", gal.S(c.GetClientId()), "client_secret", gal.S(c.GetClientSecret()),
		"callback_uri", gal.S(c.GetCallbackUri()),
		"callback", gal.Rec("cb_scheme", gal.S(u.Scheme), "cb_hostname", gal.S(u.Hostname()), "cb_port", gal.S(u.Port()), "cb_path", gal.S(u.Path)),
		"auth_uri", gal.S(c.GetAuthorizationUri()), "token_uri", gal.S(c.GetTokenUri()),
		"scopes", gal.L(sc), "cookie_prefix", gal.S(c.GetCookieNamePrefix()),
		"id_token", gal.Rec("tc_header", gal.S(c.GetIdToken().GetHeader()), "tc_preamble", gal.S(c.GetIdToken().GetPreamble())),
		"access_token", at, "logout", lo)
}

func (w *World) galDB() string {
	keys := make([]string, 0, len(w.tokdb))
	for k := range w.tokdb {
		keys = append(keys, k)
	}
	sort.Strings(keys)
	var out []string
	for _, k := range keys {
		out = append(out, gal.Pair(gal.S(k), w.tokdb[k].gal()))
	}
	return gal.L(out)
}

func cookieName(prefix string) string {
	if prefix == "" {
		return "__Host-authservice-session-id-cookie"
	}
	return "__Host-" + prefix + "-authservice-session-id-cookie"
}
