package main

// c18.go — C18 (isolation of OIDC filters): configurations of two and three OIDC filters (in-memory store, Redis
// server A, Redis server B; own timeouts, cookie prefixes, client ids and secrets) are assembled exactly as the service
// does (real store factory PreRun/Get, real ExtAuthZFilter.Check with one chain per filter).  Observed:
//   - which filters are handed the same store object (factory.Get(cfg_i) == factory.Get(cfg_j));
//   - the timeouts of the store handed to each filter;
//   - for every ordered pair (i, j) and every way of naming the cookies: a browser logs in at filter i through Check
//     (redirect, callback with a real code exchange, first authenticated request) and then presents the session id to
//     filter j; is it answered OK?
// The Coq model (Multi/Filters.v) predicts all three; an OK for i <> j and foreign timeouts are monitor failures.

import (
	"context"
	"fmt"
	"io"
	"math/rand"
	"net/http"
	"net/http/httptest"
	"net/url"
	"reflect"
	"strings"
	"sync"
	"time"

	"github.com/alicebob/miniredis/v2"

	configv1 "github.com/istio-ecosystem/authservice/config/gen/go/v1"
	oidcv1 "github.com/istio-ecosystem/authservice/config/gen/go/v1/oidc"
	"github.com/istio-ecosystem/authservice/internal"
	"github.com/istio-ecosystem/authservice/internal/oidc"
	"github.com/istio-ecosystem/authservice/internal/server"
	"github.com/istio-ecosystem/authservice/verifharness/gal"
)

func storeTimeouts(s oidc.SessionStore) (int64, int64, string) {
	v := reflect.ValueOf(s)
	if v.Kind() == reflect.Ptr {
		v = v.Elem()
	}
	a, i := v.FieldByName("absoluteSessionTimeout"), v.FieldByName("idleSessionTimeout")
	if !a.IsValid() || !i.IsValid() {
		return -1, -1, v.Type().String()
	}
	return int64(time.Duration(a.Int()) / time.Second), int64(time.Duration(i.Int()) / time.Second), v.Type().String()
}

func runC18(c *Ctx) {
	c.Sum.Rule = "all assignments of {memory, Redis A db 0, Redis A db 1, Redis B} to 2 and 3 OIDC filters (seeded random timeouts; endpoints static or discovered from one provider by ?p=<policy>) through the real store factory and ExtAuthZFilter.Check; " +
		"per configuration: store identity per pair, store timeouts per filter, and for every ordered pair (i,j) x 6 cookie namings a full login at i followed by the presentation of the session at j; " +
		"distinct_nontrivial = distinct (store kinds of i and j, naming, verdict) combinations"
	rng := rand.New(rand.NewSource(c.Seed))
	ctx, cancel := context.WithCancel(context.Background())
	defer cancel()
	w := newWorld(c.Seed, cfgOpts{Prefix: "", Access: true, Logout: true, Scopes: []string{"openid"}, IDHeader: "authorization", IDPreamble: "Bearer", ATHeader: "x-at",
		CallbackURI: "https://app.test/callback", ClientID: "client-1", Secret: "s", Store: "memory"})
	defer w.Close()
	var mu sync.Mutex
	nonces := map[string]string{}
	var exchanges []string // "token endpoint path|Authorization header" of every token request, in order
	w.idp.route = func(path string) (*recorder, func(), string) {
		mu.Lock()
		exchanges = append(exchanges, path)
		mu.Unlock()
		return nil, nil, ""
	}
	w.idp.discoveryFor = func(q string) string { // ?p=<i>: the policy of filter i, with endpoints of its own
		i := strings.TrimPrefix(q, "p=")
		return fmt.Sprintf(`{"issuer":%q,"authorization_endpoint":%q,"token_endpoint":%q,"jwks_uri":%q,"end_session_endpoint":%q}`,
			w.idp.srv.URL, w.idp.srv.URL+"/auth"+i, w.idp.srv.URL+"/token"+i, w.idp.srv.URL+"/jwks", w.idp.srv.URL+"/end"+i)
	}
	w.idp.next = func(form url.Values, auth string) idpAnswer {
		mu.Lock()
		nonce := nonces[form.Get("code")]
		if n := len(exchanges); n > 0 {
			exchanges[n-1] += "|" + auth
		}
		mu.Unlock()
		tok, _ := w.keys.mint(tokSpec{Sig: "good-rsa", Aud: []string{"client-0", "client-1", "client-2"}, NonceKind: "str", Nonce: nonce, Exp: time.Now().Unix() + 3600})
		return idpAnswer{Body: fmt.Sprintf(`{"id_token":%q,"access_token":"at","refresh_token":"rt","expires_in":3600,"token_type":"Bearer"}`, tok)}
	}
	// a forward proxy that records what passes through it: one filter per configuration is given it as proxy_uri
	var proxied []string // "path|Authorization" of every request that went through the proxy
	direct := &http.Client{Transport: &http.Transport{Proxy: nil}}
	proxy := httptest.NewServer(http.HandlerFunc(func(rw http.ResponseWriter, r *http.Request) {
		mu.Lock()
		proxied = append(proxied, r.URL.Path+"|"+r.Header.Get("Authorization"))
		mu.Unlock()
		body, _ := io.ReadAll(r.Body)
		out, _ := http.NewRequest(r.Method, r.URL.String(), strings.NewReader(string(body)))
		out.Header = r.Header.Clone()
		resp, err := direct.Do(out)
		if err != nil {
			rw.WriteHeader(502)
			return
		}
		defer resp.Body.Close()
		for k, v := range resp.Header {
			rw.Header()[k] = v
		}
		rw.WriteHeader(resp.StatusCode)
		_, _ = io.Copy(rw, resp.Body)
	}))
	defer proxy.Close()
	mrA, err := miniredis.Run()
	must(err)
	defer mrA.Close()
	mrB, err := miniredis.Run()
	must(err)
	defer mrB.Close()
	// redisA and redisA1 are two databases of one server: different server URIs, different stores
	uris := map[string]string{"mem": "", "redisA": "redis://" + mrA.Addr(), "redisA1": "redis://" + mrA.Addr() + "/1", "redisB": "redis://" + mrB.Addr()}
	kinds := []string{"mem", "redisA", "redisA1", "redisB"}
	var configs [][]string
	for _, a := range kinds {
		for _, b := range kinds {
			configs = append(configs, []string{a, b})
			for _, d := range kinds {
				configs = append(configs, []string{a, b, d})
			}
		}
	}
	rounds := 1
	if c.Thorough() {
		rounds = 6
	}
	tlsPool := internal.NewTLSConfigPool(ctx)
	var cases []string
	var descr []any
	flush := func() {
		if len(cases) > 0 {
			c.WriteShardWith("Multi.Filters Corr.C18", "c18case", cases, descr, "", "run cases")
			cases, descr = nil, nil
		}
	}
	for round := 0; round < rounds; round++ {
		for ci, ks := range configs {
			cfg := &configv1.Config{}
			var oidcs []*oidcv1.OIDCConfig
			var fGal []string
			var fDescr []map[string]any
			for i, k := range ks {
				abs, idle := int64(100+rng.Intn(5000)), int64(10+rng.Intn(900))
				if rng.Intn(6) == 0 {
					abs = 0
				}
				if rng.Intn(6) == 0 {
					idle = 0
				}
				o := &oidcv1.OIDCConfig{CallbackUri: "https://app.test/callback", ClientId: fmt.Sprintf("client-%d", i),
					ClientSecretConfig: &oidcv1.OIDCConfig_ClientSecret{ClientSecret: fmt.Sprintf("secret-%d", i)},
					Scopes:             []string{"openid"}, CookieNamePrefix: fmt.Sprintf("p%d", i), IdToken: &oidcv1.TokenConfig{Header: "authorization", Preamble: "Bearer"},
					AbsoluteSessionTimeout: uint32(abs), IdleSessionTimeout: uint32(idle)}
				discovered := (ci+i+round)%2 == 0
				if discovered { // one provider, one discovery path, the policy selected by the query
					o.ConfigurationUri = w.idp.srv.URL + fmt.Sprintf("/.well-known/openid-configuration?p=%d", i)
				} else {
					o.AuthorizationUri, o.TokenUri = w.idp.srv.URL+fmt.Sprintf("/auth%d", i), w.idp.srv.URL+fmt.Sprintf("/token%d", i)
					o.JwksConfig = &oidcv1.OIDCConfig_JwksFetcher{JwksFetcher: &oidcv1.OIDCConfig_JwksFetcherConfig{JwksUri: w.idp.srv.URL + "/jwks", PeriodicFetchIntervalSec: 60}}
				}
				if uris[k] != "" {
					o.RedisSessionStoreConfig = &oidcv1.RedisConfig{ServerUri: uris[k]}
				}
				if i == (ci+round)%len(ks) && !discovered { // this filter reaches its provider through the proxy; the others do not
					o.ProxyUri = proxy.URL
				}
				oidcs = append(oidcs, o)
				cfg.Chains = append(cfg.Chains, &configv1.FilterChain{Name: fmt.Sprintf("c%d", i),
					Match:   &configv1.Match{Header: "x-tenant", Criteria: &configv1.Match_Equality{Equality: fmt.Sprint(i)}},
					Filters: []*configv1.Filter{{Type: &configv1.Filter_Oidc{Oidc: o}}}})
				fGal = append(fGal, "("+gal.S(o.CookieNamePrefix)+", "+gal.S(uris[k])+", "+gal.Z(abs)+", "+gal.Z(idle)+")")
				fDescr = append(fDescr, map[string]any{"filter": i, "store": k, "cookie_prefix": o.CookieNamePrefix, "client_id": o.ClientId, "absolute_s": abs, "idle_s": idle,
					"redis_server_uri": uris[k], "proxy": i == (ci+round)%len(ks) && !discovered, "endpoints": map[bool]string{true: "discovered (configuration_uri ...?p=i)", false: "static"}[discovered]})
			}
			jctx, jcancel := context.WithCancel(ctx)
			jwks := oidc.NewJWKSProvider(cfg, tlsPool)
			go func() { _ = jwks.ServeContext(jctx) }()
			sessions := oidc.NewSessionStoreFactory(cfg)
			must(sessions.PreRun())
			filter := server.NewExtAuthZFilter(cfg, tlsPool, jwks, sessions)
			items := map[string]any{}
			// (1) store identity
			var shareGal []string
			for i := range ks {
				for j := range ks {
					same := sessions.Get(oidcs[i]) == sessions.Get(oidcs[j])
					items[fmt.Sprint(len(shareGal))] = map[string]any{"kind": "store-identity", "i": i, "j": j, "same_store_object": same}
					shareGal = append(shareGal, fmt.Sprintf("(%d, %d, %s)", i, j, gal.B(same)))
				}
			}
			// (2) timeouts of the store handed to each filter
			var effGal []string
			for i, k := range ks {
				a, d, ty := storeTimeouts(sessions.Get(oidcs[i]))
				rule := "memory-first-filter-wins"
				if k != "mem" {
					rule = "redis-last-filter-wins"
				}
				items[fmt.Sprint(100+i)] = map[string]any{"kind": "timeouts", "filter": i, "store": k, "store_type": ty, "effective_absolute_s": a, "effective_idle_s": d,
					"configured_absolute_s": fDescr[i]["absolute_s"], "configured_idle_s": fDescr[i]["idle_s"], "rule": rule}
				effGal = append(effGal, fmt.Sprintf("(%d, %s, %s)", i, gal.Z(a), gal.Z(d)))
				c.Hist("timeouts", fmt.Sprintf("%s own=%v", k, a == fDescr[i]["absolute_s"].(int64) && d == fDescr[i]["idle_s"].(int64)))
			}
			// (3) cross presentation
			var crossGal []string
			check := func(t int, path, cookie string) (bool, string, map[string]string) {
				hdr := map[string]string{"x-tenant": fmt.Sprint(t)}
				if cookie != "" {
					hdr["cookie"] = cookie
				}
				resp, err := filter.Check(ctx, mkReq("https", "app.test", path, hdr))
				c.Sum.Evaluations++
				if err != nil {
					return false, "error", nil
				}
				out := map[string]string{}
				for _, h := range resp.GetDeniedResponse().GetHeaders() {
					out[h.GetHeader().GetKey()] = h.GetHeader().GetValue()
				}
				idt := ""
				for _, h := range resp.GetOkResponse().GetHeaders() {
					if h.GetHeader().GetKey() == "authorization" {
						idt = h.GetHeader().GetValue()
					}
				}
				return resp.GetStatus().GetCode() == 0, idt, out
			}
			login := func(i int) (string, string, bool) {
				_, _, h := check(i, "/app", "")
				sc := strings.SplitN(strings.SplitN(h["set-cookie"], ";", 2)[0], "=", 2)
				u, perr := url.Parse(h["location"])
				if len(sc) != 2 || perr != nil {
					return "", "", false
				}
				sid, state := sc[1], u.Query().Get("state")
				mu.Lock()
				nonces[state] = u.Query().Get("nonce")
				mu.Unlock()
				mu.Lock()
				before := len(exchanges)
				proxBefore := len(proxied)
				mu.Unlock()
				check(i, "/callback?code="+state+"&state="+state, sc[0]+"="+sid)
				mu.Lock()
				seenEx := append([]string(nil), exchanges[before:]...)
				mu.Unlock()
				mu.Lock()
				viaProxy := append([]string(nil), proxied[proxBefore:]...)
				mu.Unlock()
				wantProxy := 0
				if oidcs[i].GetProxyUri() != "" {
					wantProxy = 1
				}
				nTok := 0
				for _, x := range viaProxy {
					if strings.HasPrefix(x, "/token") {
						nTok++
					}
				}
				if nTok != wantProxy {
					c.Sum.GoFindings = append(c.Sum.GoFindings, Finding{Signature: "C18/foreign-outbound-settings",
						What:   fmt.Sprintf("the code exchange of filter %d (proxy_uri %q) passed through the recording proxy %d time(s): a filter's outbound settings are not its own", i, oidcs[i].GetProxyUri(), nTok),
						Replay: map[string]any{"filters": fDescr, "filter": i, "through_proxy": viaProxy}})
				}
				wantAuthz := w.idp.srv.URL + fmt.Sprintf("/auth%d", i)
				wantEx := fmt.Sprintf("/token%d|Basic %s", i, b64std([]byte(fmt.Sprintf("client-%d:secret-%d", i, i))))
				if !strings.HasPrefix(h["location"], wantAuthz+"?") || u.Query().Get("client_id") != fmt.Sprintf("client-%d", i) || len(seenEx) != 1 || seenEx[0] != wantEx {
					c.Sum.GoFindings = append(c.Sum.GoFindings, Finding{Signature: "C18/foreign-endpoints-or-credentials",
						What:   fmt.Sprintf("the login at filter %d did not use that filter's own endpoints and credentials: redirected to %q (own authorization endpoint %q), token requests %q (own: %q)", i, h["location"], wantAuthz, seenEx, wantEx),
						Replay: map[string]any{"filters": fDescr, "filter": i, "location": h["location"], "token_requests": seenEx, "expected_token_request": wantEx}})
				}
				ok, idt, _ := check(i, "/app", sc[0]+"="+sid)
				return sid, idt, ok
			}
			namings := []string{"target-name", "source-name", "both-target-first", "both-source-first", "default-name", "target-name-twice-decoy-first"}
			for i := range ks {
				for j := range ks {
					for _, nm := range namings {
						sid, idtok, ok := login(i)
						if !ok {
							c.Sum.GoFindings = append(c.Sum.GoFindings, Finding{Signature: "C18/login-failed", What: fmt.Sprintf("the login at filter %d did not end in an OK", i),
								Replay: map[string]any{"filters": fDescr, "i": i}, FoundInput: boolp(false)})
							continue
						}
						ni, nj := cookieName(oidcs[i].CookieNamePrefix), cookieName(oidcs[j].CookieNamePrefix)
						cookie := ""
						switch nm {
						case "target-name":
							cookie = nj + "=" + sid
						case "source-name":
							cookie = ni + "=" + sid
						case "both-target-first":
							cookie = nj + "=" + sid + "; " + ni + "=" + sid
						case "both-source-first":
							cookie = ni + "=" + sid + "; " + nj + "=" + sid
						case "default-name":
							cookie = cookieName("") + "=" + sid
						case "target-name-twice-decoy-first":
							cookie = nj + "=decoy; " + nj + "=" + sid
						}
						okj, idj, _ := check(j, "/app", cookie)
						idx := len(crossGal)
						items[fmt.Sprint(1000+idx)] = map[string]any{"kind": "cross", "session_created_at_filter": i, "presented_to_filter": j, "naming": nm, "cookie_header": cookie,
							"session_id": sid, "answered_ok": okj, "forwarded_id_token_is_the_one_of_the_creating_filter": okj && idj == idtok,
							"store_i": ks[i], "store_j": ks[j], "same_server_uri": uris[ks[i]] == uris[ks[j]]}
						crossGal = append(crossGal, fmt.Sprintf("(%d, %d, %s, %s, %s)", i, j, gal.S(cookie), gal.S(sid), gal.B(okj)))
						key := fmt.Sprintf("%s->%s same-filter=%v %s ok=%v", ks[i], ks[j], i == j, nm, okj)
						c.Distinct(key)
						c.Hist("cross", key)
					}
				}
			}
			jcancel()
			d := map[string]any{"filters": fDescr, "items": items, "steps": []any{}}
			cases = append(cases, gal.Rec("q_filters", gal.L(fGal), "q_share", gal.L(shareGal), "q_eff", gal.L(effGal), "q_cross", gal.L(crossGal)))
			descr = append(descr, d)
			if ci%9 == 4 && round == 0 {
				c.Sample(map[string]any{"filters": fDescr, "cross_items": len(crossGal)})
			}
			if len(cases) == 12 {
				flush()
			}
		}
	}
	flush()
	mu.Lock()
	c.Sum.Notes = append(c.Sum.Notes, fmt.Sprintf("%d token exchanges answered by the provider simulator", len(exchanges)))
	mu.Unlock()
}

func boolp(b bool) *bool { return &b }

func init() { props["C18"] = runC18 }
