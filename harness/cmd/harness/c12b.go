package main

// c12b.go — concurrent histories of the memory store with a linearization witness (verified in Coq against
// the memory-store model), and the system-level timeout run through the real start-up wiring.

import (
	"context"
	"fmt"
	mrand "math/rand"
	"runtime"
	"strings"
	"sync"
	"sync/atomic"
	"time"

	configv1 "github.com/istio-ecosystem/authservice/config/gen/go/v1"
	oidcv1 "github.com/istio-ecosystem/authservice/config/gen/go/v1/oidc"
	"github.com/istio-ecosystem/authservice/internal/oidc"
	"github.com/istio-ecosystem/authservice/verifharness/gal"
)

type linOp struct {
	Inv, Resp int64
	Op        sop
	Res       string
}

// sequential reference used only to SEARCH for a witness order; the witness is then checked in Coq.
type refSess struct {
	tok, auth string
	hasTok    bool
	hasAuth   bool
}

func refApply(m map[string]refSess, o sop) (map[string]refSess, string) {
	n := make(map[string]refSess, len(m))
	for k, v := range m {
		n[k] = v
	}
	s, ok := n[o.Sid]
	switch o.Kind {
	case "SetTok":
		s.tok, s.hasTok = galTokens(o.Tok), true
		n[o.Sid] = s
		return n, "RUnit"
	case "SetAuth":
		s.auth, s.hasAuth = galAuth(o.Auth), true
		n[o.Sid] = s
		return n, "RUnit"
	case "GetTok":
		if ok && s.hasTok {
			return n, "(RTok (Some " + s.tok + "))"
		}
		return n, "(RTok None)"
	case "GetAuth":
		if ok && s.hasAuth {
			return n, "(RAuth (Some " + s.auth + "))"
		}
		return n, "(RAuth None)"
	case "ClearAuth":
		if ok {
			s.auth, s.hasAuth = "", false
			n[o.Sid] = s
		}
		return n, "RUnit"
	}
	delete(n, o.Sid)
	return n, "RUnit"
}

func refKey(m map[string]refSess) string {
	return fmt.Sprint(m["s1"], "|", m["s2"], "|", len(m))
}

// findLinearization: DFS over minimal (w.r.t. real-time order) unlinearized operations.
func findLinearization(ops []linOp) []int {
	n := len(ops)
	seen := map[string]bool{}
	var order []int
	var dfs func(done uint64, st map[string]refSess) bool
	dfs = func(done uint64, st map[string]refSess) bool {
		if done == (uint64(1)<<uint(n))-1 {
			return true
		}
		key := fmt.Sprint(done, refKey(st))
		if seen[key] {
			return false
		}
		seen[key] = true
		for i := 0; i < n; i++ {
			if done&(1<<uint(i)) != 0 {
				continue
			}
			minimal := true
			for j := 0; j < n; j++ {
				if j != i && done&(1<<uint(j)) == 0 && ops[j].Resp < ops[i].Inv {
					minimal = false
					break
				}
			}
			if !minimal {
				continue
			}
			st2, res := refApply(st, ops[i].Op)
			if res != ops[i].Res {
				continue
			}
			order = append(order, i)
			if dfs(done|1<<uint(i), st2) {
				return true
			}
			order = order[:len(order)-1]
		}
		return false
	}
	if dfs(0, map[string]refSess{}) {
		return order
	}
	return nil
}

func linearizabilityCheck(c *Ctx) {
	rounds := 150
	if c.Thorough() {
		rounds = 3000
	}
	toks, auths, _ := storeValues()
	toks, auths = toks[:4], auths[:2]
	r := newRand(c.Seed, 1212)
	var cases []string
	var descr []any
	for round := 0; round < rounds; round++ {
		now := time.Unix(1_700_000_000, 0)
		// a clock that yields: whoever reads it outside a critical section is descheduled right there
		clock := &oidc.Clock{NowFn: func() time.Time { runtime.Gosched(); time.Sleep(20 * time.Microsecond); return now }}
		mem := oidc.NewMemoryStore(clock, 0, 0)
		var stamp int64
		workers, per := 3+r.Intn(2), 4+r.Intn(2)
		plans := make([][]sop, workers)
		for w := range plans {
			for i := 0; i < per; i++ {
				sid := storeSids[r.Intn(2)]
				var o sop
				switch x := r.Intn(10); {
				case x < 3:
					o = sop{Kind: "SetTok", Sid: sid, Tok: toks[r.Intn(4)]}
				case x < 5:
					o = sop{Kind: "GetTok", Sid: sid}
				case x < 7:
					o = sop{Kind: "SetAuth", Sid: sid, Auth: auths[r.Intn(2)]}
				case x < 8:
					o = sop{Kind: "GetAuth", Sid: sid}
				case x < 9:
					o = sop{Kind: "ClearAuth", Sid: sid}
				default:
					o = sop{Kind: "Remove", Sid: sid}
				}
				plans[w] = append(plans[w], o)
			}
		}
		if round%2 == 0 {
			// contention on a fresh id: every worker's first operation is a first write to the same session, of alternating kinds
			for w := range plans {
				if w%2 == 0 {
					plans[w][0] = sop{Kind: "SetTok", Sid: "s1", Tok: toks[w%4]}
				} else {
					plans[w][0] = sop{Kind: "SetAuth", Sid: "s1", Auth: auths[w%2]}
				}
				plans[w][1] = sop{Kind: []string{"GetTok", "GetAuth"}[w%2], Sid: "s1"}
			}
		}
		results := make([][]linOp, workers)
		var wg sync.WaitGroup
		start := make(chan struct{})
		for w := 0; w < workers; w++ {
			wg.Add(1)
			go func(w int) {
				defer wg.Done()
				<-start
				for _, o := range plans[w] {
					inv := atomic.AddInt64(&stamp, 1)
					res, err := applyOp(mem, o)
					resp := atomic.AddInt64(&stamp, 1)
					if err != nil {
						res = "RErrMem"
					}
					results[w] = append(results[w], linOp{Inv: inv, Resp: resp, Op: o, Res: res})
				}
			}(w)
		}
		close(start)
		wg.Wait()
		var all []linOp
		for _, rs := range results {
			all = append(all, rs...)
		}
		c.Sum.Evaluations += len(all)
		order := findLinearization(all)
		var steps []string
		for _, o := range all {
			steps = append(steps, fmt.Sprintf("[%d,%d] %s -> %s", o.Inv, o.Resp, o.Op, short(o.Res)))
		}
		d := map[string]any{"concurrent_history": steps, "witness_order": order}
		if order == nil {
			c.Sum.GoFindings = append(c.Sum.GoFindings, Finding{Signature: "C12/memory-store-not-linearizable",
				What: "a concurrent history of the memory store has no linearization (some operation was not atomic)", Replay: d})
			continue
		}
		c.Hist("linearizable_histories", fmt.Sprintf("%d goroutines", workers))
		var ops, ord []string
		for _, o := range all {
			ops = append(ops, "("+gal.N(int(o.Inv))+", "+gal.N(int(o.Resp))+", "+o.Op.gal()+", "+o.Res+")")
		}
		for _, i := range order {
			ord = append(ord, gal.N(i))
		}
		cases = append(cases, gal.Rec("l_ops", gal.L(ops), "l_order", gal.L(ord)))
		descr = append(descr, d)
	}
	// the interned strings of ALL the cases go into every shard (the cases were printed before they are split into shards)
	defs := strings.Join(gal.InternDefs(), "\n") + "\n"
	gal.ResetIntern()
	for len(cases) > 0 {
		k := len(cases)
		if k > 150 {
			k = 150
		}
		c.WriteShardWith("Oidc.Types Store.Spec Store.Memory Store.Redis Corr."+c.Prop, "lin_case", cases[:k], descr[:k], defs, "run_lin cases")
		cases, descr = cases[k:], descr[k:]
	}
}

var _ = mrand.Int

// systemLevelTimeouts: the store as the service assembles it at start-up (real clock), absolute timeout 2 s.
func systemLevelTimeouts(c *Ctx) {
	toks, _, _ := storeValues()
	for _, tc := range []struct {
		name      string
		abs, idle uint32
		wait      time.Duration
		touch     bool
	}{{"absolute-2s", 2, 0, 2600 * time.Millisecond, true}, {"idle-1s", 0, 1, 1600 * time.Millisecond, false}} {
		ocfg := &oidcv1.OIDCConfig{AbsoluteSessionTimeout: tc.abs, IdleSessionTimeout: tc.idle}
		cfg := &configv1.Config{Chains: []*configv1.FilterChain{{Name: "x", Filters: []*configv1.Filter{{Type: &configv1.Filter_Oidc{Oidc: ocfg}}}}}}
		f := oidc.NewSessionStoreFactory(cfg)
		must(f.PreRun())
		st := f.Get(ocfg)
		ctx := context.Background()
		must(st.SetTokenResponse(ctx, "sys", toks[0]))
		t0 := time.Now()
		honouredLate := false
		for time.Since(t0) < tc.wait {
			time.Sleep(400 * time.Millisecond)
			if tc.touch { // activity must not extend the absolute limit
				_, _ = st.GetTokenResponse(ctx, "sys")
			}
		}
		t, err := st.GetTokenResponse(ctx, "sys")
		must(err)
		if t != nil {
			honouredLate = true
		}
		c.Sum.Evaluations++
		c.Hist("system_level", tc.name)
		if honouredLate {
			c.Sum.GoFindings = append(c.Sum.GoFindings, Finding{Signature: "C10/assembled-store-honours-expired-session/" + tc.name,
				What:   fmt.Sprintf("the store assembled by NewSessionStoreFactory.PreRun (memory, %s) still returned the session %.1fs after creation", tc.name, time.Since(t0).Seconds()),
				Replay: map[string]any{"scenario": tc.name, "abs_s": tc.abs, "idle_s": tc.idle, "waited_ms": time.Since(t0).Milliseconds()}})
		}
	}
}
