package main

// c06.go — C06 (unpredictability of session ids, state, nonce).
// (1) translator: a summary of the shipped session generator - for every output, the entropy sources reachable from
//     the method that produces it - is REGENERATED from the Go sources of the current tree and handed to Coq, where the
//     obligation [secure summary = true] is evaluated;
// (2) search: the attack the theorem time_seeded_predictable describes (seed brute force over the measured call window,
//     using the public state and nonce), and a relation battery over many real draws.

import (
	crand "crypto/rand"
	"encoding/json"
	"errors"
	"fmt"
	"go/ast"
	"go/parser"
	"go/token"
	"io"
	mrand "math/rand"
	"net/url"
	"os"
	"os/exec"
	"path/filepath"
	"sort"
	"strconv"
	"strings"
	"time"

	"github.com/istio-ecosystem/authservice/internal/oidc"
	"github.com/istio-ecosystem/authservice/verifharness/gal"
)

type pkgIndex struct {
	fset    *token.FileSet
	funcs   map[string]*ast.FuncDecl        // "Func" or "Type.Method"
	imports map[*ast.File]map[string]string // local name -> path
	fileOf  map[*ast.FuncDecl]*ast.File
}

func parsePkg(dir string) *pkgIndex {
	ix := &pkgIndex{fset: token.NewFileSet(), funcs: map[string]*ast.FuncDecl{}, imports: map[*ast.File]map[string]string{}, fileOf: map[*ast.FuncDecl]*ast.File{}}
	pkgs, err := parser.ParseDir(ix.fset, dir, func(fi os.FileInfo) bool { return !strings.HasSuffix(fi.Name(), "_test.go") }, 0)
	must(err)
	for _, p := range pkgs {
		for _, f := range p.Files {
			im := map[string]string{}
			for _, is := range f.Imports {
				path, _ := strconv.Unquote(is.Path.Value)
				name := filepath.Base(path)
				if strings.HasPrefix(name, "v") && len(name) <= 3 { // .../v2
					name = filepath.Base(filepath.Dir(path))
				}
				if is.Name != nil {
					name = is.Name.Name
				}
				im[name] = path
			}
			ix.imports[f] = im
			for _, d := range f.Decls {
				fd, ok := d.(*ast.FuncDecl)
				if !ok {
					continue
				}
				name := fd.Name.Name
				if fd.Recv != nil && len(fd.Recv.List) == 1 {
					t := fd.Recv.List[0].Type
					if st, ok := t.(*ast.StarExpr); ok {
						t = st.X
					}
					if id, ok := t.(*ast.Ident); ok {
						name = id.Name + "." + name
					}
				}
				ix.funcs[name] = fd
				ix.fileOf[fd] = f
			}
		}
	}
	return ix
}

// classification of functions outside the module
func classifyExternal(path, sel string) string {
	switch {
	case path == "crypto/rand":
		return "Csprng"
	case path == "golang.org/x/oauth2" && sel == "GenerateVerifier":
		return "Csprng"
	case path == "math/rand" || path == "math/rand/v2":
		return "WeakPrng"
	case path == "time":
		return "Time"
	case path == "os" && (sel == "Getpid" || sel == "Getppid" || sel == "Hostname"):
		return "WeakPrng"
	}
	for _, p := range []string{"fmt", "strings", "strconv", "bytes", "errors", "sort", "math/big", "unicode", "unicode/utf8", "math", "math/bits", "slices"} {
		if path == p {
			return ""
		}
	}
	if strings.HasPrefix(path, "encoding/") || strings.HasPrefix(path, "crypto/sha") || path == "crypto/md5" || path == "hash/fnv" {
		return "" // transformations, not sources
	}
	return "UnknownSrc"
}

// sourcesOf walks an expression / body and collects the classes of the external calls it reaches, following calls
// to functions and methods of the package; fieldClass says what each field of the receiver type was initialised from.
func (ix *pkgIndex) sourcesOf(n ast.Node, file *ast.File, typ string, fieldClass map[string][]string, seen map[string]bool, out map[string]bool, streams map[string]bool) {
	ast.Inspect(n, func(x ast.Node) bool {
		call, ok := x.(*ast.CallExpr)
		if !ok {
			return true
		}
		switch fn := call.Fun.(type) {
		case *ast.SelectorExpr:
			if id, ok := fn.X.(*ast.Ident); ok {
				if path, isPkg := ix.imports[file][id.Name]; isPkg && id.Obj == nil {
					if c := classifyExternal(path, fn.Sel.Name); c != "" {
						out[c] = true
					}
					return true
				}
				// method on the receiver: r.generate(...)
				if fd, ok := ix.funcs[typ+"."+fn.Sel.Name]; ok && !seen[typ+"."+fn.Sel.Name] {
					seen[typ+"."+fn.Sel.Name] = true
					ix.sourcesOf(fd.Body, ix.fileOf[fd], typ, fieldClass, seen, out, streams)
				}
				return true
			}
			// r.field.Method(...): a draw from a stateful field of the generator
			if inner, ok := fn.X.(*ast.SelectorExpr); ok {
				if _, ok := inner.X.(*ast.Ident); ok {
					if cls, ok := fieldClass[inner.Sel.Name]; ok {
						for _, c := range cls {
							out[c] = true
						}
						streams[inner.Sel.Name] = true
					} else {
						out["UnknownSrc"] = true
					}
				}
			}
		case *ast.Ident:
			if fd, ok := ix.funcs[fn.Name]; ok && !seen[fn.Name] {
				seen[fn.Name] = true
				ix.sourcesOf(fd.Body, ix.fileOf[fd], typ, fieldClass, seen, out, streams)
			}
		}
		return true
	})
}

type genSummary struct {
	Constructor string
	Type        string
	Outputs     map[string][]string // output -> classes
	Streams     map[string]string   // output -> stateful stream field ("" none)
}

// summarise finds the generator constructors used by non-test code and summarises the type each one builds.
func summarise(repo string) ([]genSummary, []string) {
	var notes []string
	ix := parsePkg(filepath.Join(repo, "internal", "oidc"))
	// constructors used in production code
	used := map[string]bool{}
	_ = filepath.Walk(repo, func(p string, fi os.FileInfo, err error) error {
		if err != nil || fi.IsDir() || !strings.HasSuffix(p, ".go") || strings.HasSuffix(p, "_test.go") || strings.Contains(p, "/e2e/") || strings.Contains(p, "/config/gen/") {
			return nil
		}
		f, perr := parser.ParseFile(token.NewFileSet(), p, nil, 0)
		if perr != nil {
			return nil
		}
		ast.Inspect(f, func(x ast.Node) bool {
			call, ok := x.(*ast.CallExpr)
			if !ok {
				return true
			}
			name := ""
			switch fn := call.Fun.(type) {
			case *ast.SelectorExpr:
				name = fn.Sel.Name
			case *ast.Ident:
				name = fn.Name
			}
			if strings.HasPrefix(name, "New") && strings.HasSuffix(name, "Generator") {
				if _, ok := ix.funcs[name]; ok {
					used[name] = true
				}
			}
			return true
		})
		return nil
	})
	var names []string
	for n := range used {
		names = append(names, n)
	}
	sort.Strings(names)
	var out []genSummary
	for _, ctor := range names {
		fd := ix.funcs[ctor]
		gs := genSummary{Constructor: ctor, Outputs: map[string][]string{}, Streams: map[string]string{}}
		fieldClass := map[string][]string{}
		ast.Inspect(fd.Body, func(x ast.Node) bool {
			cl, ok := x.(*ast.CompositeLit)
			if !ok {
				return true
			}
			if id, ok := cl.Type.(*ast.Ident); ok && gs.Type == "" {
				gs.Type = id.Name
				for _, el := range cl.Elts {
					kv, ok := el.(*ast.KeyValueExpr)
					if !ok {
						continue
					}
					k, _ := kv.Key.(*ast.Ident)
					srcs := map[string]bool{}
					ix.sourcesOf(kv.Value, ix.fileOf[fd], gs.Type, nil, map[string]bool{}, srcs, map[string]bool{})
					var cls []string
					switch {
					case srcs["UnknownSrc"]:
						cls = []string{"UnknownSrc"}
					case srcs["WeakPrng"] && srcs["Time"]:
						cls = []string{"TimeSeededPrng"}
					case srcs["WeakPrng"]:
						cls = []string{"WeakPrng"}
					case srcs["Csprng"]:
						cls = []string{"Csprng"}
					default:
						cls = []string{"ConstantSrc"}
					}
					if k != nil {
						fieldClass[k.Name] = cls
					}
				}
			}
			return true
		})
		if gs.Type == "" {
			notes = append(notes, "constructor "+ctor+": no composite literal found")
			continue
		}
		for outName, method := range map[string]string{"session_id": "GenerateSessionID", "nonce": "GenerateNonce", "state": "GenerateState", "code_verifier": "GenerateCodeVerifier"} {
			m, ok := ix.funcs[gs.Type+"."+method]
			if !ok {
				gs.Outputs[outName] = []string{"UnknownSrc"}
				continue
			}
			srcs, streams := map[string]bool{}, map[string]bool{}
			ix.sourcesOf(m.Body, ix.fileOf[m], gs.Type, fieldClass, map[string]bool{}, srcs, streams)
			delete(srcs, "Time") // a clock reading is public; it only matters as the seed of a generator (field classification)
			var cls []string
			for c := range srcs {
				cls = append(cls, c)
			}
			sort.Strings(cls)
			if len(cls) == 0 {
				cls = []string{"ConstantSrc"}
			}
			gs.Outputs[outName] = cls
			for s := range streams {
				gs.Streams[outName] = s
			}
		}
		out = append(out, gs)
	}
	return out, notes
}

func (g genSummary) gal() string {
	var outs []string
	for _, n := range []string{"session_id", "nonce", "state", "code_verifier"} {
		st := "None"
		if s := g.Streams[n]; s != "" {
			st = "(Some " + gal.S(s) + ")"
		}
		outs = append(outs, gal.Rec("os_name", gal.S(n), "os_sources", gal.L(g.Outputs[n]), "os_stateful_stream", st))
	}
	return gal.L(outs)
}

// seedAttack: recover the session id of a login from its public state and nonce and the time window of the call,
// assuming the generator is math/rand seeded with the clock (what the summary says when it is TimeSeededPrng).
func seedAttack(t0, t1 time.Time, sid, nonce, state string) (bool, int) {
	const charset = "abcdefghijklmnopqrstuvwxyzABCDEFGHIJKLMNOPQRSTUVWXYZ0123456789"
	gen := func(r *mrand.Rand, n int) string {
		b := make([]byte, n)
		for i := range b {
			b[i] = charset[r.Intn(len(charset))]
		}
		return string(b)
	}
	tried := 0
	for seed := t0.UnixNano() - 2000; seed <= t1.UnixNano()+2000; seed++ {
		tried++
		r := mrand.New(mrand.NewSource(seed))
		s := gen(r, len(sid))
		if gen(r, len(nonce)) == nonce && gen(r, len(state)) == state {
			return s == sid, tried
		}
		if tried > 50_000_000 {
			break
		}
	}
	return false, tried
}

// perValueSeedAttack: is the session id the output of a math/rand stream seeded with some instant of the window?
func perValueSeedAttack(t0, t1 time.Time, sid string) (bool, int) {
	const charset = "abcdefghijklmnopqrstuvwxyzABCDEFGHIJKLMNOPQRSTUVWXYZ0123456789"
	tried := 0
	for seed := t0.UnixNano() - 2000; seed <= t1.UnixNano()+2000 && tried < 5_000_000; seed++ {
		tried++
		r := mrand.New(mrand.NewSource(seed))
		match := true
		for i := 0; i < len(sid); i++ {
			if charset[r.Intn(len(charset))] != sid[i] {
				match = false
				break
			}
		}
		if match {
			return true, tried
		}
	}
	return false, tried
}

type failingReader struct {
	left int
	next io.Reader
}

func (f *failingReader) Read(p []byte) (int, error) {
	if f.left > 0 {
		f.left--
		return 0, errors.New("entropy source unavailable")
	}
	return f.next.Read(p)
}

func runC06(c *Ctx) {
	c.Sum.Rule = "(1) the entropy-source summary of every session generator constructed by non-test code, regenerated from the Go sources of the current tree (go/parser), checked in Coq against the obligation 'session id, nonce and state are fed by the CSPRNG only, from draws of their own'; " +
		"(2) seed brute force over the measured time window of each of N real logins using only the public state and nonce; (3) relation battery over real draws: equality / containment between the outputs of one login and across logins, repeats, gross per-position bias; " +
		"distinct_nontrivial = distinct session ids drawn"
	repo := os.Getenv("VERIF_REPO")
	if repo == "" {
		repo = "/repo"
	}
	sums, notes := summarise(repo)
	c.Sum.Notes = append(c.Sum.Notes, notes...)
	var cases []string
	var descr []any
	for _, g := range sums {
		cases = append(cases, g.gal())
		descr = append(descr, map[string]any{"constructor": g.Constructor, "type": g.Type, "sources_per_output": g.Outputs, "stateful_streams": g.Streams, "steps": []any{}})
		c.Sample(map[string]any{"constructor": g.Constructor, "sources_per_output": g.Outputs, "stateful_streams": g.Streams})
		c.Sum.Evaluations++
	}
	if len(sums) == 0 {
		c.Sum.GoFindings = append(c.Sum.GoFindings, Finding{Signature: "C06/no-generator-found", What: "the translator found no session generator constructed by non-test code", Replay: map[string]any{"notes": notes}, FoundInput: boolPtr(false)})
	}
	c.WriteShardWith("Gen.Generator Corr.C06", "gen_summary", cases, descr, "", "run cases")

	// (2) the attack
	attacks := 5
	draws := 20000
	if c.Thorough() {
		attacks, draws = 40, 400000
	}
	recovered := 0
	for i := 0; i < attacks; i++ {
		t0 := time.Now()
		g := oidc.NewRandomGenerator()
		sid, nonce, state := g.GenerateSessionID(), g.GenerateNonce(), g.GenerateState()
		t1 := time.Now()
		ok, tried := seedAttack(t0, t1, sid, nonce, state)
		c.Sum.Evaluations++
		c.Hist("seed_attack", map[bool]string{true: "session id recovered", false: "not recovered"}[ok])
		if ok {
			recovered++
			if recovered == 1 {
				c.Sum.GoFindings = append(c.Sum.GoFindings, Finding{Signature: "C06/session-id-recovered-from-public-values",
					What:   fmt.Sprintf("the session id of a login was computed from its public state and nonce and the call's time window (%d candidate seeds tried)", tried),
					Replay: map[string]any{"state": state, "nonce": nonce, "window_ns": []int64{t0.UnixNano(), t1.UnixNano()}, "recovered_session_id": sid, "seeds_tried": tried}})
			}
		}
	}
	// (2b) the same question when the entropy source fails: whatever the generator hands out then (instead of failing) is attacked too,
	// with a fresh clock-seeded stream per value as the candidate model
	// the draw itself runs in a child process: a generator that reads with crypto/rand.Read does not panic when the
	// entropy source fails, the runtime aborts the process (which is a refusal, too)
	exe, _ := os.Executable()
	for fails := 1; fails <= 4; fails++ {
		cmd := exec.Command(exe, "-out", filepath.Join(c.Out, "entropy-child"), "C06-entropy-child")
		cmd.Env = append(os.Environ(), fmt.Sprint("ENTROPY_FAILS=", fails))
		outb, err := cmd.Output()
		c.Sum.Evaluations++
		var res struct {
			Panicked          bool
			Sid, Nonce, State string
			T0, T1            int64
		}
		line := ""
		for _, l := range strings.Split(string(outb), "\n") {
			if strings.HasPrefix(l, "ENTROPY-RESULT ") {
				line = strings.TrimPrefix(l, "ENTROPY-RESULT ")
			}
		}
		if err != nil || line == "" || json.Unmarshal([]byte(line), &res) != nil {
			c.Hist("entropy_failure", "generator refuses (process aborted by the runtime)")
			continue
		}
		if res.Panicked || res.Sid == "" {
			c.Hist("entropy_failure", "generator refuses (panic)")
			continue
		}
		c.Hist("entropy_failure", "values handed out")
		t0, t1 := time.Unix(0, res.T0), time.Unix(0, res.T1)
		ok1, tried1 := seedAttack(t0, t1, res.Sid, res.Nonce, res.State)
		ok2, tried2 := perValueSeedAttack(t0, t1, res.Sid)
		if ok1 || ok2 {
			c.Sum.GoFindings = append(c.Sum.GoFindings, Finding{Signature: "C06/session-id-recovered-when-entropy-fails",
				What:   fmt.Sprintf("with the first %d reads of the entropy source failing, the generator handed out a session id that lies in the candidate list computed from the call's time window alone (%d candidates)", fails, tried1+tried2),
				Replay: map[string]any{"failing_reads": fails, "state": res.State, "nonce": res.Nonce, "window_ns": []int64{res.T0, res.T1}, "recovered_session_id": res.Sid}})
		}
	}
	report := func(sig, what string, rp any) {
		for _, f := range c.Sum.GoFindings {
			if f.Signature == sig {
				return
			}
		}
		c.Sum.GoFindings = append(c.Sum.GoFindings, Finding{Signature: sig, What: what, Replay: rp})
	}
	// (2c) what the HANDLER does with the values it draws: over browser histories with pending logins (a second tab, a reload, an
	// asset request while the login is in flight), logins and logouts, every state, nonce, code challenge and session id that
	// leaves the service in a redirect must be new - never one that an earlier answer disclosed
	nh := 60
	if c.Thorough() {
		nh = 600
	}
	for i := 0; i < nh; i++ {
		o := cfgVariants[i%len(cfgVariants)]
		o.Store = []string{"memory", "redis"}[i%2]
		w := newWorld(c.Seed*911+int64(i), o)
		s := newSim(w, newRand(c.Seed, int64(60000+i)))
		s.Visit("/app")
		s.Visit("/favicon.ico") // with the cookie of the login in flight
		s.Visit("/app?tab=2")
		s.Login("/app", compliant())
		s.Visit("/app")
		for k := 0; k < 6; k++ {
			s.RandomStep(0, 10)
		}
		disclosed := map[string]int{}
		for si, st := range s.Steps {
			c.Sum.Evaluations++
			var vals []string
			for _, h := range st.Resp.Headers {
				switch h[0] {
				case "location":
					if u, err := url.Parse(h[1]); err == nil && u.Query().Get("code_challenge") != "" {
						vals = append(vals, "state="+u.Query().Get("state"), "nonce="+u.Query().Get("nonce"), "code_challenge="+u.Query().Get("code_challenge"))
					}
				case "set-cookie":
					if v := strings.SplitN(strings.SplitN(h[1], ";", 2)[0], "=", 2); len(v) == 2 && v[1] != "deleted" {
						vals = append(vals, "session="+v[1])
					}
				}
			}
			for _, v := range vals {
				if prev, ok := disclosed[v]; ok {
					report("C06/value-of-an-earlier-answer-reissued", fmt.Sprintf("answer %d issues %.60s, which answer %d had already disclosed", si, v, prev),
						s.descr(map[string]any{"step": si, "earlier_step": prev, "value": v}))
				}
			}
			for _, v := range vals {
				disclosed[v] = si
			}
		}
		c.Hist("handler_histories", o.Store)
		w.Close()
	}
	// (3) relation battery
	seen := map[string]bool{}
	posCount := make([]map[byte]int, 64)
	for i := range posCount {
		posCount[i] = map[byte]int{}
	}
	var prev [3]string
	for i := 0; i < draws; i++ {
		g := oidc.NewRandomGenerator()
		sid, nonce, state := g.GenerateSessionID(), g.GenerateNonce(), g.GenerateState()
		c.Sum.Evaluations++
		if seen[sid] {
			report("C06/session-id-repeats", "a session id was drawn twice within "+fmt.Sprint(draws)+" logins", map[string]any{"session_id": sid})
		}
		seen[sid] = true
		c.Distinct(sid)
		if nonce == state || strings.Contains(sid, nonce) || strings.Contains(sid, state) || strings.Contains(sid, nonce[:8]) || strings.Contains(sid, state[:8]) {
			report("C06/outputs-of-one-login-related", "session id, nonce and state of one login are textually related", map[string]any{"session_id": sid, "nonce": nonce, "state": state})
		}
		for _, p := range prev {
			if p != "" && (p == sid || p == nonce || p == state) {
				report("C06/value-reused-in-next-login", "a value of one login reappears in the next one", map[string]any{"session_id": sid, "nonce": nonce, "state": state, "previous": prev})
			}
		}
		prev = [3]string{sid, nonce, state}
		for k := 0; k < len(sid) && k < 64; k++ {
			posCount[k][sid[k]]++
		}
	}
	// gross bias: some character more than 8 sigma away from uniform at some position
	exp := float64(draws) / 62.0
	sigma := exp * (1 - 1.0/62.0)
	for k := range posCount {
		for ch, n := range posCount[k] {
			d := float64(n) - exp
			if d*d > 64*sigma {
				report("C06/biased-session-id-character", fmt.Sprintf("position %d of the session id takes %q %d times in %d draws (expected %.0f)", k, ch, n, draws, exp), map[string]any{"position": k, "char": string(ch), "count": n})
			}
		}
	}
	c.Hist("relation_battery_draws", fmt.Sprint(draws))
}

func boolPtr(b bool) *bool { return &b }

// the child of the entropy-failure probe: draw one login's values with the first ENTROPY_FAILS reads of crypto/rand.Reader failing
func runC06EntropyChild(c *Ctx) {
	fails, _ := strconv.Atoi(os.Getenv("ENTROPY_FAILS"))
	orig := crand.Reader
	crand.Reader = &failingReader{left: fails, next: orig}
	var sid, nonce, state string
	t0 := time.Now()
	panicked := func() (p bool) {
		defer func() { p = recover() != nil }()
		g := oidc.NewRandomGenerator()
		sid, nonce, state = g.GenerateSessionID(), g.GenerateNonce(), g.GenerateState()
		return false
	}()
	t1 := time.Now()
	crand.Reader = orig
	js, _ := json.Marshal(map[string]any{"Panicked": panicked, "Sid": sid, "Nonce": nonce, "State": state, "T0": t0.UnixNano(), "T1": t1.UnixNano()})
	fmt.Println("ENTROPY-RESULT " + string(js))
}

func init() { props["C06"] = runC06; props["C06-entropy-child"] = runC06EntropyChild }
