package main

import (
	"fmt"
	"strings"

	"github.com/istio-ecosystem/authservice/verifharness/gal"
)

func (s *Sim) galHist() string {
	var steps []string
	for _, st := range s.Steps {
		steps = append(steps, st.gal())
	}
	var secs []string
	seen := map[string]bool{}
	for _, x := range s.allSecrets() {
		if x != "" && !seen[x] {
			seen[x] = true
			secs = append(secs, gal.S(x))
		}
	}
	return gal.Rec("h_cfg", s.w.galCfg(), "h_db", s.w.galDB(), "h_secrets", gal.L(secs), "h_abs", gal.Z(int64(s.w.Abs)), "h_idle", gal.Z(int64(s.w.Idle)), "h_steps", gal.L(steps))
}

func (s *Sim) descr(extra map[string]any) any {
	d := map[string]any{
		"store": s.w.StoreKind, "abs_s": int(s.w.Abs.Seconds()), "idle_s": int(s.w.Idle.Seconds()),
		"config": map[string]any{"client_id": s.w.Cfg.GetClientId(), "cookie_prefix": s.w.Cfg.GetCookieNamePrefix(), "callback_uri": s.w.Cfg.GetCallbackUri(),
			"authorization_uri": s.w.Cfg.GetAuthorizationUri(), "access_token_forwarding": s.w.Cfg.GetAccessToken() != nil, "logout": s.w.Cfg.GetLogout() != nil,
			"scopes": s.w.Cfg.GetScopes(), "id_header": s.w.Cfg.GetIdToken().GetHeader(), "id_preamble": s.w.Cfg.GetIdToken().GetPreamble()},
		"steps": s.stepsDescr(), "idp_behaviours": s.Beh,
	}
	for k, v := range extra {
		d[k] = v
	}
	return d
}

func (s *Sim) stepsDescr() any {
	var out []any
	for i, st := range s.Steps {
		var effs []string
		for _, e := range st.Trace {
			x := e.Kind
			if e.Sid != "" {
				x += "(" + e.Sid + ")"
			}
			if e.Kind == "Idp" {
				x += "[" + e.Form.Get("grant_type") + "->" + e.Idp + "]"
			} else if !e.OK {
				x += "=ERR"
			} else if (e.Kind == "GetTok" && e.Tok == nil) || (e.Kind == "GetAuth" && e.Auth == nil) {
				x += "=nil"
			}
			effs = append(effs, x)
		}
		hd := map[string]string{}
		for _, h := range st.Resp.Headers {
			hd[h[0]] = h[1]
		}
		out = append(out, map[string]any{"i": i, "now_ns": st.Now, "request": st.Req, "faults": st.Faults, "jwks_fail": st.JwksFail, "redis_command_faults": st.CmdFaults,
			"effects": strings.Join(effs, " "), "response": map[string]any{"class": st.Resp.Class, "code": st.Resp.Code, "http_status": st.Resp.Status, "headers": hd, "body": st.Resp.Body}})
	}
	return out
}

// projKey: a hash key of the projected trace of a history (for distinct counting).
func (s *Sim) projKey() (string, bool) {
	var b strings.Builder
	nontrivial := false
	for _, st := range s.Steps {
		b.WriteString(st.Resp.Class + fmt.Sprint(st.Resp.Status) + ":")
		for _, e := range st.Trace {
			b.WriteString(e.Kind)
			if !e.OK {
				b.WriteString("!")
			}
			if e.Kind == "Idp" {
				b.WriteString(e.Idp)
			}
			if e.Kind == "SetTok" || e.Kind == "Idp" {
				nontrivial = true
			}
		}
		b.WriteString("|")
	}
	return b.String(), nontrivial
}

var cfgVariants = []cfgOpts{
	{Prefix: "", Access: true, Logout: true, Scopes: []string{"openid", "email"}, IDHeader: "authorization", IDPreamble: "Bearer", ATHeader: "x-access-token", ATPreamble: "Tok",
		CallbackURI: "https://app.test/callback", ClientID: "client-1", Secret: "SECRET-s3cr3t/+=&"},
	{Prefix: "my-app", Access: false, Logout: true, Scopes: []string{"openid"}, IDHeader: "x-id-token", IDPreamble: "",
		CallbackURI: "https://app.test:443/oauth/cb", ClientID: "client two", Secret: "SECRET-p w"},
	{Prefix: "x", Access: true, Logout: false, Scopes: []string{"profile", "openid", "a b", "urn:x:read+write", "billing&invoices=1"}, IDHeader: "authorization", IDPreamble: "Bearer", ATHeader: "x-at", ATPreamble: "",
		CallbackURI: "http://app.test:80/cb%20x", ClientID: "c&3=?", Secret: "SECRET-x", AuthQuery: "tenant=t1&x=a%20b"},
	{Prefix: "p_1/eu:prod@x y", Access: true, Logout: true, Scopes: []string{"openid"}, IDHeader: "x-tok", IDPreamble: "ID", ATHeader: "x-tok", ATPreamble: "AT",
		CallbackURI: "https://app.test:8443/callback", ClientID: "client-4", Secret: "SECRET-4"},
	// endpoints, keys and end-session URI discovered; the discovered authorization endpoint has a query of its own
	{Prefix: "d", Access: true, Logout: true, Scopes: []string{"openid", "profile"}, IDHeader: "authorization", IDPreamble: "Bearer", ATHeader: "x-access-token", ATPreamble: "",
		CallbackURI: "https://app.test/oidc/cb", ClientID: "client-5", Secret: "SECRET-5", Discovery: true, AuthQuery: "p=b2c_1_signin"},
}

// genHistories runs n random histories and returns their Gallina cases and descriptions.
type histProfile struct {
	N, MinLen, MaxLen     int
	FaultRate, AttackRate int
	Stores                []string
	Timeouts              [][2]int
	Browsers              int // >1: several browsers take turns (and the attacker mixes what it saw from all of them)
	LogoutBoost           bool // more logouts, and requests with the logged-out cookie afterwards
}

func runHistories(c *Ctx, salt int64, p histProfile, each func(s *Sim) map[string]any) {
	runHistoriesWith(c, salt, p, each, "run cases")
}

func runHistoriesWith(c *Ctx, salt int64, p histProfile, each func(s *Sim) map[string]any, runExpr string) {
	perShard := 40
	if c.Thorough() {
		perShard = 120
	}
	var cases []string
	var descr []any
	for i := 0; i < p.N; i++ {
		r := newRand(c.Seed, salt*1_000_003+int64(i))
		o := cfgVariants[i%len(cfgVariants)]
		o.Store = p.Stores[(i/len(cfgVariants))%len(p.Stores)]
		if len(p.Timeouts) > 0 {
			t := p.Timeouts[r.Intn(len(p.Timeouts))]
			o.Abs, o.Idle = t[0], t[1]
		}
		o.DebugLog = (i/3)%2 == 1
		w := newWorld(c.Seed*7919+int64(i), o)
		s := newSim(w, r)
		n := p.MinLen + r.Intn(p.MaxLen-p.MinLen+1)
		for len(s.Steps) < n {
			if p.Browsers > 1 && r.Intn(3) == 0 {
				s.SwitchBrowser(r.Intn(p.Browsers))
			}
			if p.LogoutBoost && s.w.Cfg.GetLogout() != nil && s.Jar != "" && r.Intn(6) == 0 {
				old := s.Jar
				s.Visit("/logout")
				for k := r.Intn(3); k >= 0; k-- { // replay the logged-out cookie
					s.request(reqSpec{Scheme: "https", Host: s.AppHost, Path: pick(r, appPaths), Cookie: s.cookie(old)}, nil, false)
				}
				c.Hist("event_class", "logout+replay")
				continue
			}
			cls := s.RandomStep(p.FaultRate, p.AttackRate)
			c.Hist("event_class", cls)
		}
		extra := map[string]any{}
		if each != nil {
			extra = each(s)
		}
		for _, b := range s.Beh {
			if b != "" {
				c.Hist("idp_kind", strings.SplitN(b, "/", 3)[0]+"/"+strings.SplitN(b, "/", 3)[1])
			}
		}
		for _, st := range s.Steps {
			c.Sum.Evaluations++
			c.Hist("response", fmt.Sprintf("%s/%d", st.Resp.Class, st.Resp.Status))
			if len(st.Faults) > 0 || st.JwksFail {
				c.Hist("faulted_requests", "yes")
			}
		}
		c.Hist("history_len", fmt.Sprint(len(s.Steps)/10*10)+"+")
		c.Hist("store", o.Store)
		key, nt := s.projKey()
		if nt {
			c.Distinct(key)
		}
		if len(w.LateMutations) > 0 {
			c.Sum.GoFindings = append(c.Sum.GoFindings, Finding{Signature: c.Prop + "/answer-changed-after-it-was-returned",
				What: "an answer already returned by a check changed while a later check was processed (responses share mutable state): " + w.LateMutations[0],
				Replay: s.descr(map[string]any{"late_mutations": w.LateMutations})})
		}
		cases = append(cases, s.galHist())
		d := s.descr(extra)
		descr = append(descr, d)
		if i%(p.N/4+1) == 1 {
			c.Sample(d)
		}
		w.Close()
		if len(cases) == perShard {
			c.WriteShardWith("Oidc.Types Corr.Hist Corr."+c.Prop, "hist", cases, descr, "", runExpr)
			cases, descr = nil, nil
		}
	}
	if len(cases) > 0 {
		c.WriteShardWith("Oidc.Types Corr.Hist Corr."+c.Prop, "hist", cases, descr, "", runExpr)
	}
}
