package main

import (
	"context"
	"fmt"
	"net/url"
	"strings"
	"sync"
	"time"

	"github.com/lestrrat-go/jwx/v2/jwa"
	"github.com/lestrrat-go/jwx/v2/jwt"
	"google.golang.org/grpc/codes"

	configv1 "github.com/istio-ecosystem/authservice/config/gen/go/v1"
	mockv1 "github.com/istio-ecosystem/authservice/config/gen/go/v1/mock"
	oidcv1 "github.com/istio-ecosystem/authservice/config/gen/go/v1/oidc"
	"github.com/istio-ecosystem/authservice/internal"
	"github.com/istio-ecosystem/authservice/internal/oidc"
	"github.com/istio-ecosystem/authservice/internal/server"
	"github.com/istio-ecosystem/authservice/verifharness/gal"
)

func init() { props["C08"] = runC08 }

// scripted session store: "allow" filters hold an unexpired token for every id, "deny" ones nothing.
type scriptStore struct {
	tokens *oidc.TokenResponse
}

func (s *scriptStore) SetTokenResponse(context.Context, string, *oidc.TokenResponse) error { return nil }
func (s *scriptStore) GetTokenResponse(context.Context, string) (*oidc.TokenResponse, error) {
	return s.tokens, nil
}
func (s *scriptStore) SetAuthorizationState(context.Context, string, *oidc.AuthorizationState) error {
	return nil
}
func (s *scriptStore) GetAuthorizationState(context.Context, string) (*oidc.AuthorizationState, error) {
	return nil, nil
}
func (s *scriptStore) ClearAuthorizationState(context.Context, string) error { return nil }
func (s *scriptStore) RemoveSession(context.Context, string) error           { return nil }
func (s *scriptStore) RemoveAllExpired(context.Context) error                { return nil }

type spyFactory struct {
	mu     sync.Mutex
	stores map[string]oidc.SessionStore
	seen   []string
}

func (f *spyFactory) Get(cfg *oidcv1.OIDCConfig) oidc.SessionStore {
	f.mu.Lock()
	defer f.mu.Unlock()
	id := cfg.GetClientId()
	if n := len(f.seen); n == 0 || f.seen[n-1] != id {
		f.seen = append(f.seen, id)
	}
	return f.stores[id]
}

var freshJWT = func() string {
	tok, err := jwt.NewBuilder().Subject("u").Audience([]string{"x"}).Expiration(time.Now().Add(24 * time.Hour)).Build()
	must(err)
	b, err := jwt.Sign(tok, jwt.WithKey(jwa.HS256, []byte("k")))
	must(err)
	return string(b)
}()

type crit08 struct {
	present bool
	header  string
	kind    string // none eq prefix
	val     string
}
type chain08 struct {
	m       crit08
	filters []int
}
type case08 struct {
	kinds     []string // per filter id: mockallow mockdeny oidcallow oidcdeny oidcerr
	chains    []chain08
	au        bool
	triggered bool
	hdrVal    *string // value of request header x-tenant
}

func (k case08) config() (*configv1.Config, *spyFactory) {
	sf := &spyFactory{stores: map[string]oidc.SessionStore{}}
	cfg := &configv1.Config{AllowUnmatchedRequests: k.au,
		TriggerRules: []*configv1.TriggerRule{{ExcludedPaths: []*configv1.StringMatch{{MatchType: &configv1.StringMatch_Prefix{Prefix: "/public"}}}}}}
	for ci, ch := range k.chains {
		fc := &configv1.FilterChain{Name: fmt.Sprintf("c%d", ci)}
		if ch.m.present {
			fc.Match = &configv1.Match{Header: ch.m.header}
			switch ch.m.kind {
			case "eq":
				fc.Match.Criteria = &configv1.Match_Equality{Equality: ch.m.val}
			case "prefix":
				fc.Match.Criteria = &configv1.Match_Prefix{Prefix: ch.m.val}
			}
		}
		for _, f := range ch.filters {
			kind := k.kinds[f]
			switch kind {
			case "mockallow":
				fc.Filters = append(fc.Filters, &configv1.Filter{Type: &configv1.Filter_Mock{Mock: &mockv1.MockConfig{Allow: true}}})
			case "mockdeny":
				fc.Filters = append(fc.Filters, &configv1.Filter{Type: &configv1.Filter_Mock{Mock: &mockv1.MockConfig{Allow: false}}})
			default:
				id := fmt.Sprintf("f%d", f)
				oc := &oidcv1.OIDCConfig{
					AuthorizationUri: "https://idp.test/auth", TokenUri: "https://idp.test/token", CallbackUri: "https://app.test/cb",
					JwksConfig: &oidcv1.OIDCConfig_Jwks{Jwks: "{}"}, ClientId: id,
					ClientSecretConfig: &oidcv1.OIDCConfig_ClientSecret{ClientSecret: "s"},
					Scopes: []string{"openid"}, CookieNamePrefix: id,
					IdToken: &oidcv1.TokenConfig{Header: "x-id-" + id, Preamble: "Bearer"},
				}
				switch kind {
				case "oidcallow":
					sf.stores[id] = &scriptStore{tokens: &oidc.TokenResponse{IDToken: freshJWT}}
				case "oidcdeny":
					sf.stores[id] = &scriptStore{}
				case "oidcerr":
					oc.TrustedCaConfig = &oidcv1.OIDCConfig_TrustedCertificateAuthority{TrustedCertificateAuthority: "not a pem"}
				}
				fc.Filters = append(fc.Filters, &configv1.Filter{Type: &configv1.Filter_Oidc{Oidc: oc}})
			}
		}
		cfg.Chains = append(cfg.Chains, fc)
	}
	return cfg, sf
}

var tlsPool08 = internal.NewTLSConfigPool(context.Background())

// observe runs Check and classifies the answer; returns the Gallina obs term, evaluated OIDC ids.
func (k case08) observe() (string, []int, string) {
	cfg, sf := k.config()
	filter := server.NewExtAuthZFilter(cfg, tlsPool08, nil, sf)
	h := map[string]string{}
	if k.hdrVal != nil {
		h["x-tenant"] = *k.hdrVal
	}
	var cookies []string
	for f := range k.kinds {
		cookies = append(cookies, fmt.Sprintf("__Host-f%d-authservice-session-id-cookie=sess%d", f, f))
	}
	h["cookie"] = strings.Join(cookies, "; ")
	path := "/x"
	if !k.triggered {
		path = "/public/x"
	}
	// the verdict must not depend on what the same filter instance judged before: layouts with several chains are first
	// asked about other header values (a different last one per layout), then about the one under test
	if len(k.chains) >= 2 {
		warm := []string{"", "a", "ab", "b", "zz"}
		off := len(k.kinds) + len(k.chains)
		if k.hdrVal != nil {
			off += len(*k.hdrVal)
		}
		for i := 0; i < 3; i++ {
			hw := map[string]string{"cookie": h["cookie"]}
			if v := warm[(off+i)%len(warm)]; v != "zz" || i%2 == 0 {
				hw["x-tenant"] = v
			}
			_, _ = filter.Check(bg, mkReq("https", "app.test", "/x", hw))
		}
		sf.seen = nil
	}
	resp, err := filter.Check(bg, mkReq("https", "app.test", path, h))
	var seen []int
	for _, s := range sf.seen {
		var n int
		fmt.Sscanf(s, "f%d", &n)
		seen = append(seen, n)
	}
	if err != nil {
		return "OError", seen, "error"
	}
	if codes.Code(resp.GetStatus().GetCode()) == codes.OK {
		return "OAllow", seen, "allow"
	}
	if loc := hdrs(resp.GetDeniedResponse().GetHeaders())["location"]; len(loc) > 0 {
		u, _ := url.Parse(loc[0])
		var n int
		fmt.Sscanf(u.Query().Get("client_id"), "f%d", &n)
		return fmt.Sprintf("(ODeniedOidc %d)", n), seen, "denied-oidc"
	}
	if resp.GetStatus().GetMessage() == "no chains matched" {
		return "ONoChain", seen, "no-chain"
	}
	return "ODeniedMock", seen, "denied-mock"
}

var kindGal = map[string]string{"mockallow": "KMockAllow", "mockdeny": "KMockDeny", "oidcallow": "KOidcAllow", "oidcdeny": "KOidcDeny", "oidcerr": "KOidcErr"}

func (k case08) gal(obs string, seen []int) string {
	var kinds, chains []string
	for _, kd := range k.kinds {
		kinds = append(kinds, kindGal[kd])
	}
	for _, ch := range k.chains {
		m := "None"
		if ch.m.present {
			cr := "CritNone"
			switch ch.m.kind {
			case "eq":
				cr = "(CritEq " + gal.S(ch.m.val) + ")"
			case "prefix":
				cr = "(CritPrefix " + gal.S(ch.m.val) + ")"
			}
			m = "(Some " + gal.Rec("m_header", gal.S(ch.m.header), "m_crit", cr) + ")"
		}
		chains = append(chains, gal.Rec("c_match", m, "c_filters", gal.Ns(ch.filters)))
	}
	var hs []string
	if k.hdrVal != nil {
		hs = append(hs, gal.Pair(gal.S("x-tenant"), gal.S(*k.hdrVal)))
	}
	hs = append(hs, gal.Pair(gal.S("cookie"), gal.S("c")))
	return gal.Rec("k_kinds", gal.L(kinds), "k_chains", gal.L(chains), "k_allow_unmatched", gal.B(k.au),
		"k_triggered", gal.B(k.triggered), "k_headers", gal.L(hs), "k_obs", obs, "k_seen", gal.Ns(seen))
}

func (k case08) descr() any {
	var chains []any
	for _, ch := range k.chains {
		m := "no criterion"
		if ch.m.present {
			m = fmt.Sprintf("%s %s %q", ch.m.header, ch.m.kind, ch.m.val)
		}
		var fs []string
		for _, f := range ch.filters {
			fs = append(fs, fmt.Sprintf("%d:%s", f, k.kinds[f]))
		}
		chains = append(chains, map[string]any{"match": m, "filters": fs})
	}
	hv := "(absent)"
	if k.hdrVal != nil {
		hv = fmt.Sprintf("%q", *k.hdrVal)
	}
	return map[string]any{"chains": chains, "allow_unmatched": k.au, "triggered": k.triggered, "x-tenant": hv}
}

func runC08(c *Ctx) {
	r := newRand(c.Seed, 8)
	hdrNames := []string{"x-tenant", "X-Tenant", "X-TENANT", "x-other"}
	vals := []string{"", "a", "ab", "b"}
	var crits []crit08
	crits = append(crits, crit08{})
	for _, h := range hdrNames[:2] {
		crits = append(crits, crit08{present: true, header: h, kind: "none"})
		for _, v := range vals {
			crits = append(crits, crit08{true, h, "eq", v}, crit08{true, h, "prefix", v})
		}
	}
	allKinds := []string{"mockallow", "mockdeny", "oidcallow", "oidcdeny", "oidcerr"}
	hv := func(i int) *string {
		if i == 0 {
			return nil
		}
		s := vals[i-1]
		return &s
	}
	var all []case08
	// exhaustive: one chain, every criterion x every filter list of length 0..2 x header value x flag x triggered
	var flists [][]string
	flists = append(flists, nil)
	for _, a := range allKinds {
		flists = append(flists, []string{a})
		for _, b := range allKinds {
			flists = append(flists, []string{a, b})
		}
	}
	for _, cr := range crits {
		for _, fl := range flists {
			for h := 0; h <= len(vals); h++ {
				for _, au := range []bool{false, true} {
					trig := true
					if len(fl) == 1 && h == 1 { // a slice of untriggered requests
						trig = false
					}
					ids := make([]int, len(fl))
					for i := range fl {
						ids[i] = i
					}
					all = append(all, case08{kinds: fl, chains: []chain08{{cr, ids}}, au: au, triggered: trig, hdrVal: hv(h)})
				}
			}
		}
	}
	nExh := len(all)
	// random: 2..4 chains, 1..3 filters each
	nRand := 6000
	if c.Thorough() {
		nRand = 120000
	}
	for i := 0; i < nRand; i++ {
		nc := 2 + r.Intn(3)
		if r.Intn(20) == 0 {
			nc = 0
		}
		k := case08{au: r.Intn(2) == 0, triggered: r.Intn(10) != 0, hdrVal: hv(r.Intn(len(vals) + 1))}
		for ci := 0; ci < nc; ci++ {
			cr := crits[r.Intn(len(crits))]
			if cr.present && r.Intn(6) == 0 {
				cr.header = hdrNames[2+r.Intn(2)]
			}
			ch := chain08{m: cr}
			nf := 1 + r.Intn(3)
			if r.Intn(15) == 0 {
				nf = 0
			}
			for j := 0; j < nf; j++ {
				kd := allKinds[r.Intn(len(allKinds))]
				if kd == "oidcerr" && r.Intn(2) == 0 {
					kd = "mockallow"
				}
				ch.filters = append(ch.filters, len(k.kinds))
				k.kinds = append(k.kinds, kd)
			}
			k.chains = append(k.chains, ch)
		}
		all = append(all, k)
	}
	c.Sum.Rule = fmt.Sprintf("exhaustive: 1 chain x %d criteria (absent/none/equality/prefix over values \"\",a,ab,b; header-name case variants) x %d filter lists "+
		"(length 0-2 over mock-allow, mock-deny, oidc-allow, oidc-deny, oidc-construction-error) x 5 header values x allow_unmatched = %d layouts; "+
		"random: %d layouts with 0,2-4 chains x 0-3 filters. distinct_nontrivial = distinct (layout shape, header value, observed verdict, evaluated OIDC filters) "+
		"with at least one chain carrying a criterion", len(crits), len(flists), nExh, nRand)
	per := (len(all) + 15) / 16
	if per > 1500 {
		per = 1500
	}
	var cases []string
	var descr []any
	for i, k := range all {
		obs, seen, cls := k.observe()
		c.Sum.Evaluations++
		c.Hist("verdict", cls)
		c.Hist("chains", fmt.Sprint(len(k.chains)))
		nontrivial := false
		for _, ch := range k.chains {
			if ch.m.present {
				nontrivial = true
			}
		}
		if nontrivial {
			c.Distinct(fmt.Sprintf("%v|%s|%v", k.descr(), obs, seen))
		}
		cases = append(cases, k.gal(obs, seen))
		d := k.descr().(map[string]any)
		d["observed"] = map[string]any{"verdict": obs, "oidc_filters_evaluated": seen}
		descr = append(descr, d)
		if i%(len(all)/5+1) == 7 {
			c.Sample(d)
		}
		if len(cases) == per {
			c.WriteShard("Server.Chain Corr.C08", "case08", cases, descr)
			cases, descr = nil, nil
		}
	}
	if len(cases) > 0 {
		c.WriteShard("Server.Chain Corr.C08", "case08", cases, descr)
	}
}
