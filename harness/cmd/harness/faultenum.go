package main

// faultenum.go — systematic fault-point enumeration: for each base scenario, a store fault (before / after
// taking effect) at every call index of the interesting request, singly and (thorough) in pairs, and a
// key-lookup failure; followed by two healthy requests with the same cookie, which expose anything the
// faulted request left behind.

import (
	"fmt"
	"time"
)

type baseScenario struct {
	Name string
	// prepare brings the sim to the state just before the interesting request and returns that request's path
	Prepare func(s *Sim) string
	Beh     []idpBehaviour // provider behaviours to try for the interesting request
}

func forged(sig string) idpBehaviour {
	b := compliant()
	b.Sig = sig
	b.IDLife = 3600
	b.ExpiresIn = 3600
	return b
}

func baseScenarios() []baseScenario {
	loginShort := func(s *Sim) {
		b := compliant()
		b.IDLife, b.ExpiresIn = 120, 60
		s.Login("/app", b)
	}
	status := compliant()
	status.Kind = "status"
	noRefresh := compliant()
	noRefresh.Refresh = false
	noRefresh.IDLife, noRefresh.ExpiresIn = 120, 60
	return []baseScenario{
		{Name: "fresh-session", Prepare: func(s *Sim) string { loginShort(s); s.Tick(10 * time.Second); return "/app/x?y=1" }, Beh: []idpBehaviour{compliant()}},
		{Name: "expired-refreshable", Prepare: func(s *Sim) string { loginShort(s); s.Tick(200 * time.Second); return "/app" },
			Beh: []idpBehaviour{compliant(), forged("foreign"), forged("none"), forged("tampered"), status}},
		{Name: "expired-no-refresh", Prepare: func(s *Sim) string { s.Login("/app", noRefresh); s.Tick(200 * time.Second); return "/app" }, Beh: []idpBehaviour{compliant()}},
		{Name: "callback", Prepare: func(s *Sim) string { s.Visit("/app?a=b"); return s.Authorize() }, Beh: []idpBehaviour{compliant(), forged("foreign"), forged("hs-pub")}},
		{Name: "logout", Prepare: func(s *Sim) string { loginShort(s); return "/logout" }, Beh: []idpBehaviour{compliant()}},
		{Name: "unknown-cookie", Prepare: func(s *Sim) string { s.Jar = "attacker-chosen"; return "/app" }, Beh: []idpBehaviour{compliant()}},
		{Name: "pending-visit", Prepare: func(s *Sim) string { s.Visit("/app"); return "/other" }, Beh: []idpBehaviour{compliant()}},
	}
}

// runFaultEnum appends the enumerated histories to the cases of the current property.
func runFaultEnum(c *Ctx, stores []string) {
	var cases []string
	var descr []any
	flush := func() {
		if len(cases) > 0 {
			c.WriteShard("Oidc.Types Corr.Hist Corr."+c.Prop, "hist", cases, descr)
			cases, descr = nil, nil
		}
	}
	n := 0
	type placement struct {
		f   map[int]faultKind
		jf  bool
		cmd string // Redis: a command of this name fails inside the real store (the server is not reached)
	}
	var places []placement
	places = append(places, placement{nil, false, ""}, placement{nil, true, ""})
	for _, cmd := range []string{"del", "hset", "hsetnx", "hdel", "hmget", "hget", "expireat", "exists"} {
		places = append(places, placement{nil, false, cmd})
	}
	for i := 0; i < 6; i++ {
		for _, k := range []faultKind{failBefore, failAfter} {
			places = append(places, placement{map[int]faultKind{i: k}, false, ""})
		}
	}
	if c.Thorough() {
		for i := 0; i < 6; i++ {
			for j := i + 1; j < 6; j++ {
				for _, k1 := range []faultKind{failBefore, failAfter} {
					for _, k2 := range []faultKind{failBefore, failAfter} {
						places = append(places, placement{map[int]faultKind{i: k1, j: k2}, false, ""})
					}
				}
			}
		}
	}
	for si, sc := range baseScenarios() {
		for bi, beh := range sc.Beh {
			for pi, pl := range places {
				for sti, store := range stores {
					if !c.Thorough() && (pi+sti)%2 == 1 && len(pl.f) > 0 { // quick: alternate stores over the placements
						continue
					}
					if pl.cmd != "" && store != "redis" {
						continue
					}
					n++
					o := cfgVariants[(si+bi)%2]
					o.Store = store
					if pl.cmd != "" { // with session timeouts the store also issues EXPIREAT / HGET time_added
						o.Abs, o.Idle = 3600, 600
					}
					w := newWorld(c.Seed*131+int64(n), o)
					s := newSim(w, newRand(c.Seed, int64(7000+n)))
					path := sc.Prepare(s)
					s.beh = beh
					before := s.Jar
					if pl.cmd != "" {
						w.NextCmdFaults = []string{pl.cmd}
					}
					s.request(reqSpec{Scheme: "https", Host: s.AppHost, Path: path, Cookie: s.cookie(s.Jar)}, pl.f, pl.jf)
					s.beh = compliant()
					s.Visit("/app")
					s.Tick(time.Second)
					s.Visit("/after")
					// and the cookie held BEFORE the faulted request, whatever the browser was told to do with it since
					s.request(reqSpec{Scheme: "https", Host: s.AppHost, Path: "/replayed", Cookie: s.cookie(before)}, nil, false)
					c.Sum.Evaluations += len(s.Steps)
					c.Hist("fault_enum_scenario", sc.Name)
					key, _ := s.projKey()
					c.Distinct("FE|" + key)
					if c.Prop == "C01" && len(w.OKDespiteCmdFault) > 0 {
						c.Sum.GoFindings = append(c.Sum.GoFindings, Finding{Signature: "C01/ok-despite-failed-redis-command",
							What:   "a check during which a command of the session store's Redis connection failed was answered OK: " + w.OKDespiteCmdFault[0],
							Replay: s.descr(map[string]any{"ok_despite_command_fault": w.OKDespiteCmdFault, "scenario": sc.Name, "redis_command_fault": pl.cmd})})
					}
					cases = append(cases, s.galHist())
					d := s.descr(map[string]any{"fault_enum": fmt.Sprintf("%s / provider=%s / faults=%v jwks_fail=%v redis_command_fault=%q", sc.Name, beh.label(), pl.f, pl.jf, pl.cmd)})
					descr = append(descr, d)
					w.Close()
					if len(cases) == 60 {
						flush()
					}
				}
			}
		}
	}
	flush()
}
