package main

// c13b.go — C13 "scope (always containing openid)" for configurations AS LOADED: documents whose scopes list tokens that
// merely contain the letters "openid", or contain it in another case, or not at all, go through the real loader
// (LocalConfigFile.Validate) and the real handler; the scope parameter of the login redirect, split at spaces, must hold
// the token "openid" and every configured scope.

import (
	"context"
	"encoding/json"
	"fmt"
	"net/url"
	"os"
	"strings"

	"github.com/istio-ecosystem/authservice/internal"
	"github.com/istio-ecosystem/authservice/internal/authz"
	"github.com/istio-ecosystem/authservice/internal/oidc"

	envoy "github.com/envoyproxy/go-control-plane/envoy/service/auth/v3"
)

func loadedScopes(c *Ctx) {
	dir, err := os.MkdirTemp(c.Out, "c13cfg")
	must(err)
	lists := [][]string{nil, {"openid"}, {"email"}, {"openid4vci", "email"}, {"myopenid"}, {"https://idp.example/scopes/openid.read"}, {"OpenID", "profile"},
		{"profile", "openid"}, {"open id"}, {"xopenidx", "openid"}}
	for i, scopes := range lists {
		doc := map[string]any{"listen_address": "0.0.0.0", "listen_port": 10003, "log_level": "info", "threads": 1,
			"chains": []any{map[string]any{"name": "c", "filters": []any{map[string]any{"oidc": map[string]any{
				"authorization_uri": "https://idp.test/auth", "token_uri": "https://idp.test/token", "callback_uri": "https://app.test/callback",
				"jwks": "{\"keys\":[]}", "client_id": "client", "client_secret": "s", "scopes": scopes,
				"id_token": map[string]any{"preamble": "Bearer", "header": "authorization"}}}}}}}
		raw, _ := json.Marshal(doc)
		cls, cfg, msg := loadDoc(dir, 900+i, raw)
		c.Sum.Evaluations++
		if cls != 0 {
			c.Hist("loaded_scopes", "refused: "+fmt.Sprint(scopes))
			_ = msg
			continue
		}
		o := cfg.Chains[0].Filters[0].GetOidc()
		clock := oidc.Clock{}
		tlsPool := internal.NewTLSConfigPool(context.Background())
		store := oidc.NewMemoryStore(&clock, 0, 0)
		h, err := authz.NewOIDCHandler(o, tlsPool, oidc.NewJWKSProvider(cfg, tlsPool), oneStoreFactory{store}, clock, oidc.NewRandomGenerator())
		if err != nil {
			continue
		}
		resp := &envoy.CheckResponse{}
		if err := h.Process(context.Background(), mkReq("https", "app.test", "/app", nil), resp); err != nil {
			continue
		}
		loc := ""
		for _, hd := range resp.GetDeniedResponse().GetHeaders() {
			if hd.GetHeader().GetKey() == "location" {
				loc = hd.GetHeader().GetValue()
			}
		}
		u, perr := url.Parse(loc)
		if perr != nil {
			continue
		}
		got := strings.Split(u.Query().Get("scope"), " ")
		has := func(x string) bool {
			for _, g := range got {
				if g == x {
					return true
				}
			}
			return false
		}
		missing := []string{}
		if !has("openid") {
			missing = append(missing, "openid")
		}
		if !(len(scopes) == 1 && strings.Contains(scopes[0], " ")) {
			for _, sc := range scopes {
				if !has(sc) {
					missing = append(missing, sc)
				}
			}
		}
		c.Hist("loaded_scopes", fmt.Sprintf("accepted: %v", scopes))
		if len(missing) > 0 {
			c.Sum.GoFindings = append(c.Sum.GoFindings, Finding{Signature: "C13/scope-of-the-loaded-configuration",
				What:   fmt.Sprintf("configured scopes %q, loaded and used for a login redirect: the scope parameter %q lacks %q", scopes, u.Query().Get("scope"), missing),
				Replay: map[string]any{"configured_scopes": scopes, "location": loc}})
		}
	}
}
