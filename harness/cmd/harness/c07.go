package main

import (
	"fmt"
	"math/rand"
	"strings"

	"google.golang.org/grpc/codes"

	configv1 "github.com/istio-ecosystem/authservice/config/gen/go/v1"
	mockv1 "github.com/istio-ecosystem/authservice/config/gen/go/v1/mock"
	"github.com/istio-ecosystem/authservice/internal/server"
	"github.com/istio-ecosystem/authservice/verifharness/gal"
)

func init() { props["C07"] = runC07 }

// ---- regex sub-grammar: AST printed both as RE2 text and as a Gallina term ----
type reNode struct {
	op   string // chr dot cat alt star eps
	c    byte
	a, b *reNode
}

func (n *reNode) text() string {
	switch n.op {
	case "chr":
		if strings.ContainsRune(`.?*+()|[]{}^$\#/`, rune(n.c)) {
			return `\` + string(n.c)
		}
		return string(n.c)
	case "dot":
		return "."
	case "eps":
		return "(?:)"
	case "cat":
		return n.a.text() + n.b.text()
	case "alt":
		return "(?:" + n.a.text() + "|" + n.b.text() + ")"
	case "star":
		return "(?:" + n.a.text() + ")*"
	}
	panic("op")
}

func (n *reNode) gal() string {
	switch n.op {
	case "chr":
		return fmt.Sprintf("(RChr (ascii_of_nat %d))", n.c)
	case "dot":
		return "RDot"
	case "eps":
		return "REps"
	case "cat":
		return "(RCat " + n.a.gal() + " " + n.b.gal() + ")"
	case "alt":
		return "(RAlt " + n.a.gal() + " " + n.b.gal() + ")"
	case "star":
		return "(RStar " + n.a.gal() + ")"
	}
	panic("op")
}

func genRe(r *rand.Rand, alpha string, depth int) *reNode {
	if depth == 0 || r.Intn(3) == 0 {
		switch r.Intn(5) {
		case 0:
			return &reNode{op: "dot"}
		default:
			return &reNode{op: "chr", c: alpha[r.Intn(len(alpha))]}
		}
	}
	switch r.Intn(4) {
	case 0:
		return &reNode{op: "alt", a: genRe(r, alpha, depth-1), b: genRe(r, alpha, depth-1)}
	case 1:
		return &reNode{op: "star", a: genRe(r, alpha, depth-1)}
	default:
		return &reNode{op: "cat", a: genRe(r, alpha, depth-1), b: genRe(r, alpha, depth-1)}
	}
}

type sm struct {
	kind string // exact prefix suffix regex unset
	s    string
}

func (m sm) proto() *configv1.StringMatch {
	switch m.kind {
	case "exact":
		return &configv1.StringMatch{MatchType: &configv1.StringMatch_Exact{Exact: m.s}}
	case "prefix":
		return &configv1.StringMatch{MatchType: &configv1.StringMatch_Prefix{Prefix: m.s}}
	case "suffix":
		return &configv1.StringMatch{MatchType: &configv1.StringMatch_Suffix{Suffix: m.s}}
	case "regex":
		return &configv1.StringMatch{MatchType: &configv1.StringMatch_Regex{Regex: m.s}}
	}
	return &configv1.StringMatch{}
}

func (m sm) gal() string {
	switch m.kind {
	case "exact":
		return "(MExact " + gal.S(m.s) + ")"
	case "prefix":
		return "(MPrefix " + gal.S(m.s) + ")"
	case "suffix":
		return "(MSuffix " + gal.S(m.s) + ")"
	case "regex":
		return "(MRegex " + gal.S(m.s) + ")"
	}
	return "MUnset"
}

type rule07 struct{ exc, inc []sm }

type c07gen struct {
	r     *rand.Rand
	alpha string
	table map[string]string // regex text -> Gallina regex record
}

func (g *c07gen) pattern() sm {
	r := g.r
	kinds := []string{"exact", "prefix", "suffix", "regex", "prefix", "suffix", "exact", "unset"}
	k := kinds[r.Intn(len(kinds))]
	if k == "unset" && r.Intn(3) != 0 {
		k = "suffix"
	}
	if k == "regex" {
		if r.Intn(8) == 0 { // invalid pattern: MatchString returns false
			return sm{"regex", pick(r, []string{"(", "[", "*a", "a{2,1}", `\`})}
		}
		n := genRe(r, g.alpha, 2)
		al, ar := r.Intn(3) == 0, r.Intn(3) == 0
		txt := n.text()
		if al {
			txt = "^" + txt
		}
		if ar {
			txt = txt + "$"
		}
		g.table[txt] = gal.Rec("anch_l", gal.B(al), "body", n.gal(), "anch_r", gal.B(ar))
		return sm{"regex", txt}
	}
	// literal over the small alphabet, biased to short
	n := r.Intn(4)
	b := make([]byte, n)
	for i := range b {
		b[i] = g.alpha[r.Intn(len(g.alpha))]
	}
	return sm{k, string(b)}
}

func (g *c07gen) rules() []rule07 {
	r := g.r
	n := []int{0, 1, 1, 1, 2, 2, 3}[r.Intn(7)]
	out := make([]rule07, n)
	for i := range out {
		for j := r.Intn(3); j > 0; j-- {
			out[i].exc = append(out[i].exc, g.pattern())
		}
		for j := r.Intn(3); j > 0; j-- {
			out[i].inc = append(out[i].inc, g.pattern())
		}
	}
	return out
}

func triggered07(rules []rule07, target string) bool {
	cfg := &configv1.Config{
		Chains: []*configv1.FilterChain{{Name: "deny", Filters: []*configv1.Filter{
			{Type: &configv1.Filter_Mock{Mock: &mockv1.MockConfig{Allow: false}}}}}},
	}
	for _, ru := range rules {
		tr := &configv1.TriggerRule{}
		for _, m := range ru.exc {
			tr.ExcludedPaths = append(tr.ExcludedPaths, m.proto())
		}
		for _, m := range ru.inc {
			tr.IncludedPaths = append(tr.IncludedPaths, m.proto())
		}
		cfg.TriggerRules = append(cfg.TriggerRules, tr)
	}
	f := server.NewExtAuthZFilter(cfg, nil, nil, nil)
	resp, err := f.Check(bg, mkReq("https", "h", target, map[string]string{}))
	if err != nil {
		panic(err)
	}
	// the only chain denies: OK <=> authentication was not triggered
	return codes.Code(resp.GetStatus().GetCode()) != codes.OK
}

func galRules(rules []rule07) string {
	var rs []string
	for _, ru := range rules {
		var e, i []string
		for _, m := range ru.exc {
			e = append(e, m.gal())
		}
		for _, m := range ru.inc {
			i = append(i, m.gal())
		}
		rs = append(rs, gal.Rec("excluded", gal.L(e), "included", gal.L(i)))
	}
	return gal.L(rs)
}

func descRules(rules []rule07) any {
	var out []map[string][]string
	for _, ru := range rules {
		d := map[string][]string{"excluded": {}, "included": {}}
		for _, m := range ru.exc {
			d["excluded"] = append(d["excluded"], m.kind+":"+m.s)
		}
		for _, m := range ru.inc {
			d["included"] = append(d["included"], m.kind+":"+m.s)
		}
		out = append(out, d)
	}
	return out
}

func runC07(c *Ctx) {
	alpha := "/ab.?#"
	maxLen, nSets, nExtra := 5, 48, 60
	if c.Thorough() {
		maxLen, nSets, nExtra = 6, 400, 300
	}
	ws := wordsUpto(alpha, maxLen)
	r := newRand(c.Seed, 7)
	c.Sum.Rule = fmt.Sprintf("per rule set: ALL %d targets over alphabet %q up to length %d (exhaustive) plus %d random long ASCII targets; "+
		"rule sets: fixed corpus + random (0-3 rules x 0-2 excluded x 0-2 included; exact/prefix/suffix/regex/unset). "+
		"distinct_nontrivial = distinct (rule set, path component, decision) triples whose rule set is non-empty and target holds '?' or '#'", len(ws), alpha, maxLen, nExtra)

	// fixed corpus first: the documented bypass shapes
	corpus := [][]rule07{
		{},
		{{exc: []sm{{"suffix", ".a"}}, inc: []sm{{"prefix", "/a"}}}},
		{{exc: []sm{{"suffix", ".b"}}}},
		{{inc: []sm{{"exact", "/a"}}}},
		{{exc: []sm{{"prefix", "/b"}}}, {inc: []sm{{"suffix", "b"}}}},
		{{exc: []sm{{"exact", ""}}}},
		{{inc: []sm{{"unset", ""}}}},
	}
	perShard := 3
	var cases []string
	var descr []any
	flush := func() {
		if len(cases) > 0 {
			c.WriteShard("Server.Trigger Server.Regex Corr.C07", "case07", cases, descr)
			cases, descr = nil, nil
		}
	}
	for si := 0; si < nSets; si++ {
		g := &c07gen{r: r, alpha: alpha, table: map[string]string{}}
		var rules []rule07
		if si < len(corpus) {
			rules = corpus[si]
		} else {
			rules = g.rules()
		}
		bits := make([]byte, len(ws))
		for i, w := range ws {
			t := triggered07(rules, w)
			bits[i] = '0'
			if t {
				bits[i] = '1'
			}
			c.Sum.Evaluations++
			if len(rules) > 0 && strings.ContainsAny(w, "?#") {
				p := w[:strings.IndexAny(w, "?#")]
				c.Distinct(fmt.Sprintf("%d|%s|%v", si, p, t))
			}
		}
		var extra []string
		var extraD [][2]any
		for i := 0; i < nExtra; i++ {
			n := 1 + r.Intn(40)
			b := make([]byte, n)
			for j := range b {
				switch r.Intn(12) {
				case 0:
					b[j] = '?'
				case 1:
					b[j] = '#'
				case 2:
					b[j] = '/'
				case 3:
					b[j] = alpha[r.Intn(len(alpha))]
				case 4:
					b[j] = "\n\t %&=+;"[r.Intn(8)]
				default:
					b[j] = byte(0x21 + r.Intn(0x5e))
				}
			}
			t := triggered07(rules, string(b))
			c.Sum.Evaluations++
			extra = append(extra, gal.Pair(gal.S(string(b)), gal.B(t)))
			extraD = append(extraD, [2]any{string(b), t})
		}
		// URL-looking text after '?' and '#' (scheme separators, authorities, a second path)
		for _, p := range []string{"/a", "/b", "/ab", "/a.a", ""} {
			for _, tail := range []string{"?n=http://h/a", "?n=s://b/a.a", "#x://h/b", "#http://h/ab?q#r", "?u=//h/a", "#//b"} {
				tgt := p + tail
				t := triggered07(rules, tgt)
				c.Sum.Evaluations++
				extra = append(extra, gal.Pair(gal.S(tgt), gal.B(t)))
				extraD = append(extraD, [2]any{tgt, t})
			}
		}
		var tbl []string
		for txt, g := range g.table {
			tbl = append(tbl, gal.Pair(gal.S(txt), g))
		}
		cases = append(cases, gal.Rec("k_rules", galRules(rules), "k_regex", gal.L(tbl),
			"k_alpha", gal.S(alpha), "k_len", gal.N(maxLen), "k_bits", gal.Lit(string(bits)), "k_extra", gal.L(extra)))
		d := map[string]any{"rules": descRules(rules), "alpha": alpha, "len": maxLen, "extra": extraD}
		descr = append(descr, d)
		if si%9 == 1 {
			c.Sample(map[string]any{"rules": descRules(rules), "targets": "all words over " + alpha + " up to length " + fmt.Sprint(maxLen),
				"e.g.": []any{"/a?.a", triggered07(rules, "/a?.a"), "/a#b", triggered07(rules, "/a#b")}})
		}
		c.Hist("rules_per_set", fmt.Sprint(len(rules)))
		if len(cases) == perShard {
			flush()
		}
	}
	flush()

	// order / memoisation battery: the decision is a function of (rule set, path) alone, whatever was decided before.  Pairs
	// of evaluations whose pattern text + path concatenate to the same string but whose answers differ, in both orders,
	// each pair with patterns of its own (a process-wide cache keyed by anything coarser than the pair shows up here)
	lit := func(s string) *reNode {
		var n *reNode
		for i := 0; i < len(s); i++ {
			var x *reNode
			if s[i] == '.' {
				x = &reNode{op: "dot"}
			} else {
				x = &reNode{op: "chr", c: s[i]}
			}
			if n == nil {
				n = x
			} else {
				n = &reNode{op: "cat", a: n, b: x}
			}
		}
		return n
	}
	nb := 24
	if c.Thorough() {
		nb = 200
	}
	for i := 0; i < nb; i++ {
		short, ext := fmt.Sprintf(".k%d", i), fmt.Sprintf(".k%d.s", i) // "^.kN" and "^.kN.s"
		p2 := fmt.Sprintf("/k%d/s/t", i)                               // matched by the longer pattern
		p1 := ".s" + p2                                                // "^.kN" + p1 == "^.kN.s" + p2, not matched by the shorter one
		type ev struct {
			re, target string
		}
		order := []ev{{short, p1}, {ext, p2}}
		if i%2 == 1 {
			order = []ev{{ext, p2}, {short, p1}}
		}
		kinds := []string{"inc", "exc"}
		for _, e := range order {
			n := lit(e.re)
			txt := "^" + n.text()
			m := sm{"regex", txt}
			rules := []rule07{{inc: []sm{m}}}
			if kinds[(i/2)%2] == "exc" {
				rules = []rule07{{exc: []sm{m}}}
			}
			t0 := triggered07(rules, "")
			t := triggered07(rules, e.target+"?x=1")
			c.Sum.Evaluations += 2
			b0 := "0"
			if t0 {
				b0 = "1"
			}
			cases = append(cases, gal.Rec("k_rules", galRules(rules), "k_regex", gal.L([]string{gal.Pair(gal.S(txt), gal.Rec("anch_l", gal.B(true), "body", n.gal(), "anch_r", gal.B(false)))}),
				"k_alpha", gal.S(alpha), "k_len", gal.N(0), "k_bits", gal.Lit(b0), "k_extra", gal.L([]string{gal.Pair(gal.S(e.target+"?x=1"), gal.B(t))})))
			descr = append(descr, map[string]any{"rules": descRules(rules), "alpha": alpha, "len": 0, "extra": [][2]any{{e.target + "?x=1", t}}, "battery": "order/memoisation", "pair": i})
			c.Hist("order_battery", fmt.Sprintf("%s first=%v", kinds[(i/2)%2], order[0].re == short))
		}
		if len(cases) >= 12 {
			flush()
		}
	}
	flush()
}
