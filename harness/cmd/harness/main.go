// Command harness drives the real authservice code (the current /repo working tree) over generated
// inputs and writes (a) cases_<n>.v files in which the implementation's observations sit next to
// the inputs, for evaluation against the Coq model, and (b) summary.json with what was explored.
package main

import (
	"encoding/json"
	"flag"
	"fmt"
	"os"
	"path/filepath"
	"sort"
	"strings"

	"github.com/istio-ecosystem/authservice/verifharness/gal"
)

type Summary struct {
	Property    string         `json:"property"`
	Tier        string         `json:"tier"`
	Seed        int64          `json:"seed"`
	Evaluations int            `json:"evaluations"`
	Distinct    int            `json:"distinct_nontrivial"`
	Rule        string         `json:"rule"`
	Samples     []any          `json:"samples"`
	Histograms  map[string]any `json:"histograms,omitempty"`
	Shards      []string       `json:"shards"`
	// GoFindings are violations the harness can see by itself (panics, races, handshakes ...).
	GoFindings []Finding `json:"go_findings"`
	Notes      []string  `json:"notes,omitempty"`
}

type Finding struct {
	Signature string `json:"signature"` // structural id, matched against known_findings.json
	What      string `json:"what"`
	Replay    any    `json:"replay"`
	// FoundInput: false when the finding names something that no longer checks but carries no concrete failing input
	FoundInput *bool `json:"found_input,omitempty"`
}

type Ctx struct {
	Prop, Tier, Out string
	Seed            int64
	Sum             *Summary
	distinct        map[string]bool
	shardN          int
}

func (c *Ctx) Thorough() bool { return c.Tier == "thorough" }

// Distinct records a projected-trace key; nontrivial ones are counted once.
func (c *Ctx) Distinct(key string) { c.distinct[key] = true }

func (c *Ctx) Hist(name, key string) {
	if c.Sum.Histograms == nil {
		c.Sum.Histograms = map[string]any{}
	}
	h, _ := c.Sum.Histograms[name].(map[string]int)
	if h == nil {
		h = map[string]int{}
		c.Sum.Histograms[name] = h
	}
	h[key]++
}

func (c *Ctx) Sample(v any) {
	if len(c.Sum.Samples) < 6 {
		c.Sum.Samples = append(c.Sum.Samples, v)
	}
}

// WriteShard writes one cases file: imports, `cases` and the evaluation command.
// descr[i] describes case i for replays.
func (c *Ctx) WriteShard(imports, caseType string, cases []string, descr []any) {
	name := fmt.Sprintf("cases_%03d", c.shardN)
	c.shardN++
	var b strings.Builder
	b.WriteString("From AS Require Import Base.Str Corr.Common " + imports + ".\n")
	b.WriteString("From Coq Require Import Uint63.\nOpen Scope string_scope.\n")
	for _, d := range gal.InternDefs() {
		b.WriteString(d + "\n")
	}
	gal.ResetIntern()
	for i, cs := range cases {
		fmt.Fprintf(&b, "Definition c%d : %s := %s.\n", i, caseType, cs)
	}
	b.WriteString("Definition cases : list " + caseType + " := [")
	for i := range cases {
		if i > 0 {
			b.WriteString("; ")
		}
		fmt.Fprintf(&b, "c%d", i)
	}
	b.WriteString("].\n")
	b.WriteString("Definition R := Eval vm_compute in run cases.\nPrint R.\n")
	must(os.WriteFile(filepath.Join(c.Out, name+".v"), []byte(b.String()), 0o644))
	js, _ := json.Marshal(descr)
	must(os.WriteFile(filepath.Join(c.Out, name+".json"), js, 0o644))
	c.Sum.Shards = append(c.Sum.Shards, name)
}

// WriteShardWith: like WriteShard, with extra definitions before the cases and a custom expression to evaluate.
func (c *Ctx) WriteShardWith(imports, caseType string, cases []string, descr []any, preamble, runExpr string) {
	name := fmt.Sprintf("cases_%03d", c.shardN)
	c.shardN++
	var b strings.Builder
	b.WriteString("From AS Require Import Base.Str Corr.Common " + imports + ".\n")
	b.WriteString("From Coq Require Import Uint63.\nOpen Scope string_scope.\n")
	var body strings.Builder
	for i, cs := range cases {
		fmt.Fprintf(&body, "Definition c%d : %s := %s.\n", i, caseType, cs)
	}
	for _, d := range gal.InternDefs() {
		b.WriteString(d + "\n")
	}
	gal.ResetIntern()
	b.WriteString(preamble)
	b.WriteString(body.String())
	b.WriteString("Definition cases : list " + caseType + " := [")
	for i := range cases {
		if i > 0 {
			b.WriteString("; ")
		}
		fmt.Fprintf(&b, "c%d", i)
	}
	b.WriteString("].\n")
	b.WriteString("Definition R := Eval vm_compute in " + runExpr + ".\nPrint R.\n")
	must(os.WriteFile(filepath.Join(c.Out, name+".v"), []byte(b.String()), 0o644))
	js, _ := json.Marshal(descr)
	must(os.WriteFile(filepath.Join(c.Out, name+".json"), js, 0o644))
	c.Sum.Shards = append(c.Sum.Shards, name)
}

func must(err error) {
	if err != nil {
		panic(err)
	}
}

var props = map[string]func(*Ctx){}

func main() {
	tier := flag.String("tier", "quick", "quick|thorough")
	seed := flag.Int64("seed", 1, "PRNG seed")
	out := flag.String("out", "", "output directory")
	flag.Parse()
	if flag.NArg() != 1 || *out == "" {
		ids := []string{}
		for k := range props {
			ids = append(ids, k)
		}
		sort.Strings(ids)
		fmt.Fprintln(os.Stderr, "usage: harness -out dir [-tier t] [-seed n] <property>; properties:", ids)
		os.Exit(2)
	}
	id := flag.Arg(0)
	f, ok := props[id]
	if !ok {
		fmt.Fprintln(os.Stderr, "unknown property", id)
		os.Exit(2)
	}
	must(os.MkdirAll(*out, 0o755))
	c := &Ctx{Prop: id, Tier: *tier, Out: *out, Seed: *seed, distinct: map[string]bool{},
		Sum: &Summary{Property: id, Tier: *tier, Seed: *seed, GoFindings: []Finding{}, Samples: []any{}, Shards: []string{}}}
	f(c)
	c.Sum.Distinct = len(c.distinct)
	js, _ := json.MarshalIndent(c.Sum, "", " ")
	must(os.WriteFile(filepath.Join(*out, "summary.json"), js, 0o644))
}
