package main

// c19.go — C19 (Kubernetes client-secret updates): random configurations mapping filters to Secret names and random
// histories of create / update / delete / key-less / foreign-namespace events, each followed by the Reconcile call the
// controller manager would make, against controller-runtime's fake client; every filter's effective client secret is
// read after every event.

import (
	"context"
	"fmt"
	mrand "math/rand"
	"net/http"
	"net/http/httptest"
	"sync"
	"time"

	envoy "github.com/envoyproxy/go-control-plane/envoy/service/auth/v3"
	corev1 "k8s.io/api/core/v1"
	metav1 "k8s.io/apimachinery/pkg/apis/meta/v1"
	"k8s.io/apimachinery/pkg/types"
	ctrl "sigs.k8s.io/controller-runtime"
	"sigs.k8s.io/controller-runtime/pkg/client"
	"sigs.k8s.io/controller-runtime/pkg/client/fake"

	configv1 "github.com/istio-ecosystem/authservice/config/gen/go/v1"
	mockv1 "github.com/istio-ecosystem/authservice/config/gen/go/v1/mock"
	oidcv1 "github.com/istio-ecosystem/authservice/config/gen/go/v1/oidc"
	"github.com/istio-ecosystem/authservice/internal"
	"github.com/istio-ecosystem/authservice/internal/authz"
	"github.com/istio-ecosystem/authservice/internal/k8s"
	"github.com/istio-ecosystem/authservice/internal/oidc"
	"github.com/istio-ecosystem/authservice/verifharness/gal"
)

type k8sEvent struct {
	Kind     string // apply resync
	NS, Name string
	Present  bool
	Deleting bool
	HasKey   bool
	Value    string
}

func (e k8sEvent) gal() string {
	if e.Kind == "resync" {
		return gal.App("EvResync", gal.S(e.NS), gal.S(e.Name))
	}
	o := "None"
	if e.Present {
		d := "None"
		if e.HasKey {
			d = "(Some " + gal.S(e.Value) + ")"
		}
		o = "(Some " + gal.Rec("so_deleting", gal.B(e.Deleting), "so_data", d) + ")"
	}
	return gal.App("EvApply", gal.S(e.NS), gal.S(e.Name), o)
}

func (e k8sEvent) String() string {
	if e.Kind == "resync" {
		return fmt.Sprintf("resync %s/%s", e.NS, e.Name)
	}
	if !e.Present {
		return fmt.Sprintf("delete %s/%s", e.NS, e.Name)
	}
	return fmt.Sprintf("apply %s/%s deleting=%v key=%v value=%q", e.NS, e.Name, e.Deleting, e.HasKey, e.Value)
}

// applySecret makes the cluster's Secret ns/name what the event says.
func applySecret(c client.Client, e k8sEvent) {
	ctx := context.Background()
	old := &corev1.Secret{}
	if err := c.Get(ctx, types.NamespacedName{Namespace: e.NS, Name: e.Name}, old); err == nil {
		if len(old.Finalizers) > 0 {
			old.Finalizers = nil
			_ = c.Update(ctx, old)
		}
		_ = c.Delete(ctx, old)
	}
	if !e.Present {
		return
	}
	s := &corev1.Secret{ObjectMeta: metav1.ObjectMeta{Namespace: e.NS, Name: e.Name}, Data: map[string][]byte{"other-key": []byte("x")}}
	if e.HasKey {
		s.Data["client-secret"] = []byte(e.Value)
	}
	if e.Deleting {
		s.Finalizers = []string{"verif/hold"}
	}
	must(c.Create(ctx, s))
	if e.Deleting {
		must(c.Delete(ctx, s)) // with a finalizer: only the deletion timestamp is set
	}
}

func runC19(c *Ctx) {
	c.Sum.Rule = "random configurations (1-4 OIDC filters + mocks over 1-3 chains; client secrets literal, or references to shared / distinct / empty-named Secrets, namespace empty / own / foreign) and " +
		"random histories of 4-25 events (create, update, delete, being-deleted, key-less and empty-valued Secrets, in the own and in foreign namespaces, referenced and unrelated names, resyncs), " +
		"each followed by Reconcile against controller-runtime's fake client; after every event every filter's GetClientSecret() is read; for a sample the Authorization header of a real code exchange is read too; " +
		"distinct_nontrivial = distinct (sources, event kinds, observed values) histories in which some secret changed"
	const cns = "authservice-ns"
	r := newRand(c.Seed, 19)
	n := 600
	if c.Thorough() {
		n = 12000
	}
	var cases []string
	var descr []any
	names := []string{"sec-a", "sec-b", "sec-c"}
	for i := 0; i < n; i++ {
		// configuration
		cfg := &configv1.Config{}
		var oidcs []*oidcv1.OIDCConfig
		var srcGal []string
		crossNS := false
		nf := 1 + r.Intn(4)
		for ci := 0; ci < 1+r.Intn(3); ci++ {
			ch := &configv1.FilterChain{Name: fmt.Sprintf("c%d", ci)}
			cfg.Chains = append(cfg.Chains, ch)
		}
		for fi := 0; fi < nf; fi++ {
			o := &oidcv1.OIDCConfig{ClientId: fmt.Sprintf("client-%d", fi)}
			switch x := r.Intn(10); {
			case x < 2:
				o.ClientSecretConfig = &oidcv1.OIDCConfig_ClientSecret{ClientSecret: fmt.Sprintf("literal-%d", fi)}
				srcGal = append(srcGal, gal.App("SrcLiteral", gal.S(o.GetClientSecret())))
			case x < 3:
				srcGal = append(srcGal, "SrcNone")
			default:
				ns := pick(r, []string{"", "", cns, cns, "other-ns"})
				if i%5 != 0 && ns == "other-ns" { // keep most configurations loadable
					ns = ""
				}
				name := pick(r, []string{"sec-a", "sec-a", "sec-b", "sec-c", ""})
				if ns == "other-ns" && name != "" {
					crossNS = true
				}
				o.ClientSecretConfig = &oidcv1.OIDCConfig_ClientSecretRef{ClientSecretRef: &oidcv1.OIDCConfig_SecretReference{Namespace: ns, Name: name}}
				srcGal = append(srcGal, gal.App("SrcRef", gal.S(ns), gal.S(name)))
			}
			oidcs = append(oidcs, o)
			ch := cfg.Chains[r.Intn(len(cfg.Chains))]
			if r.Intn(3) == 0 {
				ch.Filters = append(ch.Filters, &configv1.Filter{Type: &configv1.Filter_Mock{Mock: &mockv1.MockConfig{Allow: true}}})
			}
			ch.Filters = append(ch.Filters, &configv1.Filter{Type: &configv1.Filter_Oidc{Oidc: o}})
		}
		cl := fake.NewClientBuilder().Build()
		sc, err := k8s.NewSecretControllerForVerification(cfg, cns, cl)
		c.Sum.Evaluations++
		startupOK := err == nil
		_ = crossNS
		var evs []k8sEvent
		var obs [][]string
		if startupOK {
			for k, m := 0, 4+r.Intn(22); k < m; k++ {
				e := k8sEvent{Kind: "apply", NS: pick(r, []string{cns, cns, cns, "other-ns"}), Name: pick(r, append(names, "unrelated"))}
				switch x := r.Intn(12); {
				case x < 3:
					e.Present, e.HasKey, e.Value = true, true, fmt.Sprintf("v%d-%s", k, e.Name)
				case x < 6: // values recur: a Secret is set back to a value it had (also one it only had while it was being deleted)
					e.Present, e.HasKey, e.Value = true, true, fmt.Sprintf("pool%d-%s", r.Intn(3), e.Name)
				case x < 7:
					e.Present, e.HasKey, e.Value = true, true, ""
				case x < 8:
					e.Present, e.HasKey = true, false
				case x < 9:
					e.Present, e.HasKey, e.Value, e.Deleting = true, true, fmt.Sprintf("pool%d-%s", r.Intn(3), e.Name), true
				case x < 10:
					e.Present = false
				default:
					e.Kind = "resync"
				}
				if e.Kind == "apply" {
					applySecret(cl, e)
				}
				_, rerr := sc.Reconcile(context.Background(), ctrl.Request{NamespacedName: types.NamespacedName{Namespace: e.NS, Name: e.Name}})
				if rerr != nil {
					c.Sum.Notes = append(c.Sum.Notes, "Reconcile error: "+rerr.Error())
				}
				var row []string
				for _, o := range oidcs {
					row = append(row, o.GetClientSecret())
				}
				evs = append(evs, e)
				obs = append(obs, row)
				c.Sum.Evaluations++
				c.Hist("event", e.Kind+fmt.Sprintf("/present=%v/key=%v/deleting=%v/ownns=%v", e.Present, e.HasKey, e.Deleting, e.NS == cns))
			}
		}
		var evGal, obsGal, evStr []string
		changed := false
		for k, e := range evs {
			evGal = append(evGal, e.gal())
			var row []string
			for fi, v := range obs[k] {
				row = append(row, gal.S(v))
				if k > 0 && obs[k-1][fi] != v {
					changed = true
				}
			}
			obsGal = append(obsGal, gal.L(row))
			evStr = append(evStr, fmt.Sprintf("%s -> %v", e, obs[k]))
		}
		key := fmt.Sprint(srcGal, startupOK)
		for _, e := range evs {
			key += e.Kind + fmt.Sprint(e.Present, e.HasKey, e.Deleting, e.NS == cns, e.Name)
		}
		if changed || !startupOK {
			c.Distinct(key)
		}
		d := map[string]any{"namespace": cns, "sources": srcGal, "startup_ok": startupOK, "events": evStr, "steps": []any{}}
		// end to end for a sample: the Authorization header of a real code exchange carries the current value
		if startupOK && i%10 == 0 {
			for fi, o := range oidcs {
				if o.GetClientSecret() == "" {
					continue
				}
				if got := exchangeAuthHeader(o); got != "Basic "+basicB64(o.GetClientId(), o.GetClientSecret()) {
					c.Sum.GoFindings = append(c.Sum.GoFindings, Finding{Signature: "C19/token-request-uses-stale-secret",
						What: fmt.Sprintf("filter %d: the token request's Authorization header %q does not carry the filter's current client secret %q", fi, got, o.GetClientSecret()), Replay: d})
				}
				c.Hist("end_to_end_exchanges", "checked")
			}
		}
		cases = append(cases, gal.Rec("k_cns", gal.S(cns), "k_sources", gal.L(srcGal), "k_startup_ok", gal.B(startupOK), "k_events", gal.L(evGal), "k_obs", gal.L(obsGal)))
		descr = append(descr, d)
		if i%150 == 7 {
			c.Sample(d)
		}
		if len(cases) == 150 {
			c.WriteShardWith("K8s.Secrets Corr.C19", "case19", cases, descr, "", "run cases")
			cases, descr = nil, nil
		}
	}
	if len(cases) > 0 {
		c.WriteShardWith("K8s.Secrets Corr.C19", "case19", cases, descr, "", "run cases")
	}
}

func basicB64(id, secret string) string {
	return b64std([]byte(id + ":" + secret))
}

// exchangeAuthHeader drives a real OIDC handler of this filter through a callback and returns the Authorization header
// its token request carried.
func exchangeAuthHeader(o *oidcv1.OIDCConfig) string {
	var mu sync.Mutex
	got := ""
	srv := httptest.NewServer(http.HandlerFunc(func(w http.ResponseWriter, r *http.Request) {
		mu.Lock()
		got = r.Header.Get("Authorization")
		mu.Unlock()
		w.WriteHeader(500)
	}))
	defer srv.Close()
	saveT, saveA, saveC, saveJ, saveI := o.TokenUri, o.AuthorizationUri, o.CallbackUri, o.JwksConfig, o.IdToken
	o.TokenUri, o.AuthorizationUri, o.CallbackUri = srv.URL+"/token", srv.URL+"/auth", "https://app.test/callback"
	o.JwksConfig, o.IdToken = &oidcv1.OIDCConfig_Jwks{Jwks: getKeys().jwksDoc}, &oidcv1.TokenConfig{Header: "authorization"}
	defer func() { o.TokenUri, o.AuthorizationUri, o.CallbackUri, o.JwksConfig, o.IdToken = saveT, saveA, saveC, saveJ, saveI }()
	clock := &oidc.Clock{NowFn: func() time.Time { return time.Unix(1_700_000_000, 0) }}
	st := oidc.NewMemoryStore(clock, 0, 0)
	ctx := context.Background()
	_ = st.SetAuthorizationState(ctx, "sid", &oidc.AuthorizationState{State: "st", Nonce: "n", RequestedURL: "https://app.test/", CodeVerifier: "v"})
	pool := internal.NewTLSConfigPool(ctx)
	h, err := authz.NewOIDCHandler(o, pool, oidc.NewJWKSProvider(&configv1.Config{}, pool), oneStoreFactory{st}, *clock, oidc.NewStaticGenerator("a", "b", "c", "d"))
	if err != nil {
		return "handler: " + err.Error()
	}
	resp := &envoy.CheckResponse{}
	_ = h.Process(ctx, reqSpec{Scheme: "https", Host: "app.test", Path: "/callback?code=C&state=st", Cookie: cookieName(o.GetCookieNamePrefix()) + "=sid"}.envoy(), resp)
	mu.Lock()
	defer mu.Unlock()
	return got
}

var _ = mrand.Int

func init() { props["C19"] = runC19 }
