package main

// c12.go — store-level histories for C12 (both stores implement one abstract session map) and C10
// (timeouts): operation sequences with clock advances against the REAL memory store and the REAL Redis
// store (two store objects on one miniredis, operations routed to either), results recorded per operation.

import (
	"context"
	"fmt"
	mrand "math/rand"
	"strings"
	"sync"
	"time"

	"github.com/alicebob/miniredis/v2"
	"github.com/redis/go-redis/v9"

	"github.com/istio-ecosystem/authservice/internal/oidc"
	"github.com/istio-ecosystem/authservice/verifharness/gal"
)

type sop struct {
	Kind string // SetTok GetTok SetAuth GetAuth ClearAuth Remove
	Sid  string
	Tok  *oidc.TokenResponse
	Auth *oidc.AuthorizationState
}

func (o sop) gal() string {
	switch o.Kind {
	case "SetTok":
		return gal.App("OSetTok", gal.S(o.Sid), galTokens(o.Tok))
	case "SetAuth":
		return gal.App("OSetAuth", gal.S(o.Sid), galAuth(o.Auth))
	case "GetTok":
		return gal.App("OGetTok", gal.S(o.Sid))
	case "GetAuth":
		return gal.App("OGetAuth", gal.S(o.Sid))
	case "ClearAuth":
		return gal.App("OClearAuth", gal.S(o.Sid))
	}
	return gal.App("ORemove", gal.S(o.Sid))
}

func (o sop) String() string {
	switch o.Kind {
	case "SetTok":
		return fmt.Sprintf("SetTok(%s,{id:%.12s.. at:%q rt:%q exp:%v})", o.Sid, o.Tok.IDToken, o.Tok.AccessToken, o.Tok.RefreshToken, !o.Tok.AccessTokenExpiresAt.IsZero())
	case "SetAuth":
		return fmt.Sprintf("SetAuth(%s,%+v)", o.Sid, *o.Auth)
	}
	return o.Kind + "(" + o.Sid + ")"
}

// apply runs one operation on a store; returns the Gallina result (sres) or "" with err set.
func applyOp(st oidc.SessionStore, o sop) (string, error) {
	ctx := context.Background()
	switch o.Kind {
	case "SetTok":
		cp := *o.Tok
		return "RUnit", st.SetTokenResponse(ctx, o.Sid, &cp)
	case "SetAuth":
		cp := *o.Auth
		return "RUnit", st.SetAuthorizationState(ctx, o.Sid, &cp)
	case "GetTok":
		t, err := st.GetTokenResponse(ctx, o.Sid)
		if err != nil {
			return "", err
		}
		if t == nil {
			return "(RTok None)", nil
		}
		return "(RTok (Some " + galTokens(t) + "))", nil
	case "GetAuth":
		a, err := st.GetAuthorizationState(ctx, o.Sid)
		if err != nil {
			return "", err
		}
		if a == nil {
			return "(RAuth None)", nil
		}
		return "(RAuth (Some " + galAuth(a) + "))", nil
	case "ClearAuth":
		return "RUnit", st.ClearAuthorizationState(ctx, o.Sid)
	}
	return "RUnit", st.RemoveSession(ctx, o.Sid)
}

type storeCase struct {
	Abs, Idle int // seconds
	Times     []int64
	Ops       []sop
	Mem       []string // sres per op
	Redis     []string // rres per op
}

func (k storeCase) gal() string {
	var ops, mem, red []string
	for i, o := range k.Ops {
		ops = append(ops, gal.Pair(gal.Z(k.Times[i]), o.gal()))
	}
	mem = append(mem, k.Mem...)
	red = append(red, k.Redis...)
	return gal.Rec("k_abs", gal.Z(int64(k.Abs)*1e9), "k_idle", gal.Z(int64(k.Idle)*1e9), "k_ops", gal.L(ops), "k_mem", gal.L(mem), "k_redis", gal.L(red))
}

func (k storeCase) descr() any {
	var steps []string
	for i, o := range k.Ops {
		steps = append(steps, fmt.Sprintf("t=%d %s -> mem %s | redis %s", k.Times[i]-k.Times[0], o, short(k.Mem[i]), short(k.Redis[i])))
	}
	return map[string]any{"abs_s": k.Abs, "idle_s": k.Idle, "steps": steps}
}

func short(s string) string {
	if len(s) > 60 {
		return s[:60] + "..."
	}
	return s
}

var storeSids = []string{"s1", "s2"}

var (
	svOnce  sync.Once
	svToks  []*oidc.TokenResponse
	svAuths []*oidc.AuthorizationState
	svParse []string
)

func storeValues() ([]*oidc.TokenResponse, []*oidc.AuthorizationState, []string) {
	svOnce.Do(func() { svToks, svAuths, svParse = mkStoreValues() })
	return svToks, svAuths, svParse
}

func mkStoreValues() ([]*oidc.TokenResponse, []*oidc.AuthorizationState, []string) {
	k := getKeys()
	j1, _ := k.mint(tokSpec{Sig: "good-rsa", Aud: "c", NonceKind: "absent", Exp: 2_000_000_000})
	j2, _ := k.mint(tokSpec{Sig: "good-ec", Aud: "c", NonceKind: "str", Nonce: "n", Exp: 2_000_000_000, Extra: "2"})
	exp := time.Unix(1_700_000_500, 123456789)
	toks := []*oidc.TokenResponse{
		{IDToken: j1, AccessToken: "at1", RefreshToken: "rt1", AccessTokenExpiresAt: exp},
		{IDToken: j2},
		{IDToken: j1, AccessToken: "at2"},
		{IDToken: j2, RefreshToken: "rt2", AccessTokenExpiresAt: exp.Add(time.Hour)},
	}
	odd := []*oidc.TokenResponse{{IDToken: "not-a-jwt", AccessToken: "at"}, {IDToken: "", AccessToken: "at", RefreshToken: "rt"}}
	auths := []*oidc.AuthorizationState{
		{State: "st1", Nonce: "n1", RequestedURL: "https://a/x?y=1", CodeVerifier: "v1"},
		{State: "st2", Nonce: "n2", RequestedURL: "https://a/", CodeVerifier: "v2"},
	}
	oddA := []*oidc.AuthorizationState{{State: "", Nonce: "n", RequestedURL: "u", CodeVerifier: "v"}, {State: "s", Nonce: "n", RequestedURL: "u", CodeVerifier: ""}}
	_ = odd
	_ = oddA
	return append(toks, odd...), append(auths, oddA...), []string{j1, j2}
}

// runStoreCase executes the operations on fresh stores.
func runStoreCase(abs, idle int, times []int64, ops []sop, route []int) storeCase {
	now := time.Unix(0, times[0])
	clock := &oidc.Clock{NowFn: func() time.Time { return now }}
	mem := oidc.NewMemoryStore(clock, time.Duration(abs)*time.Second, time.Duration(idle)*time.Second)
	mr, err := miniredis.Run()
	must(err)
	defer mr.Close()
	mr.SetTime(now)
	var reds []oidc.SessionStore
	for i := 0; i < 2; i++ {
		cli := redis.NewClient(&redis.Options{Addr: mr.Addr()})
		defer cli.Close()
		r, err := oidc.NewRedisStore(clock, cli, time.Duration(abs)*time.Second, time.Duration(idle)*time.Second)
		must(err)
		reds = append(reds, r)
	}
	k := storeCase{Abs: abs, Idle: idle, Times: times, Ops: ops}
	for i, o := range ops {
		t := time.Unix(0, times[i])
		if d := t.Sub(now); d > 0 {
			mr.SetTime(t)
			mr.FastForward(d)
		}
		now = t
		r, err := applyOp(mem, o)
		if err != nil {
			r = "RErrMem"
		}
		k.Mem = append(k.Mem, r)
		r, err = applyOp(reds[route[i]%2], o)
		if err != nil {
			k.Redis = append(k.Redis, "RErr")
		} else {
			k.Redis = append(k.Redis, "(ROk "+r+")")
		}
	}
	return k
}

var advances = []time.Duration{0, 0, 0, time.Nanosecond, 999_999_999 * time.Nanosecond, time.Second, time.Second + 1, 2 * time.Second, 3 * time.Second,
	5 * time.Second, 4*time.Second + 999_999_999, 3599 * time.Second, time.Hour, time.Hour + time.Second}
var timeoutPairs = [][2]int{{0, 0}, {0, 0}, {1, 0}, {0, 1}, {2, 1}, {1, 2}, {5, 2}, {2, 5}, {5, 5}, {3600, 5}, {5, 3600}, {3600, 3600}}

func randomStoreCase(r *mrand.Rand, n int, wellFormedOnly bool) storeCase {
	toks, auths, _ := storeValues()
	if wellFormedOnly {
		toks, auths = toks[:4], auths[:2]
	}
	tp := timeoutPairs[r.Intn(len(timeoutPairs))]
	t := int64(1_700_000_000)*1e9 + int64(r.Intn(3))*333_333_333
	var ops []sop
	var times []int64
	var route []int
	for i := 0; i < n; i++ {
		t += int64(advances[r.Intn(len(advances))])
		sid := storeSids[r.Intn(len(storeSids))]
		var o sop
		switch x := r.Intn(12); {
		case x < 3:
			o = sop{Kind: "SetTok", Sid: sid, Tok: toks[r.Intn(len(toks))]}
		case x < 6:
			o = sop{Kind: "GetTok", Sid: sid}
		case x < 8:
			o = sop{Kind: "SetAuth", Sid: sid, Auth: auths[r.Intn(len(auths))]}
		case x < 10:
			o = sop{Kind: "GetAuth", Sid: sid}
		case x < 11:
			o = sop{Kind: "ClearAuth", Sid: sid}
		default:
			o = sop{Kind: "Remove", Sid: sid}
		}
		ops = append(ops, o)
		times = append(times, t)
		route = append(route, r.Intn(2))
	}
	return runStoreCase(tp[0], tp[1], times, ops, route)
}

func storeChecks(c *Ctx, nRandom, exhaustiveLen int) {
	_, _, parsing := storeValues()
	var cases []string
	var descr []any
	per := 150
	flush := func() {
		if len(cases) == 0 {
			return
		}
		// the list of ID tokens that jwt.Parse accepts (interned per cases file)
		var pl []string
		for _, p := range parsing {
			pl = append(pl, gal.S(p))
		}
		c.WriteShardWith("Oidc.Types Store.Spec Store.Memory Store.Redis Corr."+c.Prop, "case12", cases, descr,
			"Definition parsing : list string := "+gal.L(pl)+".\n", "run parsing cases")
		cases, descr = nil, nil
	}
	add := func(k storeCase) {
		c.Sum.Evaluations += len(k.Ops)
		key := fmt.Sprintf("%d/%d|", k.Abs, k.Idle)
		nontrivial := false
		for i, o := range k.Ops {
			key += o.Kind[:4] + o.Sid + short(k.Mem[i])[:min(8, len(k.Mem[i]))] + "|"
			if strings.Contains(k.Mem[i], "Some") || strings.Contains(k.Redis[i], "Some") {
				nontrivial = true
			}
			c.Hist("op", o.Kind)
		}
		if nontrivial {
			c.Distinct(key)
		}
		c.Hist("timeouts", fmt.Sprintf("abs=%d idle=%d", k.Abs, k.Idle))
		cases = append(cases, k.gal())
		d := k.descr()
		descr = append(descr, d)
		if len(c.Sum.Samples) < 4 && nontrivial && len(k.Ops) > 5 {
			c.Sample(d)
		}
		if len(cases) == per {
			flush()
		}
	}
	r := newRand(c.Seed, 12)
	for i := 0; i < nRandom; i++ {
		add(randomStoreCase(r, 3+r.Intn(28), i%4 != 0))
	}
	// bounded-exhaustive: all sequences of the given length over 2 ids x 6 operations x {advance 0, 1s, 2s}
	if exhaustiveLen > 0 {
		toks, auths, _ := storeValues()
		type step struct {
			o   sop
			adv time.Duration
		}
		var alpha []step
		for _, sid := range storeSids {
			for _, adv := range []time.Duration{0, time.Second, 2 * time.Second} {
				alpha = append(alpha, step{sop{Kind: "SetTok", Sid: sid, Tok: toks[0]}, adv}, step{sop{Kind: "GetTok", Sid: sid}, adv},
					step{sop{Kind: "SetAuth", Sid: sid, Auth: auths[0]}, adv}, step{sop{Kind: "GetAuth", Sid: sid}, adv},
					step{sop{Kind: "ClearAuth", Sid: sid}, adv}, step{sop{Kind: "Remove", Sid: sid}, adv})
			}
		}
		var rec func(prefix []step)
		n := 0
		rec = func(prefix []step) {
			if len(prefix) == exhaustiveLen {
				n++
				tp := [][2]int{{2, 1}, {0, 0}, {1, 2}}[n%3]
				t := int64(1_700_000_000) * 1e9
				var ops []sop
				var times []int64
				var route []int
				for i, s := range prefix {
					t += int64(s.adv)
					ops = append(ops, s.o)
					times = append(times, t)
					route = append(route, i+n)
				}
				add(runStoreCase(tp[0], tp[1], times, ops, route))
				return
			}
			for _, s := range alpha {
				rec(append(append([]step(nil), prefix...), s))
			}
		}
		rec(nil)
		c.Sum.Notes = append(c.Sum.Notes, fmt.Sprintf("bounded-exhaustive: all %d sequences of length %d over 2 ids x 6 operations x 3 clock advances", n, exhaustiveLen))
	}
	flush()
}

func min(a, b int) int {
	if a < b {
		return a
	}
	return b
}

func init() {
	props["C12"] = func(c *Ctx) {
		c.Sum.Rule = "operation sequences (3-30 operations over 2 session ids, values incl. optional members absent, odd values in a quarter of the sequences, clock advances around the limits, " +
			"12 (absolute, idle) pairs incl. (0,0)) executed on the real memory store and on the real Redis store (two store objects on one miniredis, operations routed to either); " +
			"plus all sequences of length 2 (quick) / 3 (thorough) over 2 ids x 6 operations x 3 clock advances; distinct_nontrivial = distinct (timeouts, operation, result prefix) sequences in which some read returned data"
		n, ex := 1500, 2
		if c.Thorough() {
			n, ex = 20000, 3
		}
		storeChecks(c, n, ex)
		linearizabilityCheck(c)
	}
	props["C10"] = func(c *Ctx) {
		c.Sum.Rule = "operation sequences with clock advances landing on, just before and just after each limit (1 ns, 1 s granularity), 12 (absolute, idle) pairs incl. zero, on the real memory and Redis stores; " +
			"plus a system-level run through the real start-up wiring (NewSessionStoreFactory.PreRun, real clock, 2 s timeouts); distinct_nontrivial as for C12"
		n, ex := 1500, 2
		if c.Thorough() {
			n, ex = 20000, 3
		}
		storeChecks(c, n, ex)
		systemLevelTimeouts(c)
	}
}
