package main

import (
	"fmt"
	"strings"
)

func init() {
	props["C13"] = func(c *Ctx) {
		n := 400
		if c.Thorough() {
			n = 2500
		}
		c.Sum.Rule = "random histories (logins, callbacks, logouts, attacks, faults) over 4 filter configurations incl. an authorization endpoint with its own query, " +
			"client ids / scopes / callback URIs with reserved characters, requested URLs with reserved and non-ASCII bytes and a separate query field; every 302 answer is checked; " +
			"distinct_nontrivial = distinct projected traces reaching a token exchange or write"
		runHistories(c, 13, histProfile{N: n, MinLen: 6, MaxLen: 30, FaultRate: 5, AttackRate: 10, Stores: []string{"memory", "redis"}}, nil)
		loadedScopes(c)
	}
	props["C15"] = func(c *Ctx) {
		n := 500
		if c.Thorough() {
			n = 3000
		}
		c.Sum.Rule = "random histories with a high rate of adversarial provider answers (null, wrong member types, huge numbers, non-JSON, non-string nonce, garbage tokens), " +
			"malformed requests (no http part, empty host/scheme, hostile cookies and queries) and store faults, each check run under recover(); " +
			"PLUS a sweep of every Cookie header and every request path over small hostile alphabets (quotes, separators, spaces, NUL, non-UTF-8) up to length 5, each run under recover() against a logged-in session; " +
			"distinct_nontrivial = distinct projected traces reaching a token exchange or write"
		runHistories(c, 15, histProfile{N: n, MinLen: 6, MaxLen: 30, FaultRate: 12, AttackRate: 35, Stores: []string{"memory", "redis"}}, nil)
		cookieAndPathSweep(c)
	}
}

// cookieAndPathSweep: every string over a small hostile alphabet as Cookie header and as path; panics are findings
// (the sweep is judged by the harness itself: there is nothing to compare but "a well-formed verdict came back").
func cookieAndPathSweep(c *Ctx) {
	o := cfgVariants[0]
	o.Store = "memory"
	w := newWorld(c.Seed, o)
	defer w.Close()
	s := newSim(w, newRand(c.Seed, 1515))
	s.Login("/app", compliant())
	name := cookieName(o.Prefix)
	n := 5
	if c.Thorough() {
		n = 6
	}
	try := func(kind string, r reqSpec) {
		st := w.Do(r, nil, false)
		c.Sum.Evaluations++
		if st.Resp.Class == "panic" || st.Resp.Class == "error" {
			c.Sum.GoFindings = append(c.Sum.GoFindings, Finding{Signature: "C15/panic-on-" + kind,
				What: fmt.Sprintf("check crashed or returned an error on a hostile %s: %q -> %s %s", kind, r.Cookie+r.Path, st.Resp.Class, st.Resp.Body),
				Replay: map[string]any{"kind": kind, "cookie_header": r.Cookie, "path": r.Path, "outcome": st.Resp}})
		}
	}
	for _, wd := range wordsUpto("a=;\" ", n) {
		try("cookie", reqSpec{Scheme: "https", Host: s.AppHost, Path: "/app", Cookie: wd})
		try("cookie", reqSpec{Scheme: "https", Host: s.AppHost, Path: "/app", Cookie: name + "=" + wd})
		try("cookie", reqSpec{Scheme: "https", Host: s.AppHost, Path: "/app", Cookie: wd + name + "=" + s.Jar + wd})
	}
	for _, wd := range wordsUpto("/?#%&=", n) {
		try("path", reqSpec{Scheme: "https", Host: s.AppHost, Path: wd, Cookie: s.cookie(s.Jar)})
		try("path", reqSpec{Scheme: "https", Host: s.AppHost, Path: s.cbPath + wd, Cookie: s.cookie(s.Jar)})
	}
	for _, wd := range []string{"\x00", "\xff", "a\x00b=c", "\r\n", strings.Repeat("a=b;", 2000), strings.Repeat("\"", 3000), strings.Repeat("%", 5000)} {
		try("cookie", reqSpec{Scheme: "https", Host: s.AppHost, Path: "/app", Cookie: wd})
		try("path", reqSpec{Scheme: "https", Host: s.AppHost, Path: "/" + wd, Cookie: s.cookie(s.Jar)})
	}
	c.Hist("sweep", "cookie+path")
}
