package main

func init() {
	props["C13"] = func(c *Ctx) {
		n := 400
		if c.Thorough() {
			n = 8000
		}
		c.Sum.Rule = "random histories (logins, callbacks, logouts, attacks, faults) over 4 filter configurations incl. an authorization endpoint with its own query, " +
			"client ids / scopes / callback URIs with reserved characters, requested URLs with reserved and non-ASCII bytes and a separate query field; every 302 answer is checked; " +
			"distinct_nontrivial = distinct projected traces reaching a token exchange or write"
		runHistories(c, 13, histProfile{N: n, MinLen: 6, MaxLen: 30, FaultRate: 5, AttackRate: 10, Stores: []string{"memory", "redis"}}, nil)
	}
	props["C15"] = func(c *Ctx) {
		n := 500
		if c.Thorough() {
			n = 10000
		}
		c.Sum.Rule = "random histories with a high rate of adversarial provider answers (null, wrong member types, huge numbers, non-JSON, non-string nonce, garbage tokens), " +
			"malformed requests (no http part, empty host/scheme, hostile cookies and queries) and store faults, each check run under recover(); " +
			"distinct_nontrivial = distinct projected traces reaching a token exchange or write"
		runHistories(c, 15, histProfile{N: n, MinLen: 6, MaxLen: 30, FaultRate: 12, AttackRate: 35, Stores: []string{"memory", "redis"}}, nil)
	}
}
