package main

// c02b.go — C02, "valid signature under the filter's configured key set", for a service with SEVERAL filters: two OIDC
// filters with different static key sets (different RSA keys under the SAME kid) and different client ids, assembled as
// the service does (one JWKS provider, one store factory, one ExtAuthZFilter).  A login at one filter whose ID token is
// signed with the OTHER filter's key must not be bound; a login with the filter's own key must succeed - in both orders
// of first use (whatever a filter validated first must not become the other one's key set).

import (
	"context"
	"fmt"
	"math/big"
	"net/url"
	"strings"
	"sync"
	"time"

	configv1 "github.com/istio-ecosystem/authservice/config/gen/go/v1"
	oidcv1 "github.com/istio-ecosystem/authservice/config/gen/go/v1/oidc"
	"github.com/istio-ecosystem/authservice/internal"
	"github.com/istio-ecosystem/authservice/internal/oidc"
	"github.com/istio-ecosystem/authservice/internal/server"
)

func keySetSeparation(c *Ctx) {
	ctx, cancel := context.WithCancel(context.Background())
	defer cancel()
	for _, order := range [][]int{{0, 1}, {1, 0}} {
		for _, store := range []string{"memory", "redis"} {
			w := newWorld(c.Seed+int64(order[0]), cfgOpts{Prefix: "", Access: false, Logout: false, Scopes: []string{"openid"}, IDHeader: "authorization", IDPreamble: "Bearer",
				CallbackURI: "https://app.test/callback", ClientID: "client-0", Secret: "s", Store: store})
			var mu sync.Mutex
			nonces := map[string]string{}
			sigFor := map[string]string{} // code -> how the provider signs the ID token of that login
			w.idp.next = func(form url.Values, auth string) idpAnswer {
				mu.Lock()
				nonce, sig := nonces[form.Get("code")], sigFor[form.Get("code")]
				mu.Unlock()
				tok, _ := w.keys.mint(tokSpec{Sig: sig, Aud: []string{"client-0", "client-1"}, NonceKind: "str", Nonce: nonce, Exp: time.Now().Unix() + 3600})
				return idpAnswer{Body: fmt.Sprintf(`{"id_token":%q,"access_token":"at","expires_in":3600,"token_type":"Bearer"}`, tok)}
			}
			// filter 0 trusts rsa1, filter 1 trusts the other RSA key; both under kid "k1"
			e := big.NewInt(int64(w.keys.rsaForeign.E)).Bytes()
			otherDoc := fmt.Sprintf(`{"keys":[{"kty":"RSA","kid":"k1","use":"sig","alg":"RS256","n":%q,"e":%q}]}`, b64u(w.keys.rsaForeign.N.Bytes()), b64u(e))
			docs := []string{w.keys.jwksDoc, otherDoc}
			own := []string{"good-rsa", "foreign"} // mint(): "foreign" signs with rsaForeign under kid k1
			cfg := &configv1.Config{}
			var oidcs []*oidcv1.OIDCConfig
			for i := 0; i < 2; i++ {
				o := &oidcv1.OIDCConfig{CallbackUri: "https://app.test/callback", ClientId: fmt.Sprintf("client-%d", i),
					ClientSecretConfig: &oidcv1.OIDCConfig_ClientSecret{ClientSecret: "s"}, AuthorizationUri: w.idp.srv.URL + "/auth", TokenUri: w.idp.srv.URL + "/token",
					JwksConfig: &oidcv1.OIDCConfig_Jwks{Jwks: docs[i]}, Scopes: []string{"openid"}, CookieNamePrefix: fmt.Sprintf("k%d", i),
					IdToken: &oidcv1.TokenConfig{Header: "authorization", Preamble: "Bearer"}}
				if store == "redis" {
					o.RedisSessionStoreConfig = &oidcv1.RedisConfig{ServerUri: "redis://" + w.mr.Addr() + fmt.Sprintf("/%d", i)}
				}
				oidcs = append(oidcs, o)
				cfg.Chains = append(cfg.Chains, &configv1.FilterChain{Name: fmt.Sprintf("c%d", i),
					Match:   &configv1.Match{Header: "x-tenant", Criteria: &configv1.Match_Equality{Equality: fmt.Sprint(i)}},
					Filters: []*configv1.Filter{{Type: &configv1.Filter_Oidc{Oidc: o}}}})
			}
			tlsPool := internal.NewTLSConfigPool(ctx)
			jwks := oidc.NewJWKSProvider(cfg, tlsPool)
			go func() { _ = jwks.ServeContext(ctx) }()
			sessions := oidc.NewSessionStoreFactory(cfg)
			must(sessions.PreRun())
			filter := server.NewExtAuthZFilter(cfg, tlsPool, jwks, sessions)
			check := func(t int, path, cookie string) (bool, map[string]string) {
				hdr := map[string]string{"x-tenant": fmt.Sprint(t)}
				if cookie != "" {
					hdr["cookie"] = cookie
				}
				resp, err := filter.Check(ctx, mkReq("https", "app.test", path, hdr))
				c.Sum.Evaluations++
				out := map[string]string{}
				if err != nil {
					return false, out
				}
				for _, h := range resp.GetDeniedResponse().GetHeaders() {
					out[h.GetHeader().GetKey()] = h.GetHeader().GetValue()
				}
				return resp.GetStatus().GetCode() == 0, out
			}
			login := func(t int, sig string) bool {
				_, h := check(t, "/app", "")
				sc := strings.SplitN(strings.SplitN(h["set-cookie"], ";", 2)[0], "=", 2)
				u, perr := url.Parse(h["location"])
				if len(sc) != 2 || perr != nil {
					return false
				}
				state := u.Query().Get("state")
				mu.Lock()
				nonces[state], sigFor[state] = u.Query().Get("nonce"), sig
				mu.Unlock()
				check(t, "/callback?code="+state+"&state="+state, sc[0]+"="+sc[1])
				ok, _ := check(t, "/app", sc[0]+"="+sc[1])
				return ok
			}
			report := func(sig, what string, rp map[string]any) {
				rp["first_use_order"], rp["store"] = order, store
				c.Sum.GoFindings = append(c.Sum.GoFindings, Finding{Signature: sig, What: what, Replay: rp})
			}
			for round := 0; round < 2; round++ {
				for _, t := range order {
					if !login(t, own[t]) {
						report("C02/own-key-set-not-in-use", fmt.Sprintf("a login at filter %d whose ID token is signed with that filter's configured key was not accepted (another filter's key set in use?)", t),
							map[string]any{"filter": t, "round": round})
					}
					c.Hist("key_separation", fmt.Sprintf("filter %d own key", t))
					if login(t, own[1-t]) {
						report("C02/foreign-filter-key-accepted", fmt.Sprintf("filter %d bound and honoured an ID token signed with the key of filter %d (same kid, not in its configured key set)", t, 1-t),
							map[string]any{"filter": t, "signed_with_key_of_filter": 1 - t, "round": round})
					}
					c.Hist("key_separation", fmt.Sprintf("filter %d foreign key", t))
				}
			}
			w.Close()
		}
	}
}
