package main

// sim.go — implementation-steered history generation: a simulated browser / attacker and a simulated
// identity provider that keep what they have seen (cookies, states, codes, tokens) and choose the
// next event from weighted classes.

import (
	"encoding/json"
	"fmt"
	mrand "math/rand"
	"net/url"
	"strings"
	"time"

	"golang.org/x/oauth2"
)

type codeInfo struct {
	Nonce, Challenge, State string
	Used                    bool
	Chain                   int // login number
}

// idpBehaviour scripts the provider's answer to the next token request.
type idpBehaviour struct {
	Kind        string // compliant transport status badjson null wrongtype
	Sig         string // ID token signature kind (tokSpec.Sig)
	Aud         string // ok array absent foreign nearmiss
	Nonce       string // ok absent foreign empty other
	ExpiresIn   int    // seconds; 0 = omit; <0 = negative value sent
	IDLife      int    // seconds of ID token lifetime; 0 = no exp claim
	Refresh     bool   // include a refresh token
	Rotate      bool   // on refresh: issue a new refresh token
	OmitID      bool   // on refresh: no id_token member
	OmitAccess  bool   // no access_token member
	TokenType   string
	Extra       bool // extra members in the response
	HugeExpires bool
	OddClaims   int // >0: the ID token carries claims of unexpected JSON types (variant number)
}

func (b idpBehaviour) label() string {
	return fmt.Sprintf("%s/sig=%s/aud=%s/nonce=%s/exp_in=%d/idlife=%d/rt=%v/rot=%v/omitid=%v/omitat=%v/tt=%s/odd=%d", b.Kind, b.Sig, b.Aud, b.Nonce,
		b.ExpiresIn, b.IDLife, b.Refresh, b.Rotate, b.OmitID, b.OmitAccess, b.TokenType, b.OddClaims)
}

func compliant() idpBehaviour {
	return idpBehaviour{Kind: "compliant", Sig: "good-rsa", Aud: "ok", Nonce: "ok", ExpiresIn: 300, IDLife: 600, Refresh: true, Rotate: true, TokenType: "Bearer"}
}

type rtInfo struct {
	Chain   int
	Latest  bool
	Nonce   string
}

type Sim struct {
	w     *World
	r     *mrand.Rand
	Steps []stepRec
	Beh   []string // behaviour label of the IdP exchange performed in step i ("" if none)

	AppHost string
	// browser
	Jar      string // session id value held for the filter's cookie
	Pending  *url.Values // query of the last authorization redirect received
	AfterCB  string // Location received from the last successful callback
	SeenSids []string
	SeenCallbacks []string // callback paths used so far (for replays)
	// provider
	codes    map[string]*codeInfo
	rts      map[string]*rtInfo
	chainN   int
	nTok     int
	beh      idpBehaviour
	StaleRT  []string // refresh tokens presented that were not the latest issued (C11)
	AuthCount int     // authorizations performed at the provider (C03)
	Secrets  []string // every secret value minted (C14)
	cbPath   string
	// several browsers: the fields Jar / Pending / AfterCB above belong to browser cur; the others are parked here
	browsers []browserState
	cur      int
}

type browserState struct {
	Jar     string
	Pending *url.Values
	AfterCB string
}

// SwitchBrowser makes browser i the acting one (creating it when new).
func (s *Sim) SwitchBrowser(i int) {
	for len(s.browsers) <= i || len(s.browsers) <= s.cur {
		s.browsers = append(s.browsers, browserState{})
	}
	s.browsers[s.cur] = browserState{s.Jar, s.Pending, s.AfterCB}
	b := s.browsers[i]
	s.Jar, s.Pending, s.AfterCB = b.Jar, b.Pending, b.AfterCB
	s.cur = i
}

func newSim(w *World, r *mrand.Rand) *Sim {
	s := &Sim{w: w, r: r, codes: map[string]*codeInfo{}, rts: map[string]*rtInfo{}, beh: compliant()}
	u, _ := url.Parse(w.Cfg.GetCallbackUri())
	s.AppHost = u.Host
	s.cbPath = u.EscapedPath()
	if u.Path != u.EscapedPath() {
		s.cbPath = u.Path
	}
	w.idp.next = s.idpAnswer
	s.Secrets = append(s.Secrets, w.Cfg.GetClientSecret())
	return s
}

func (s *Sim) marker(kind string) string {
	s.nTok++
	m := fmt.Sprintf("%s-%d-%08x", kind, s.nTok, s.r.Uint32())
	if kind != "CODE" { // an authorization code travels through the browser anyway; it is not one of C14's credentials
		s.Secrets = append(s.Secrets, m)
	}
	return m
}

// allSecrets: client secret, every access / refresh / ID token minted, every PKCE verifier drawn.
func (s *Sim) allSecrets() []string {
	out := append([]string(nil), s.Secrets...)
	for _, g := range s.w.gen.All {
		out = append(out, g.Verifier)
	}
	return out
}

// ---- identity provider

func (s *Sim) idToken(b idpBehaviour, nonce string) string {
	spec := tokSpec{Sig: b.Sig, Extra: fmt.Sprint(s.nTok)}
	cid := s.w.Cfg.GetClientId()
	switch b.Aud {
	case "ok":
		spec.Aud = cid
	case "array":
		spec.Aud = []string{"other", cid}
	case "foreign":
		spec.Aud = "someone-else"
	case "nearmiss":
		spec.Aud = []string{cid + " ", strings.ToUpper(cid), cid[:len(cid)-1]}
	}
	switch b.Nonce {
	case "ok":
		spec.NonceKind, spec.Nonce = "str", nonce
	case "foreign":
		spec.NonceKind, spec.Nonce = "str", "other-nonce"
	case "empty":
		spec.NonceKind, spec.Nonce = "str", ""
	case "other":
		spec.NonceKind = "other"
	default:
		spec.NonceKind = "absent"
	}
	if b.IDLife != 0 {
		spec.Exp = s.w.now.Unix() + int64(b.IDLife)
	}
	if b.OddClaims > 0 {
		// registered and OIDC claims with values of unexpected JSON types (the audience stays acceptable in most variants so
		// that validation gets as far as it can)
		odd := []map[string]any{
			{"azp": 12345}, {"azp": true}, {"azp": []any{"a", 1}}, {"azp": map[string]any{"x": 1}}, {"azp": nil},
			{"amr": "pwd", "acr": 7, "auth_time": "yesterday"}, {"iat": "now"}, {"nbf": []any{}}, {"sub": 42}, {"iss": []any{"a"}},
			{"exp": "soon"}, {"exp": 1e30}, {"exp": -1}, {"aud": 5}, {"aud": []any{1, 2}}, {"aud": map[string]any{"a": 1}}, {"aud": []any{}},
			{"nonce": []any{"x"}}, {"nonce": map[string]any{}}, {"nonce": nil}, {"nonce": true}, {"jti": 1.5, "at_hash": 3, "c_hash": []any{}},
			{"azp": 1, "aud": []any{"other", cid, "third"}}, {"azp": []any{}, "aud": []any{cid, "x"}},
		}
		spec.Claims = odd[(b.OddClaims-1)%len(odd)]
		if b.OddClaims%2 == 0 && spec.Claims["aud"] == nil {
			spec.Aud = []string{"other", cid}
		}
	}
	s.nTok++
	tok := s.w.mint(spec)
	s.Secrets = append(s.Secrets, tok)
	return tok
}

func (s *Sim) body(b idpBehaviour, nonce string, chain int, refreshGrant bool, oldRT string) string {
	m := map[string]any{}
	if !(refreshGrant && b.OmitID) {
		m["id_token"] = s.idToken(b, nonce)
	}
	if !b.OmitAccess {
		m["access_token"] = s.marker("AT")
	}
	if b.Refresh && (!refreshGrant || b.Rotate) {
		rt := s.marker("RT")
		for _, v := range s.rts {
			if v.Chain == chain {
				v.Latest = false
			}
		}
		s.rts[rt] = &rtInfo{Chain: chain, Latest: true, Nonce: nonce}
		m["refresh_token"] = rt
	}
	if b.ExpiresIn != 0 {
		m["expires_in"] = b.ExpiresIn
	}
	if b.HugeExpires {
		m["expires_in"] = json.Number("99999999999999999999999")
	}
	if b.TokenType != "" {
		m["token_type"] = b.TokenType
	}
	if b.Extra {
		m["scope"] = "openid"
		m["not-before-policy"] = 0
		m["session_state"] = map[string]any{"a": []int{1, 2}}
	}
	js, _ := json.Marshal(m)
	return string(js)
}

func (s *Sim) idpAnswer(form url.Values, auth string) idpAnswer {
	b := s.beh
	s.Beh[len(s.Beh)-1] = b.label()
	var nonce string
	var chain int
	refreshGrant := form.Get("grant_type") == "refresh_token"
	// the provider's own protocol checks (RFC 6749 / 7636); a failed check is answered 400
	if refreshGrant {
		rt, ok := s.rts[form.Get("refresh_token")]
		if !ok {
			return idpAnswer{Status: 400, Body: `{"error":"invalid_grant"}`}
		}
		if !rt.Latest {
			s.StaleRT = append(s.StaleRT, form.Get("refresh_token"))
			return idpAnswer{Status: 400, Body: `{"error":"invalid_grant","error_description":"stale refresh token"}`}
		}
		nonce, chain = rt.Nonce, rt.Chain
	} else {
		ci, ok := s.codes[form.Get("code")]
		if !ok || ci.Used || oauth2.S256ChallengeFromVerifier(form.Get("code_verifier")) != ci.Challenge ||
			form.Get("redirect_uri") != s.w.Cfg.GetCallbackUri() {
			return idpAnswer{Status: 400, Body: `{"error":"invalid_grant"}`}
		}
		ci.Used = true
		nonce, chain = ci.Nonce, ci.Chain
	}
	switch b.Kind {
	case "transport":
		return idpAnswer{Transport: true}
	case "status":
		return idpAnswer{Status: []int{201, 302, 400, 401, 500, 503}[s.r.Intn(6)], Body: s.body(compliant(), nonce, chain, refreshGrant, "")}
	case "badjson":
		return idpAnswer{Body: pick(s.r, []string{"", "{", "[]", `"x"`, `{"id_token":`, "<html>", `{"expires_in":"soon"}`, `{"id_token":5}`, `{"expires_in":1.5}`})}
	case "null":
		return idpAnswer{Body: "null"}
	}
	return idpAnswer{Body: s.body(b, nonce, chain, refreshGrant, "")}
}

// ---- browser

func (s *Sim) request(r reqSpec, faults map[int]faultKind, jwksFail bool) stepRec {
	s.Beh = append(s.Beh, "")
	st := s.w.Do(r, faults, jwksFail)
	s.Steps = append(s.Steps, st)
	// learn from the answer like a browser does
	for _, h := range st.Resp.Headers {
		switch h[0] {
		case "set-cookie":
			nv := strings.SplitN(strings.SplitN(h[1], ";", 2)[0], "=", 2)
			if len(nv) == 2 && nv[0] == cookieName(s.w.Cfg.GetCookieNamePrefix()) {
				if strings.Contains(h[1], "Max-Age=0") {
					s.Jar = ""
				} else {
					s.Jar = nv[1]
					s.SeenSids = append(s.SeenSids, nv[1])
				}
			}
		case "location":
			if strings.HasPrefix(h[1], s.w.Cfg.GetAuthorizationUri()) {
				if u, err := url.Parse(h[1]); err == nil {
					q := u.Query()
					s.Pending = &q
				}
			} else if st.Resp.Status == 302 && st.Resp.Class == "deny" {
				s.AfterCB = h[1]
			}
		}
	}
	return st
}

func (s *Sim) cookie(sid string) string {
	if sid == "" {
		return ""
	}
	return cookieName(s.w.Cfg.GetCookieNamePrefix()) + "=" + sid
}

func (s *Sim) Visit(path string) stepRec {
	return s.request(reqSpec{Scheme: "https", Host: s.AppHost, Path: path, Cookie: s.cookie(s.Jar)}, nil, false)
}

// Authorize: the user authenticates at the provider for the pending authorization request; returns
// the callback target the provider redirects the browser to.
func (s *Sim) Authorize() string {
	if s.Pending == nil {
		return ""
	}
	q := *s.Pending
	s.Pending = nil
	s.chainN++
	s.AuthCount++
	code := s.marker("CODE")
	s.codes[code] = &codeInfo{Nonce: q.Get("nonce"), Challenge: q.Get("code_challenge"), State: q.Get("state"), Chain: s.chainN}
	cb := s.cbPath + "?" + url.Values{"code": {code}, "state": {q.Get("state")}}.Encode()
	s.SeenCallbacks = append(s.SeenCallbacks, cb)
	return cb
}

// Login: complete flow from an unauthenticated visit; returns the final step.
func (s *Sim) Login(path string, b idpBehaviour) stepRec {
	st := s.Visit(path)
	if s.Pending == nil {
		return st
	}
	cb := s.Authorize()
	s.beh = b
	st = s.Visit(cb)
	s.beh = compliant()
	if st.Resp.Status == 302 && s.AfterCB != "" {
		loc := s.AfterCB
		s.AfterCB = ""
		if u, err := url.Parse(loc); err == nil && u.Host == s.AppHost {
			p := u.EscapedPath()
			if u.RawQuery != "" {
				p += "?" + u.RawQuery
			}
			st = s.Visit(p)
		}
	}
	return st
}

func (s *Sim) Tick(d time.Duration) { s.w.Tick(d) }

// ---- random behaviours

func (s *Sim) randCompliant() idpBehaviour {
	r := s.r
	b := compliant()
	b.Sig = pick(r, []string{"good-rsa", "good-rsa", "good-ec"})
	b.Aud = pick(r, []string{"ok", "ok", "array"})
	b.ExpiresIn = pick(r, []int{0, 60, 300, 3600})
	b.IDLife = pick(r, []int{120, 600, 3600})
	b.Refresh = r.Intn(4) != 0
	b.Rotate = r.Intn(2) == 0
	b.TokenType = pick(r, []string{"Bearer", "bearer", "BEARER", "bEaReR"})
	b.Extra = r.Intn(3) == 0
	b.OmitID = r.Intn(4) == 0
	if s.w.Cfg.GetAccessToken() == nil {
		b.OmitAccess = r.Intn(3) == 0
	}
	return b
}

func (s *Sim) randAdversarial() idpBehaviour {
	r := s.r
	b := s.randCompliant()
	switch r.Intn(12) {
	case 10, 11:
		b.OddClaims = 1 + r.Intn(48)
	case 0, 1, 2:
		b.Sig = pick(r, []string{"none", "hs-pub", "foreign", "tampered", "stripped", "nokid", "unknownkid", "garbage", "twoseg", "bare-claims"})
	case 3:
		b.Aud = pick(r, []string{"absent", "foreign", "nearmiss"})
	case 4:
		b.Nonce = pick(r, []string{"absent", "foreign", "empty", "other"})
	case 5:
		b.Kind = pick(r, []string{"transport", "status", "badjson", "null"})
	case 6:
		b.TokenType = pick(r, []string{"", "MAC", "Bearer ", "Bear", "bearerK"})
	case 7:
		b.ExpiresIn = -1 - r.Intn(100)
	case 8:
		b.IDLife = pick(r, []int{0, -60})
	case 9:
		if s.w.Cfg.GetAccessToken() != nil {
			b.OmitAccess = true
		} else {
			b.HugeExpires = true
		}
	}
	return b
}

var appPaths = []string{"/", "/app", "/app/x?y=1&z=%20a", "/a%2Fb?next=/home?tab=1#frag", "/index.html", "/app?q=a+b&r=%26", "/ü/é?k=ü", "/logout-not", "/callbackx"}

// RandomStep performs one event drawn from the weighted classes; returns its class name.
func (s *Sim) RandomStep(faultRate, attackRate int) string {
	r := s.r
	x := r.Intn(100)
	switch {
	case x < faultRate:
		// a request with a store fault at a random call index (before/after), sometimes two, or a key-lookup failure
		f := map[int]faultKind{r.Intn(4): pick(r, []faultKind{failBefore, failAfter})}
		if r.Intn(4) == 0 {
			f[r.Intn(5)] = pick(r, []faultKind{failBefore, failAfter})
		}
		jf := r.Intn(4) == 0
		if s.w.rhook != nil && r.Intn(3) == 0 { // Redis: fail a single command instead (single-command operations only)
			f = nil
			s.w.NextCmdFaults = []string{pick(r, []string{"del", "hmget", "del"})}
		}
		path := pick(r, appPaths)
		if s.Pending != nil && r.Intn(2) == 0 {
			path = s.Authorize()
			s.beh = s.randCompliant()
		} else if len(s.SeenCallbacks) > 0 && r.Intn(6) == 0 {
			path = pick(r, s.SeenCallbacks)
		} else if s.w.Cfg.GetLogout() != nil && r.Intn(8) == 0 {
			path = "/logout"
		}
		s.request(reqSpec{Scheme: "https", Host: s.AppHost, Path: path, Cookie: s.cookie(s.Jar)}, f, jf)
		s.beh = compliant()
		return "fault"
	case x < faultRate+attackRate:
		return s.attack()
	}
	switch y := r.Intn(100); {
	case y < 30:
		s.Visit(pick(r, appPaths))
		return "visit"
	case y < 50:
		if s.Pending != nil {
			cb := s.Authorize()
			if r.Intn(4) == 0 {
				s.beh = s.randAdversarial()
			} else {
				s.beh = s.randCompliant()
			}
			s.Visit(cb)
			s.beh = compliant()
			return "callback"
		}
		s.Login(pick(r, appPaths), s.randCompliant())
		return "login"
	case y < 75:
		// clock: land around interesting instants
		d := pick(r, []time.Duration{time.Second, 30 * time.Second, 59 * time.Second, 60 * time.Second, 61 * time.Second, 119 * time.Second,
			120 * time.Second, 121 * time.Second, 295 * time.Second, 299*time.Second + 999_999_990, 300 * time.Second, 301 * time.Second, 600 * time.Second, 3601 * time.Second,
			time.Nanosecond, 5 * time.Nanosecond})
		s.Tick(d)
		// a visit after the advance, with a provider behaviour for a possible refresh
		if r.Intn(3) == 0 {
			s.beh = s.randAdversarial()
		} else {
			s.beh = s.randCompliant()
		}
		s.Visit(pick(r, appPaths))
		s.beh = compliant()
		return "tick+visit"
	case y < 82:
		if s.w.Cfg.GetLogout() != nil {
			s.Visit("/logout")
			return "logout"
		}
		s.Visit("/logout")
		return "visit"
	case y < 90:
		if s.AfterCB != "" {
			loc := s.AfterCB
			s.AfterCB = ""
			if u, err := url.Parse(loc); err == nil {
				p := u.EscapedPath()
				if u.RawQuery != "" {
					p += "?" + u.RawQuery
				}
				s.Visit(p)
				return "follow"
			}
		}
		s.Visit(pick(r, appPaths))
		return "visit"
	default:
		s.request(reqSpec{NoHTTP: r.Intn(3) == 0, Scheme: pick(r, []string{"http", "https", ""}), Host: pick(r, []string{s.AppHost, "evil.test", ""}),
			Path: pick(r, appPaths), Query: pick(r, []string{"", "", "sep=1"}), Cookie: s.cookie(s.Jar)}, nil, false)
		return "odd-request"
	}
}

func (s *Sim) attack() string {
	r := s.r
	ck := s.cookie(s.Jar)
	name := cookieName(s.w.Cfg.GetCookieNamePrefix())
	kind := r.Intn(12)
	switch kind {
	case 0: // replay an earlier callback under the current cookie
		if len(s.SeenCallbacks) > 0 {
			s.Visit(pick(r, s.SeenCallbacks))
			return "attack:replay-callback"
		}
	case 1: // replay an earlier callback under an earlier / other session id
		if len(s.SeenCallbacks) > 0 && len(s.SeenSids) > 0 {
			s.request(reqSpec{Scheme: "https", Host: s.AppHost, Path: pick(r, s.SeenCallbacks), Cookie: s.cookie(pick(r, s.SeenSids))}, nil, false)
			return "attack:callback-other-session"
		}
	case 2: // forged / near-miss state or code
		st := "forged"
		if s.Pending != nil {
			st = s.Pending.Get("state")
		}
		q := pick(r, []string{
			"code=x&state=" + st + "x", "code=x&state=" + strings.ToUpper(st), "code=x&State=" + st, "state=" + st, "code=x",
			"code=x&state=&state=" + st, "code=&code=x&state=" + st, "state=" + st + "&code=x;y", "code=%zz&state=" + st, "", "&&", "code=x&state=" + st[:len(st)/2],
			"state=" + url.QueryEscape(st) + "&code=forged-code", "STATE=" + st + "&CODE=x"})
		s.request(reqSpec{Scheme: "https", Host: s.AppHost, Path: s.cbPath + "?" + q, Cookie: ck}, nil, false)
		return "attack:forged-callback"
	case 3: // stale / attacker-chosen / garbage cookie
		sid := pick(r, []string{"attacker-chosen", "", "deleted", "S1", "a=b", " "})
		if len(s.SeenSids) > 0 && r.Intn(2) == 0 {
			sid = pick(r, s.SeenSids)
		}
		s.request(reqSpec{Scheme: "https", Host: s.AppHost, Path: pick(r, appPaths), Cookie: name + "=" + sid}, nil, false)
		return "attack:foreign-cookie"
	case 4: // cookie header shapes
		sid := s.Jar
		if sid == "" {
			sid = "x"
		}
		hdr := pick(r, []string{
			name + "=\"" + sid + "\"", name + "=\"", "a=\"; " + name + "=" + sid, "lang=en; a=\"; theme=dark", "\"=\"", name + "=\"\"", "a='; b=\"x",
			name + "=" + sid + "\"", "=\"", "\"", "a=b;\"", name + "=%22", name + "=\x00", name + "=\xff\xfe", "\xc2\xa0" + name + "=" + sid,
			"a=b; " + name + "=" + sid, name + "=" + sid + "; " + name + "=other", " " + name + "=" + sid + " ;c=d", name + "=" + sid + "=x",
			name + " =" + sid, strings.ToLower(name) + "=" + sid, name + "=", ";;;", name + "x=" + sid, "x" + name + "=" + sid, "\t" + name + "=" + sid + "\r\n"})
		s.request(reqSpec{Scheme: "https", Host: s.AppHost, Path: pick(r, appPaths), Cookie: hdr}, nil, false)
		return "attack:cookie-shapes"
	case 5: // callback on a wrong host / port variants
		if s.Pending != nil {
			cb := s.Authorize()
			host := pick(r, []string{"evil.test", strings.Split(s.AppHost, ":")[0], s.AppHost + ":1", strings.ToUpper(s.AppHost)})
			s.request(reqSpec{Scheme: "https", Host: host, Path: cb, Cookie: ck}, nil, false)
			return "attack:callback-host"
		}
	case 6: // provider misbehaves on an honest callback
		if s.Pending != nil {
			cb := s.Authorize()
			s.beh = s.randAdversarial()
			s.Visit(cb)
			s.beh = compliant()
			return "attack:idp-adversarial-login"
		}
	case 7: // logout path variants
		s.Visit(pick(r, []string{"/logout?x=1", "/logout#f", "/logout/", "/Logout", "/logout%2F"}))
		return "attack:logout-variants"
	case 8: // callback path variants with valid state
		if s.Pending != nil {
			st := s.Pending.Get("state")
			p := pick(r, []string{s.cbPath + "/", s.cbPath + "#?code=x&state=" + st, strings.ToUpper(s.cbPath) + "?code=x&state=" + st, s.cbPath + "?code=x&state=" + st + "#frag"})
			s.Visit(p)
			return "attack:callback-path-variants"
		}
	case 9: // second browser starts its own login, then the first one's callback arrives under the second cookie
		if s.Pending != nil {
			cb := s.Authorize()
			old := s.Jar
			s.Jar = ""
			s.Visit("/app")
			s.Visit(cb) // code+state of the first flow under the second session
			s.Jar = old
			s.Visit(cb) // and now the honest one (its code is still unused at the provider)
			return "attack:swap-between-browsers"
		}
	case 10: // request while login pending (not the callback)
		s.Visit(pick(r, appPaths))
		return "attack:pending-visit"
	}
	s.Visit(pick(r, appPaths))
	return "visit"
}
