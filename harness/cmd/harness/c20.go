package main

// c20.go — C20 (TLS trust follows the configuration): sequences of LoadTLSConfig calls, CA file rewrites and waits
// against the real pool and file watcher, judged by REAL TLS handshakes from clients built by NewHTTPClient against
// loopback servers whose certificates chain to throw-away CAs.

import (
	"context"
	"crypto/ecdsa"
	"crypto/elliptic"
	"crypto/rand"
	"crypto/tls"
	"crypto/x509"
	"crypto/x509/pkix"
	"encoding/pem"
	"fmt"
	"math/big"
	mrand "math/rand"
	"net"
	"net/http"
	"net/http/httptest"
	"os"
	"path/filepath"
	"time"

	"google.golang.org/protobuf/types/known/durationpb"
	"google.golang.org/protobuf/types/known/structpb"

	oidcv1 "github.com/istio-ecosystem/authservice/config/gen/go/v1/oidc"
	"github.com/istio-ecosystem/authservice/internal"
	inthttp "github.com/istio-ecosystem/authservice/internal/http"
	"github.com/istio-ecosystem/authservice/verifharness/gal"
)

type testCA struct {
	Name string
	PEM  string
	srv  *httptest.Server
}

func newTestCA(name string) *testCA {
	key, err := ecdsa.GenerateKey(elliptic.P256(), rand.Reader)
	must(err)
	tmpl := &x509.Certificate{SerialNumber: big.NewInt(time.Now().UnixNano()), Subject: pkix.Name{CommonName: "verif CA " + name},
		NotBefore: time.Now().Add(-time.Hour), NotAfter: time.Now().Add(24 * time.Hour), IsCA: true, KeyUsage: x509.KeyUsageCertSign | x509.KeyUsageDigitalSignature, BasicConstraintsValid: true}
	der, err := x509.CreateCertificate(rand.Reader, tmpl, tmpl, &key.PublicKey, key)
	must(err)
	caCert, _ := x509.ParseCertificate(der)
	skey, err := ecdsa.GenerateKey(elliptic.P256(), rand.Reader)
	must(err)
	stmpl := &x509.Certificate{SerialNumber: big.NewInt(time.Now().UnixNano() + 1), Subject: pkix.Name{CommonName: "127.0.0.1"}, IPAddresses: []net.IP{net.ParseIP("127.0.0.1")},
		NotBefore: time.Now().Add(-time.Hour), NotAfter: time.Now().Add(24 * time.Hour), KeyUsage: x509.KeyUsageDigitalSignature, ExtKeyUsage: []x509.ExtKeyUsage{x509.ExtKeyUsageServerAuth}}
	sder, err := x509.CreateCertificate(rand.Reader, stmpl, caCert, &skey.PublicKey, key)
	must(err)
	srv := httptest.NewUnstartedServer(http.HandlerFunc(func(w http.ResponseWriter, r *http.Request) { fmt.Fprint(w, "ok "+name) }))
	srv.TLS = &tls.Config{Certificates: []tls.Certificate{{Certificate: [][]byte{sder}, PrivateKey: skey}}}
	srv.StartTLS()
	return &testCA{Name: name, PEM: string(pem.EncodeToMemory(&pem.Block{Type: "CERTIFICATE", Bytes: der})), srv: srv}
}

type tlsSettings struct {
	CA, File string
	Skip     *structpb.Value
	Interval time.Duration
}

func (s tlsSettings) cfg() *oidcv1.OIDCConfig {
	o := &oidcv1.OIDCConfig{SkipVerifyPeerCert: s.Skip}
	if s.CA != "" {
		o.TrustedCaConfig = &oidcv1.OIDCConfig_TrustedCertificateAuthority{TrustedCertificateAuthority: s.CA}
	} else if s.File != "" {
		o.TrustedCaConfig = &oidcv1.OIDCConfig_TrustedCertificateAuthorityFile{TrustedCertificateAuthorityFile: s.File}
	}
	if s.Interval != 0 {
		o.TrustedCertificateAuthorityRefreshInterval = durationpb.New(s.Interval)
	}
	return o
}

func galSval(v *structpb.Value) string {
	if v == nil {
		return "None"
	}
	switch k := v.GetKind().(type) {
	case *structpb.Value_BoolValue:
		return "(Some (VBool " + gal.B(k.BoolValue) + "))"
	case *structpb.Value_StringValue:
		return "(Some (VStr " + gal.S(k.StringValue) + "))"
	case *structpb.Value_NullValue:
		return "(Some VNull)"
	}
	return "(Some VOther)"
}

// names of PEM contents / paths are used in the model instead of the bytes (short symbolic strings)
func (s tlsSettings) gal(sym func(string) string) string {
	return gal.Rec("ts_ca", gal.S(sym(s.CA)), "ts_file", gal.S(sym(s.File)), "ts_skip", galSval(s.Skip), "ts_interval", gal.Z(int64(s.Interval)),
		"ts_interval_str", gal.S(s.Interval.String()))
}

type tlsOp struct {
	Kind    string // load write wait probe
	S       int    // settings index (load) / loaded client index (probe)
	File    string
	Content string
	CA      string // probe: which CA's server
	Result  string // observed: load: nil|err|obj:<i> ; probe: ok|fail
}

func runC20(c *Ctx) {
	c.Sum.Rule = "sequences of LoadTLSConfig calls over settings drawn from {inline CA A/B/invalid, CA file f1/f2/missing/empty, skip_verify as bool, as string (true,false,1,T,yes,empty), null, number, absent} x refresh interval {0, 40 ms, 80 ms}, " +
		"CA file rewrites and waits of 10 intervals, against the real pool and watcher; after every step the clients built by NewHTTPClient at load time open NEW connections to loopback TLS servers of CA A and CA B (real handshakes); " +
		"plus the designed scenarios (settings whose concatenated fields coincide, two different settings watching one file, identical settings loaded twice); distinct_nontrivial = distinct (settings, operations, results) sequences with a successful handshake"
	A, B := newTestCA("A"), newTestCA("B")
	defer A.srv.Close()
	defer B.srv.Close()
	dir, err := os.MkdirTemp(c.Out, "ca")
	must(err)
	// bundles: both certificates in one PEM text, in either order (the roll-over step "old CA + new CA")
	AB, BA := A.PEM+B.PEM, B.PEM+A.PEM
	syms := map[string]string{A.PEM: "PEM-A", B.PEM: "PEM-B", AB: "PEM-A+PEM-B", BA: "PEM-B+PEM-A", "garbage": "garbage", "": ""}
	sym := func(s string) string {
		if v, ok := syms[s]; ok {
			return v
		}
		return "F:" + filepath.Base(s)
	}
	r := newRand(c.Seed, 20)
	n := 40
	if c.Thorough() {
		n = 250
	}
	skips := []*structpb.Value{nil, nil, structpb.NewBoolValue(true), structpb.NewBoolValue(false), structpb.NewStringValue("true"), structpb.NewStringValue("false"),
		structpb.NewStringValue("1"), structpb.NewStringValue("T"), structpb.NewStringValue("yes"), structpb.NewStringValue(""), structpb.NewNullValue(), structpb.NewNumberValue(1)}
	var cases []string
	var descr []any
	runScenario := func(name string, files map[string]string, settings []tlsSettings, plan []tlsOp) {
		ctx, cancel := context.WithCancel(context.Background())
		defer cancel()
		pool := internal.NewTLSConfigPool(ctx)
		for f, content := range files {
			must(os.WriteFile(f, []byte(content), 0o644))
		}
		ptrs := map[*tls.Config]int{}
		type loaded struct {
			client *http.Client
			ok     bool
		}
		var clients []loaded
		var ops []tlsOp
		probeAll := func() {
			for ci, cl := range clients {
				if !cl.ok {
					continue
				}
				for _, ca := range []*testCA{A, B} {
					cl.client.CloseIdleConnections()
					resp, err := cl.client.Get(ca.srv.URL)
					res := "fail"
					if err == nil {
						resp.Body.Close()
						res = "ok"
					}
					ops = append(ops, tlsOp{Kind: "probe", S: ci, CA: "PEM-" + ca.Name, Result: res})
					c.Sum.Evaluations++
				}
			}
		}
		for _, op := range plan {
			switch op.Kind {
			case "load":
				cfg := settings[op.S].cfg()
				t, err := pool.LoadTLSConfig(cfg)
				res := "nil"
				switch {
				case err != nil:
					res = "err"
				case t != nil:
					if _, ok := ptrs[t]; !ok {
						ptrs[t] = len(ptrs)
					}
					res = fmt.Sprintf("obj:%d", ptrs[t])
				}
				hc, herr := inthttp.NewHTTPClient(cfg, pool, nil)
				if herr == nil {
					hc.Timeout = 3 * time.Second
					if tr, ok := hc.Transport.(*http.Transport); ok {
						tr.DisableKeepAlives = true
					}
				}
				clients = append(clients, loaded{client: hc, ok: herr == nil && err == nil})
				op.Result = res
				ops = append(ops, op)
				c.Sum.Evaluations++
			case "write":
				tmp := op.File + ".tmp"
				must(os.WriteFile(tmp, []byte(op.Content), 0o644))
				must(os.Rename(tmp, op.File))
				ops = append(ops, op)
			case "wait":
				time.Sleep(10 * 40 * time.Millisecond)
				ops = append(ops, op)
			}
			if op.Kind != "write" { // between a rewrite and the next wait the watcher may or may not have fired yet
				probeAll()
			}
		}
		// Gallina
		var sg, og, od []string
		for _, s := range settings {
			sg = append(sg, s.gal(sym))
		}
		okSeen := false
		for _, op := range ops {
			switch op.Kind {
			case "load":
				res := "LNil"
				if op.Result == "err" {
					res = "LErr"
				} else if op.Result != "nil" {
					res = "(LObj " + op.Result[4:] + ")"
				}
				og = append(og, gal.App("OLoad", gal.N(op.S), res))
			case "write":
				og = append(og, gal.App("OWrite", gal.S(sym(op.File)), gal.S(sym(op.Content))))
			case "wait":
				og = append(og, "OWait")
			case "probe":
				og = append(og, gal.App("OProbe", gal.N(op.S), gal.S(op.CA), gal.B(op.Result == "ok")))
				if op.Result == "ok" {
					okSeen = true
				}
			}
			od = append(od, fmt.Sprintf("%s s=%d %s %s -> %s", op.Kind, op.S, sym(op.File), sym(op.Content)+op.CA, op.Result))
		}
		var fg []string
		for f, content := range files {
			fg = append(fg, gal.Pair(gal.S(sym(f)), gal.S(sym(content))))
		}
		cases = append(cases, gal.Rec("k_files", gal.L(fg), "k_settings", gal.L(sg), "k_ops", gal.L(og)))
		d := map[string]any{"scenario": name, "ops": od, "steps": []any{}}
		descr = append(descr, d)
		c.Hist("scenario", name)
		if okSeen {
			c.Distinct(fmt.Sprint(sg, od))
		}
		if len(c.Sum.Samples) < 3 {
			c.Sample(d)
		}
	}
	f := func(name string) string { return filepath.Join(dir, name) }
	iv := 40 * time.Millisecond
	// designed scenarios
	runScenario("pool-key-concatenation", map[string]string{f("a"): A.PEM, f("a1"): B.PEM},
		[]tlsSettings{{File: f("a"), Interval: 10 * time.Second}, {File: f("a1"), Interval: 0}},
		[]tlsOp{{Kind: "load", S: 0}, {Kind: "load", S: 1}})
	runScenario("identical-settings-share", map[string]string{f("s"): A.PEM},
		[]tlsSettings{{File: f("s"), Interval: iv}, {File: f("s"), Interval: iv}, {CA: B.PEM}, {CA: B.PEM, Skip: structpb.NewBoolValue(false)}},
		[]tlsOp{{Kind: "load", S: 0}, {Kind: "load", S: 1}, {Kind: "load", S: 2}, {Kind: "load", S: 3}, {Kind: "load", S: 0}})
	runScenario("rotation-single-watcher", map[string]string{f("r"): A.PEM},
		[]tlsSettings{{File: f("r"), Interval: iv}},
		[]tlsOp{{Kind: "load", S: 0}, {Kind: "write", File: f("r"), Content: B.PEM}, {Kind: "wait"}, {Kind: "write", File: f("r"), Content: A.PEM}, {Kind: "wait"}})
	runScenario("same-file-two-settings", map[string]string{f("t"): A.PEM},
		[]tlsSettings{{File: f("t"), Interval: iv}, {File: f("t"), Interval: 2 * iv}},
		[]tlsOp{{Kind: "load", S: 0}, {Kind: "load", S: 1}, {Kind: "write", File: f("t"), Content: B.PEM}, {Kind: "wait"}})
	// a load that fails (unusable file content) leaves a watcher behind whose callback finds no pooled configuration; the
	// same settings loaded again after the file became usable supersede it
	runScenario("failed-load-then-usable", map[string]string{f("g"): "garbage", f("u"): A.PEM},
		[]tlsSettings{{File: f("g"), Interval: iv}, {File: f("u"), Interval: iv}},
		[]tlsOp{{Kind: "load", S: 0}, {Kind: "load", S: 1}, {Kind: "write", File: f("g"), Content: B.PEM}, {Kind: "wait"},
			{Kind: "load", S: 0}, {Kind: "write", File: f("g"), Content: A.PEM}, {Kind: "wait"}})
	// roll-over through a bundle: A -> A+B -> B+A -> B
	runScenario("rotation-through-bundles", map[string]string{f("b"): A.PEM},
		[]tlsSettings{{File: f("b"), Interval: iv}, {CA: BA}},
		[]tlsOp{{Kind: "load", S: 0}, {Kind: "load", S: 1}, {Kind: "write", File: f("b"), Content: AB}, {Kind: "wait"}, {Kind: "write", File: f("b"), Content: BA}, {Kind: "wait"},
			{Kind: "write", File: f("b"), Content: B.PEM}, {Kind: "wait"}})
	runScenario("skip-verify-forms", nil,
		[]tlsSettings{{Skip: skips[2]}, {Skip: skips[3]}, {Skip: skips[4]}, {Skip: skips[5]}, {Skip: skips[6]}, {Skip: skips[7]}, {Skip: skips[8]}, {Skip: skips[9]}, {Skip: skips[10]}, {Skip: skips[11]},
			{CA: A.PEM, Skip: skips[2]}, {}},
		[]tlsOp{{Kind: "load", S: 0}, {Kind: "load", S: 1}, {Kind: "load", S: 2}, {Kind: "load", S: 3}, {Kind: "load", S: 4}, {Kind: "load", S: 5}, {Kind: "load", S: 6},
			{Kind: "load", S: 7}, {Kind: "load", S: 8}, {Kind: "load", S: 9}, {Kind: "load", S: 10}, {Kind: "load", S: 11}})
	// random scenarios
	for i := 0; i < n; i++ {
		files := map[string]string{f(fmt.Sprintf("x%d", i)): pick(r, []string{A.PEM, B.PEM, A.PEM, "garbage", "", AB}), f(fmt.Sprintf("y%d", i)): pick(r, []string{A.PEM, B.PEM, BA})}
		var paths []string
		for p := range files {
			paths = append(paths, p)
		}
		sortStrings(paths)
		var settings []tlsSettings
		for k := 0; k < 2+r.Intn(3); k++ {
			s := tlsSettings{Skip: skips[r.Intn(len(skips))]}
			switch r.Intn(6) {
			case 0:
				s.CA = pick(r, []string{A.PEM, B.PEM, "garbage", AB})
			case 1, 2, 3:
				s.File = pick(r, append(paths, f("missing")))
				s.Interval = pick(r, []time.Duration{0, iv, iv, 2 * iv})
			}
			settings = append(settings, s)
		}
		var plan []tlsOp
		for k := 0; k < 3+r.Intn(5); k++ {
			switch x := r.Intn(10); {
			case x < 5:
				plan = append(plan, tlsOp{Kind: "load", S: r.Intn(len(settings))})
			case x < 8:
				plan = append(plan, tlsOp{Kind: "write", File: pick(r, paths), Content: pick(r, []string{A.PEM, B.PEM, AB, BA})}, tlsOp{Kind: "wait"})
			default:
				plan = append(plan, tlsOp{Kind: "wait"})
			}
		}
		runScenario("random", files, settings, plan)
	}
	c.WriteShardWith("Tls.Pool Corr.C20", "case20", cases, descr, "", "run cases")
}

var _ = mrand.Int

func init() { props["C20"] = runC20 }
