package main

import (
	"context"
	"math/rand"

	corev3 "github.com/envoyproxy/go-control-plane/envoy/config/core/v3"
	envoy "github.com/envoyproxy/go-control-plane/envoy/service/auth/v3"
)

var bg = context.Background()

func newRand(seed int64, salt int64) *rand.Rand { return rand.New(rand.NewSource(seed*1000003 + salt)) }

// mkReq builds a CheckRequest the way Envoy does: lower-case header names, ":path" in Path.
func mkReq(scheme, host, path string, headers map[string]string) *envoy.CheckRequest {
	return &envoy.CheckRequest{Attributes: &envoy.AttributeContext{Request: &envoy.AttributeContext_Request{
		Http: &envoy.AttributeContext_HttpRequest{Method: "GET", Scheme: scheme, Host: host, Path: path, Headers: headers}}}}
}

func words(alpha string, n int) []string {
	if n == 0 {
		return []string{""}
	}
	sub := words(alpha, n-1)
	out := make([]string, 0, len(sub)*len(alpha))
	for i := 0; i < len(alpha); i++ {
		for _, w := range sub {
			out = append(out, string(alpha[i])+w)
		}
	}
	return out
}

func wordsUpto(alpha string, n int) []string {
	var out []string
	for i := 0; i <= n; i++ {
		out = append(out, words(alpha, i)...)
	}
	return out
}

func pick[T any](r *rand.Rand, xs []T) T { return xs[r.Intn(len(xs))] }

func hdrs(resp []*corev3.HeaderValueOption) map[string][]string {
	m := map[string][]string{}
	for _, h := range resp {
		k := h.GetHeader().GetKey()
		m[k] = append(m[k], h.GetHeader().GetValue())
	}
	return m
}
