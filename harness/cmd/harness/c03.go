package main

import (
	"fmt"
	"time"
)

func init() { props["C03"] = runC03 }

var c03URLs = []string{"/", "/app", "/app/x?y=1&z=%20a", "/a%2Fb?next=/home?tab=1", "/index.html?a=b&a=c", "/app?q=a+b&r=%26&s==",
	"/\xc3\xbc/\xc3\xa9?k=\xc3\xbc", "/p;x=1/q?u=https://o.test/?a=1&b=2", "/a?", "/%3F%23?%23", "/a/../b/./c//d", "/~user/-_.!*'()", "/x?[]{}|^`<>\"\\"}

func runC03(c *Ctx) {
	r := newRand(c.Seed, 3)
	nURL := 5
	if c.Thorough() {
		nURL = len(c03URLs)
	}
	c.Sum.Rule = "full browser runs (first visit -> provider -> callback -> original URL -> 1-8 further requests inside the token lifetime) over the product of " +
		"compliant provider behaviours (expires_in present/absent, refresh token or not, string/array audience, RSA/EC key, 4 capitalisations of token_type, extra members, access token present/absent) " +
		"x 3 filter configurations x {memory, redis} x URLs with reserved and non-ASCII bytes; distinct_nontrivial = distinct (behaviour, config, store, URL) runs"
	var cases []string
	var descr []any
	per := 60
	flush := func() {
		if len(cases) > 0 {
			c.WriteShard("Oidc.Types Corr.Hist Corr.C03", "hist", cases, descr)
			cases, descr = nil, nil
		}
	}
	n := 0
	for _, expIn := range []int{0, 60, 3600} {
		for _, refresh := range []bool{true, false} {
			for _, aud := range []string{"ok", "array"} {
				for _, tt := range []string{"Bearer", "bearer", "BEARER", "bEaReR"} {
					for ci := 0; ci < 3; ci++ {
						for _, store := range []string{"memory", "redis"} {
							for ui := 0; ui < nURL; ui++ {
								n++
								if !c.Thorough() && (n%3 != 0) { // quick: a third of the product, rotating through all dimensions
									continue
								}
								o := cfgVariants[ci]
								o.Store = store
								w := newWorld(c.Seed*31+int64(n), o)
								s := newSim(w, newRand(c.Seed, int64(n)))
								b := compliant()
								b.ExpiresIn, b.Refresh, b.Aud, b.TokenType = expIn, refresh, aud, tt
								b.Sig = pick(r, []string{"good-rsa", "good-ec"})
								b.Extra = r.Intn(2) == 0
								b.IDLife = pick(r, []int{120, 600})
								b.OmitAccess = !o.Access && r.Intn(2) == 0
								u := c03URLs[(ui+n)%len(c03URLs)]
								s.Login(u, b)
								// further requests strictly inside min(id-token lifetime, access-token lifetime if known)
								life := time.Duration(b.IDLife) * time.Second
								if o.Access && expIn != 0 && time.Duration(expIn)*time.Second < life {
									life = time.Duration(expIn) * time.Second
								}
								k := 1 + r.Intn(8)
								for j := 0; j < k; j++ {
									s.Tick(life / time.Duration(k+2))
									s.Visit(pick(r, []string{u, "/other", "/"}))
								}
								c.Sum.Evaluations += len(s.Steps)
								c.Distinct(fmt.Sprintf("%s|%d|%s|%s", b.label(), ci, store, u))
								c.Hist("expires_in", fmt.Sprint(expIn))
								c.Hist("store", store)
								if s.AuthCount != 1 {
									c.Sum.GoFindings = append(c.Sum.GoFindings, Finding{Signature: "C03/provider-visited-again",
										What: fmt.Sprintf("the browser was sent to the provider %d times", s.AuthCount), Replay: s.descr(nil)})
								}
								if len(w.LateMutations) > 0 {
									c.Sum.GoFindings = append(c.Sum.GoFindings, Finding{Signature: "C03/answer-changed-after-it-was-returned",
										What: "an answer already returned by a check changed while a later check was processed (responses share mutable state): " + w.LateMutations[0],
										Replay: s.descr(map[string]any{"late_mutations": w.LateMutations})})
								}
								cases = append(cases, s.galHist())
								d := s.descr(map[string]any{"behaviour": b.label(), "first_url": u})
								descr = append(descr, d)
								if n%97 == 0 {
									c.Sample(d)
								}
								w.Close()
								if len(cases) == per {
									flush()
								}
							}
						}
					}
				}
			}
		}
	}
	flush()
}
