package main

// c17.go — C17 (configuration loading): JSON documents from a grammar over every field, oneof arm, omission and
// odd value, plus mutations of the repository's fixtures, loaded through LocalConfigFile.Validate under recover().

import (
	"encoding/json"
	"fmt"
	mrand "math/rand"
	"net"
	"net/url"
	"os"
	"path/filepath"
	"strings"

	"github.com/redis/go-redis/v9"
	"google.golang.org/protobuf/encoding/protojson"
	"google.golang.org/protobuf/proto"
	"google.golang.org/protobuf/types/known/durationpb"
	"google.golang.org/protobuf/types/known/structpb"

	configv1 "github.com/istio-ecosystem/authservice/config/gen/go/v1"
	mockv1 "github.com/istio-ecosystem/authservice/config/gen/go/v1/mock"
	oidcv1 "github.com/istio-ecosystem/authservice/config/gen/go/v1/oidc"
	"github.com/istio-ecosystem/authservice/internal"
	"github.com/istio-ecosystem/authservice/verifharness/gal"
)

func galURL(s string) string {
	ok, path := true, ""
	if s != "" {
		u, err := url.Parse(s)
		ok = err == nil
		if ok {
			path = u.Path
		}
	}
	return gal.Rec("u_text", gal.S(s), "u_ok", gal.B(ok), "u_path", gal.S(path))
}

func galPval(v *structpb.Value) string {
	if v == nil {
		return "None"
	}
	switch k := v.GetKind().(type) {
	case *structpb.Value_BoolValue:
		return "(Some (PBool " + gal.B(k.BoolValue) + "))"
	case *structpb.Value_StringValue:
		return "(Some (PStr " + gal.S(k.StringValue) + "))"
	case *structpb.Value_NumberValue:
		return "(Some PNum)"
	case *structpb.Value_StructValue:
		return "(Some PStruct)"
	case *structpb.Value_ListValue:
		return "(Some PList)"
	}
	return "(Some PNull)"
}

func galTokc(t *oidcv1.TokenConfig) string {
	if t == nil {
		return "None"
	}
	return "(Some " + gal.Rec("tk_header", gal.S(t.GetHeader()), "tk_preamble", gal.S(t.GetPreamble())) + ")"
}

func galOidc(o *oidcv1.OIDCConfig) string {
	jw := "JNone"
	switch j := o.GetJwksConfig().(type) {
	case *oidcv1.OIDCConfig_Jwks:
		jw = "(JInline " + gal.S(j.Jwks) + ")"
	case *oidcv1.OIDCConfig_JwksFetcher:
		jw = "(JFetcher " + gal.Rec("jf_uri", galURL(j.JwksFetcher.GetJwksUri()), "jf_interval", gal.N(int(j.JwksFetcher.GetPeriodicFetchIntervalSec())),
			"jf_skip", galPval(j.JwksFetcher.GetSkipVerifyPeerCert())) + ")"
	}
	sec := "SNone"
	switch s := o.GetClientSecretConfig().(type) {
	case *oidcv1.OIDCConfig_ClientSecret:
		sec = "(SLiteral " + gal.S(s.ClientSecret) + ")"
	case *oidcv1.OIDCConfig_ClientSecretRef:
		sec = "(SRef " + gal.S(s.ClientSecretRef.GetNamespace()) + " " + gal.S(s.ClientSecretRef.GetName()) + ")"
	}
	ca := "CANone"
	switch c := o.GetTrustedCaConfig().(type) {
	case *oidcv1.OIDCConfig_TrustedCertificateAuthority:
		ca = "(CAInline " + gal.S(c.TrustedCertificateAuthority) + ")"
	case *oidcv1.OIDCConfig_TrustedCertificateAuthorityFile:
		ca = "(CAFile " + gal.S(c.TrustedCertificateAuthorityFile) + ")"
	}
	var scopes []string
	for _, s := range o.GetScopes() {
		scopes = append(scopes, gal.S(s))
	}
	lo := "None"
	if l := o.GetLogout(); l != nil {
		lo = "(Some " + gal.Rec("lg_path", gal.S(l.GetPath()), "lg_redirect", gal.S(l.GetRedirectUri())) + ")"
	}
	rd := "None"
	if r := o.GetRedisSessionStoreConfig(); r != nil {
		_, err := redis.ParseURL(strings.Replace(r.GetServerUri(), "tcp://", "redis://", 1))
		rd = "(Some " + gal.Rec("rd_uri", gal.S(r.GetServerUri()), "rd_ok", gal.B(err == nil)) + ")"
	}
	dur := "None"
	if d := o.GetTrustedCertificateAuthorityRefreshInterval(); d != nil {
		dur = "(Some " + gal.Rec("dur_s", gal.Z(d.GetSeconds()), "dur_ns", gal.Z(int64(d.GetNanos()))) + ")"
	}
	return gal.Rec("o_configuration_uri", galURL(o.GetConfigurationUri()), "o_authorization_uri", galURL(o.GetAuthorizationUri()),
		"o_token_uri", galURL(o.GetTokenUri()), "o_callback_uri", galURL(o.GetCallbackUri()), "o_jwks", jw,
		"o_client_id", gal.S(o.GetClientId()), "o_secret", sec, "o_scopes", gal.L(scopes), "o_cookie_prefix", gal.S(o.GetCookieNamePrefix()),
		"o_id_token", galTokc(o.GetIdToken()), "o_access_token", galTokc(o.GetAccessToken()), "o_logout", lo,
		"o_abs", gal.N(int(o.GetAbsoluteSessionTimeout())), "o_idle", gal.N(int(o.GetIdleSessionTimeout())), "o_ca", ca, "o_ca_refresh", dur,
		"o_proxy_uri", galURL(o.GetProxyUri()), "o_redis", rd, "o_skip_verify", galPval(o.GetSkipVerifyPeerCert()))
}

func galConfig(k *configv1.Config) string {
	var chains []string
	for _, ch := range k.GetChains() {
		m := "None"
		if mt := ch.GetMatch(); mt != nil {
			cr := "CritNone"
			switch c := mt.GetCriteria().(type) {
			case *configv1.Match_Prefix:
				cr = "(CritPrefix " + gal.S(c.Prefix) + ")"
			case *configv1.Match_Equality:
				cr = "(CritEq " + gal.S(c.Equality) + ")"
			}
			m = "(Some " + gal.Rec("mt_header", gal.S(mt.GetHeader()), "mt_crit", cr) + ")"
		}
		var fs []string
		for _, f := range ch.GetFilters() {
			switch t := f.GetType().(type) {
			case *configv1.Filter_Oidc:
				fs = append(fs, "(FOidc "+galOidc(t.Oidc)+")")
			case *configv1.Filter_OidcOverride:
				fs = append(fs, "(FOverride "+galOidc(t.OidcOverride)+")")
			case *configv1.Filter_Mock:
				fs = append(fs, "(FMock "+gal.B(t.Mock.GetAllow())+")")
			default:
				fs = append(fs, "FNoType")
			}
		}
		chains = append(chains, gal.Rec("ch_name", gal.S(ch.GetName()), "ch_match", m, "ch_filters", gal.L(fs)))
	}
	d := "None"
	if k.GetDefaultOidcConfig() != nil {
		d = "(Some " + galOidc(k.GetDefaultOidcConfig()) + ")"
	}
	return gal.Rec("chains", gal.L(chains), "listen_address", gal.S(k.GetListenAddress()), "listen_ip_ok", gal.B(net.ParseIP(k.GetListenAddress()) != nil),
		"listen_port", gal.Z(int64(k.GetListenPort())), "log_level", gal.S(k.GetLogLevel()), "threads", gal.N(int(k.GetThreads())),
		"default_oidc", d, "allow_unmatched", gal.B(k.GetAllowUnmatchedRequests()), "health_port", gal.Z(int64(k.GetHealthListenPort())))
}

// ---- the grammar

var (
	gURLs      = []string{"", "", "https://idp.test/auth", "http://a/b?x=1", "https://app.test/callback", "https://app.test/", "https://app.test", "://bad", "http://[::1", "%zz", "/relative/path", "https://app.test/logout", "https://app.test/cb?x=1#f", "ht tp://invalid"}
	gRedis     = []string{"", "redis://h:6379", "tcp://h:6379/1", "tcp://tcp://x", "notredis://h", "redis://h:6379/abc", "rediss://u:p@h:1/2"}
	gPaths     = []string{"", "/", "/logout", "/callback", "/cb", "logout"}
	gClientIDs = []string{"", "c", "client-1", "a:b", ":", "ü"}
	gStrs      = []string{"", "x", "Bearer", "a b"}
)

func genTok(r *mrand.Rand) *oidcv1.TokenConfig {
	switch r.Intn(4) {
	case 0:
		return nil
	case 1:
		return &oidcv1.TokenConfig{}
	}
	return &oidcv1.TokenConfig{Header: pick(r, []string{"authorization", "x-tok", ""}), Preamble: pick(r, gStrs)}
}

func genValue(r *mrand.Rand) *structpb.Value {
	switch r.Intn(7) {
	case 0:
		return structpb.NewBoolValue(r.Intn(2) == 0)
	case 1:
		return structpb.NewStringValue(pick(r, []string{"true", "false", "", "x"}))
	case 2:
		return structpb.NewNumberValue(1)
	case 3:
		return structpb.NewNullValue()
	}
	return nil
}

// genOIDC: sparse selects few fields (an override), otherwise most fields are set.
func genOIDC(r *mrand.Rand, sparse bool) *oidcv1.OIDCConfig {
	p := 75
	if sparse {
		p = 25
	}
	set := func() bool { return r.Intn(100) < p }
	o := &oidcv1.OIDCConfig{}
	if set() {
		o.ConfigurationUri = pick(r, gURLs)
	}
	if set() {
		o.AuthorizationUri = pick(r, gURLs)
	}
	if set() {
		o.TokenUri = pick(r, gURLs)
	}
	if set() {
		o.CallbackUri = pick(r, gURLs)
	}
	if set() {
		if r.Intn(2) == 0 {
			o.JwksConfig = &oidcv1.OIDCConfig_Jwks{Jwks: pick(r, []string{"", "{\"keys\":[]}"})}
		} else {
			o.JwksConfig = &oidcv1.OIDCConfig_JwksFetcher{JwksFetcher: &oidcv1.OIDCConfig_JwksFetcherConfig{JwksUri: pick(r, gURLs), PeriodicFetchIntervalSec: uint32(r.Intn(3)), SkipVerifyPeerCert: genValue(r)}}
		}
	}
	if set() {
		o.ClientId = pick(r, gClientIDs)
	}
	if set() {
		if r.Intn(2) == 0 {
			o.ClientSecretConfig = &oidcv1.OIDCConfig_ClientSecret{ClientSecret: pick(r, []string{"", "s3cret"})}
		} else {
			o.ClientSecretConfig = &oidcv1.OIDCConfig_ClientSecretRef{ClientSecretRef: &oidcv1.OIDCConfig_SecretReference{Namespace: pick(r, []string{"", "ns"}), Name: pick(r, []string{"", "sec"})}}
		}
	}
	if set() {
		o.Scopes = pick(r, [][]string{nil, {"openid"}, {"a", "b"}, {"openid", "openid"}, {"email", "openid"}, {""}})
	}
	if set() {
		o.CookieNamePrefix = pick(r, []string{"", "p", "a;b"})
	}
	if set() {
		o.IdToken = genTok(r)
	}
	if r.Intn(3) == 0 {
		o.AccessToken = genTok(r)
	}
	if set() && r.Intn(2) == 0 {
		o.Logout = &oidcv1.LogoutConfig{Path: pick(r, gPaths), RedirectUri: pick(r, gURLs)}
	}
	if r.Intn(4) == 0 {
		o.AbsoluteSessionTimeout, o.IdleSessionTimeout = uint32(r.Intn(3)), uint32(r.Intn(3))
	}
	switch r.Intn(6) {
	case 0:
		o.TrustedCaConfig = &oidcv1.OIDCConfig_TrustedCertificateAuthority{TrustedCertificateAuthority: pick(r, []string{"", "PEM"})}
	case 1:
		o.TrustedCaConfig = &oidcv1.OIDCConfig_TrustedCertificateAuthorityFile{TrustedCertificateAuthorityFile: pick(r, []string{"", "/ca.pem"})}
	}
	if r.Intn(5) == 0 {
		o.TrustedCertificateAuthorityRefreshInterval = &durationpb.Duration{Seconds: int64(r.Intn(3)), Nanos: int32(r.Intn(2) * 500)}
	}
	if r.Intn(5) == 0 {
		o.ProxyUri = pick(r, gURLs)
	}
	if r.Intn(4) == 0 {
		o.RedisSessionStoreConfig = &oidcv1.RedisConfig{ServerUri: pick(r, gRedis)}
	}
	if r.Intn(5) == 0 {
		o.SkipVerifyPeerCert = genValue(r)
	}
	return o
}

// a configuration that is accepted, to be perturbed
func goodOIDC() *oidcv1.OIDCConfig {
	return &oidcv1.OIDCConfig{AuthorizationUri: "https://idp.test/auth", TokenUri: "https://idp.test/token", CallbackUri: "https://app.test/callback",
		JwksConfig: &oidcv1.OIDCConfig_Jwks{Jwks: "{\"keys\":[]}"}, ClientId: "client-1", ClientSecretConfig: &oidcv1.OIDCConfig_ClientSecret{ClientSecret: "s"},
		IdToken: &oidcv1.TokenConfig{Header: "authorization", Preamble: "Bearer"}}
}

// validConfig: an acceptable document of random shape (default + overrides, or self-contained filters, mocks, matches).
func validConfig(r *mrand.Rand) *configv1.Config {
	k := &configv1.Config{ListenAddress: pick(r, []string{"0.0.0.0", "::1", "127.0.0.1"}), ListenPort: 10003, LogLevel: pick(r, []string{"info", "trace", "debug", "error", "critical"}),
		Threads: uint32(r.Intn(3)), AllowUnmatchedRequests: r.Intn(2) == 0, HealthListenPort: pick(r, []int32{10004, 0})}
	hasDefault := r.Intn(2) == 0
	if hasDefault {
		k.DefaultOidcConfig = goodOIDC()
		if r.Intn(2) == 0 {
			k.DefaultOidcConfig.Logout = &oidcv1.LogoutConfig{Path: "/logout", RedirectUri: "https://idp.test/logout"}
		}
		if r.Intn(3) == 0 {
			k.DefaultOidcConfig.Scopes = []string{"email"}
		}
		if r.Intn(3) == 0 { // discovery instead of static endpoints
			k.DefaultOidcConfig.ConfigurationUri, k.DefaultOidcConfig.AuthorizationUri, k.DefaultOidcConfig.TokenUri, k.DefaultOidcConfig.JwksConfig = "https://idp.test/.well-known/openid-configuration", "", "", nil
		}
	}
	for i, n := 0, 1+r.Intn(3); i < n; i++ {
		ch := &configv1.FilterChain{Name: fmt.Sprintf("chain-%d", i)}
		switch r.Intn(4) {
		case 1:
			ch.Match = &configv1.Match{Header: "x-tenant", Criteria: &configv1.Match_Prefix{Prefix: "p"}}
		case 2:
			ch.Match = &configv1.Match{Header: "x-tenant", Criteria: &configv1.Match_Equality{Equality: "v"}}
		}
		oidcAt := r.Intn(3) // position of the (single) OIDC filter, if any
		for j, m := 0, 1+r.Intn(3); j < m; j++ {
			f := &configv1.Filter{Type: &configv1.Filter_Mock{Mock: &mockv1.MockConfig{Allow: r.Intn(2) == 0}}}
			if j == oidcAt {
				if hasDefault {
					ov := &oidcv1.OIDCConfig{}
					if r.Intn(2) == 0 {
						ov.ClientId, ov.ClientSecretConfig = "tenant-client", &oidcv1.OIDCConfig_ClientSecretRef{ClientSecretRef: &oidcv1.OIDCConfig_SecretReference{Name: "sec"}}
					}
					if r.Intn(2) == 0 {
						ov.CallbackUri = "https://tenant.test/oauth/cb"
					}
					if r.Intn(3) == 0 {
						ov.Scopes = []string{"profile"}
					}
					if r.Intn(3) == 0 {
						ov.Logout = &oidcv1.LogoutConfig{Path: "/bye"}
					}
					if r.Intn(3) == 0 {
						ov.IdToken = &oidcv1.TokenConfig{Preamble: "Tok"}
					}
					if r.Intn(4) == 0 {
						ov.RedisSessionStoreConfig = &oidcv1.RedisConfig{ServerUri: "tcp://redis:6379/1"}
					}
					if r.Intn(4) == 0 {
						ov.JwksConfig = &oidcv1.OIDCConfig_JwksFetcher{JwksFetcher: &oidcv1.OIDCConfig_JwksFetcherConfig{JwksUri: "https://idp.test/keys", PeriodicFetchIntervalSec: 60}}
					}
					f.Type = &configv1.Filter_OidcOverride{OidcOverride: ov}
				} else {
					o := goodOIDC()
					if r.Intn(2) == 0 {
						o.Logout = &oidcv1.LogoutConfig{Path: "/logout", RedirectUri: "https://idp.test/logout"}
					}
					if r.Intn(3) == 0 {
						o.AccessToken = &oidcv1.TokenConfig{Header: "x-access-token"}
					}
					f.Type = &configv1.Filter_Oidc{Oidc: o}
				}
			}
			ch.Filters = append(ch.Filters, f)
		}
		k.Chains = append(k.Chains, ch)
	}
	return k
}

// perturb applies one random edit that may or may not make the document unacceptable.
func perturb(r *mrand.Rand, k *configv1.Config) {
	anyOIDC := func() *oidcv1.OIDCConfig {
		var all []*oidcv1.OIDCConfig
		if k.DefaultOidcConfig != nil {
			all = append(all, k.DefaultOidcConfig)
		}
		for _, ch := range k.Chains {
			for _, f := range ch.Filters {
				if f.GetOidc() != nil {
					all = append(all, f.GetOidc())
				}
				if f.GetOidcOverride() != nil {
					all = append(all, f.GetOidcOverride())
				}
			}
		}
		if len(all) == 0 {
			return &oidcv1.OIDCConfig{}
		}
		return all[r.Intn(len(all))]
	}
	anyChain := func() *configv1.FilterChain {
		if len(k.Chains) == 0 {
			return &configv1.FilterChain{}
		}
		return k.Chains[r.Intn(len(k.Chains))]
	}
	o := anyOIDC()
	switch r.Intn(30) {
	case 0:
		k.ListenAddress = pick(r, []string{"", "bad", "1.2.3"})
	case 1:
		k.ListenPort = pick(r, []int32{65536, -1, k.HealthListenPort})
	case 2:
		k.LogLevel = pick(r, []string{"", "verbose", "INFO"})
	case 3:
		k.HealthListenPort = pick(r, []int32{70000, k.ListenPort})
	case 4:
		k.Chains = nil
	case 5:
		anyChain().Name = ""
	case 6:
		anyChain().Filters = nil
	case 7:
		m := &configv1.Match{Header: pick(r, []string{"", "x"})}
		switch r.Intn(3) {
		case 0:
			m.Criteria = &configv1.Match_Prefix{}
		case 1:
			m.Criteria = &configv1.Match_Equality{}
		}
		anyChain().Match = m
	case 8:
		ch := anyChain()
		ch.Filters = append(ch.Filters, &configv1.Filter{}) // a filter without a type
	case 9:
		ch := anyChain()
		ch.Filters = append(ch.Filters, &configv1.Filter{Type: &configv1.Filter_Oidc{Oidc: goodOIDC()}}) // second OIDC filter / OIDC next to a default
	case 10:
		ch := anyChain()
		ch.Filters = append(ch.Filters, &configv1.Filter{Type: &configv1.Filter_OidcOverride{OidcOverride: genOIDC(r, true)}})
	case 11:
		k.DefaultOidcConfig = nil
	case 12:
		k.DefaultOidcConfig = genOIDC(r, false)
	case 13:
		o.CallbackUri = pick(r, gURLs)
	case 14:
		o.Logout = &oidcv1.LogoutConfig{Path: pick(r, gPaths), RedirectUri: pick(r, gURLs)}
	case 15:
		o.ClientId = pick(r, gClientIDs)
	case 16:
		switch r.Intn(4) {
		case 0:
			o.ClientSecretConfig = nil
		case 1:
			o.ClientSecretConfig = &oidcv1.OIDCConfig_ClientSecret{}
		case 2:
			o.ClientSecretConfig = &oidcv1.OIDCConfig_ClientSecretRef{ClientSecretRef: &oidcv1.OIDCConfig_SecretReference{}}
		default:
			o.ClientSecretConfig = &oidcv1.OIDCConfig_ClientSecretRef{ClientSecretRef: &oidcv1.OIDCConfig_SecretReference{Namespace: "other", Name: "s"}}
		}
	case 17:
		o.IdToken = genTok(r)
	case 18:
		o.AccessToken = genTok(r)
	case 19:
		o.Scopes = pick(r, [][]string{nil, {"openid"}, {"a", "b"}, {"openid", "openid"}, {""}})
	case 20:
		o.AuthorizationUri = pick(r, gURLs)
	case 21:
		o.TokenUri = pick(r, gURLs)
	case 22:
		switch r.Intn(5) {
		case 0:
			o.JwksConfig = nil
		case 1:
			o.JwksConfig = &oidcv1.OIDCConfig_Jwks{}
		case 2:
			o.JwksConfig = &oidcv1.OIDCConfig_Jwks{Jwks: "{}"}
		case 3:
			o.JwksConfig = &oidcv1.OIDCConfig_JwksFetcher{JwksFetcher: &oidcv1.OIDCConfig_JwksFetcherConfig{}}
		default:
			o.JwksConfig = &oidcv1.OIDCConfig_JwksFetcher{JwksFetcher: &oidcv1.OIDCConfig_JwksFetcherConfig{JwksUri: pick(r, gURLs)}}
		}
	case 23:
		o.ConfigurationUri = pick(r, gURLs)
	case 24:
		o.RedisSessionStoreConfig = &oidcv1.RedisConfig{ServerUri: pick(r, gRedis)}
	case 25:
		o.ProxyUri = pick(r, gURLs)
	case 26:
		o.TrustedCaConfig = &oidcv1.OIDCConfig_TrustedCertificateAuthority{TrustedCertificateAuthority: ""}
		o.TrustedCertificateAuthorityRefreshInterval = &durationpb.Duration{Seconds: int64(r.Intn(3)), Nanos: int32(r.Intn(2) * 500)}
	case 27:
		o.SkipVerifyPeerCert = genValue(r)
	case 28:
		proto.Reset(o)
		proto.Merge(o, genOIDC(r, r.Intn(2) == 0))
	case 29:
		o.CookieNamePrefix = pick(r, []string{"p", "a;b"})
	}
	// collisions that only exist after the merge: one half in the default block, the other in an override
	if k.DefaultOidcConfig != nil && r.Intn(12) == 0 {
		for _, ch := range k.Chains {
			for _, f := range ch.Filters {
				if ov := f.GetOidcOverride(); ov != nil {
					path := pick(r, []string{"/bye", "/oauth/cb", "/callback"})
					if r.Intn(2) == 0 {
						k.DefaultOidcConfig.Logout = &oidcv1.LogoutConfig{Path: path, RedirectUri: "https://idp.test/logout"}
						ov.CallbackUri = "https://tenant.test" + path
					} else {
						k.DefaultOidcConfig.CallbackUri = "https://app.test" + path
						ov.Logout = &oidcv1.LogoutConfig{Path: path}
					}
					return
				}
			}
		}
	}
}

func genConfig(r *mrand.Rand) *configv1.Config {
	k := validConfig(r)
	for i, n := 0, pick(r, []int{0, 0, 1, 1, 1, 2, 2, 3}); i < n; i++ {
		perturb(r, k)
	}
	return k
}

// loadDoc runs LocalConfigFile.Validate on the document; returns the class (0 accepted, 1 error, 2 panic), the
// resulting configuration when accepted, and a message.
func loadDoc(dir string, n int, doc []byte) (int, *configv1.Config, string) {
	p := filepath.Join(dir, fmt.Sprintf("cfg_%d.json", n%64))
	must(os.WriteFile(p, doc, 0o644))
	l := &internal.LocalConfigFile{}
	must(l.FlagSet().Parse([]string{"--config-path", p}))
	var err error
	var pv any
	func() {
		defer func() { pv = recover() }()
		err = l.Validate()
	}()
	switch {
	case pv != nil:
		return 2, nil, fmt.Sprint(pv)
	case err != nil:
		return 1, nil, err.Error()
	}
	return 0, &l.Config, ""
}

func runC17(c *Ctx) {
	c.Sum.Rule = "JSON configuration documents generated field by field (every OIDC field, every oneof arm incl. set-but-empty members, omissions, odd values: unparsable / root-path / colliding URLs, " +
		"client ids with ':', empty secrets and references, filters without a type, 0-3 chains x 0-3 filters, default + overrides incl. sparse ones) - two thirds perturbations of an acceptable document - " +
		"plus mutations of the repository's 19 fixtures; each loaded with LocalConfigFile.Validate under recover(); decoded input, class and the accepted result are compared with the Coq loader model; " +
		"distinct_nontrivial = distinct (class, shape of chains/filters) documents that got past decoding"
	dir := filepath.Join(c.Out, "docs")
	must(os.MkdirAll(dir, 0o755))
	r := newRand(c.Seed, 17)
	n := 3000
	if c.Thorough() {
		n = 60000
	}
	var cases []string
	var descr []any
	flush := func() {
		if len(cases) > 0 {
			c.WriteShardWith("Config.Loader Corr.C17", "case17", cases, descr, "", "run cases")
			cases, descr = nil, nil
		}
	}
	one := func(i int, doc []byte, origin string) {
		c.Sum.Evaluations++
		var in configv1.Config
		decodable := protojson.Unmarshal(doc, &in) == nil
		var inGal string
		if decodable {
			inGal = galConfig(&in) // before Validate touches anything
		}
		class, out, msg := loadDoc(dir, i, doc)
		c.Hist("class", []string{"accepted", "error", "panic"}[class])
		if class == 2 {
			c.Sum.GoFindings = append(c.Sum.GoFindings, Finding{Signature: "C17/panic-while-loading",
				What: "loading a configuration document panics: " + msg, Replay: map[string]any{"document": string(doc), "origin": origin, "panic": msg}})
		}
		if !decodable {
			c.Hist("decoding", "rejected by protojson")
			return
		}
		outGal := "None"
		if out != nil {
			outGal = "(Some " + galConfig(out) + ")"
		}
		shape := fmt.Sprintf("%d|", class)
		for _, ch := range in.GetChains() {
			for _, f := range ch.GetFilters() {
				shape += fmt.Sprintf("%T,", f.GetType())
			}
			shape += ";"
		}
		c.Distinct(shape + msgClass(msg))
		cases = append(cases, gal.Rec("k_in", inGal, "k_class", gal.N(class), "k_out", outGal))
		d := map[string]any{"origin": origin, "document": string(doc), "class": []string{"accepted", "error", "panic"}[class], "message": msg, "steps": []any{}}
		descr = append(descr, d)
		if i%500 == 3 {
			c.Sample(d)
		}
		if len(cases) == 150 {
			flush()
		}
	}
	for i := 0; i < n; i++ {
		doc, err := protojson.Marshal(genConfig(r))
		must(err)
		one(i, doc, "grammar")
	}
	// mutations of the fixtures
	fixtures, _ := filepath.Glob(filepath.Join(os.Getenv("VERIF_REPO"), "internal", "testdata", "*.json"))
	if len(fixtures) == 0 {
		fixtures, _ = filepath.Glob("/repo/internal/testdata/*.json")
	}
	nm := 40
	if c.Thorough() {
		nm = 800
	}
	for fi, fx := range fixtures {
		raw, err := os.ReadFile(fx)
		if err != nil {
			continue
		}
		one(n+fi, raw, "fixture "+filepath.Base(fx))
		var tree any
		if json.Unmarshal(raw, &tree) != nil {
			continue
		}
		for j := 0; j < nm; j++ {
			var t2 any
			_ = json.Unmarshal(raw, &t2)
			t2 = mutateJSON(r, t2, 2+r.Intn(3))
			doc, _ := json.Marshal(t2)
			one(n+1000+fi*nm+j, doc, "mutation of "+filepath.Base(fx))
		}
	}
	flush()
}

func msgClass(m string) string {
	if i := strings.Index(m, ":"); i > 0 {
		return m[:i]
	}
	return m
}

// mutateJSON applies k random edits: delete a member, replace a value by an odd one, duplicate an array element.
func mutateJSON(r *mrand.Rand, t any, k int) any {
	odd := []any{nil, "", "x", 0, 1.5, -1, true, []any{}, map[string]any{}, "https://app.test/", "/", ":"}
	var walk func(v any, depth int) any
	walk = func(v any, depth int) any {
		switch x := v.(type) {
		case map[string]any:
			if len(x) == 0 {
				return x
			}
			keys := make([]string, 0, len(x))
			for kk := range x {
				keys = append(keys, kk)
			}
			sortStrings(keys)
			kk := keys[r.Intn(len(keys))]
			switch r.Intn(4) {
			case 0:
				delete(x, kk)
			case 1:
				x[kk] = odd[r.Intn(len(odd))]
			default:
				x[kk] = walk(x[kk], depth+1)
			}
			return x
		case []any:
			if len(x) == 0 {
				return x
			}
			i := r.Intn(len(x))
			switch r.Intn(4) {
			case 0:
				return append(x, x[i])
			case 1:
				x[i] = odd[r.Intn(len(odd))]
			default:
				x[i] = walk(x[i], depth+1)
			}
			return x
		}
		return odd[r.Intn(len(odd))]
	}
	for i := 0; i < k; i++ {
		t = walk(t, 0)
	}
	return t
}

func sortStrings(a []string) {
	for i := 1; i < len(a); i++ {
		for j := i; j > 0 && a[j] < a[j-1]; j-- {
			a[j], a[j-1] = a[j-1], a[j]
		}
	}
}

func init() { props["C17"] = runC17 }
