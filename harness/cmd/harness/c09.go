package main

// c09.go — C09 (logout is final): all interleavings, at store-call / token-endpoint-call granularity, of a logout
// with one or two concurrent checks on the same session, followed by sequential requests with the logged-out
// cookie; plus random sequential histories containing logouts.

import (
	"fmt"
	"strings"
	"time"

	"github.com/istio-ecosystem/authservice/verifharness/gal"
)

type concScenario struct {
	Name string
	// Prepare brings the sim to the state before the concurrent phase and returns the paths of the concurrent
	// requests (all presented with the cookie held then); the first one is the logout
	Prepare func(s *Sim) []string
}

func c09Scenarios(two bool) []concScenario {
	short := func(refresh bool) idpBehaviour {
		b := compliant()
		b.IDLife, b.ExpiresIn, b.Refresh = 120, 60, refresh
		return b
	}
	one := []concScenario{
		{"logout||fresh", func(s *Sim) []string { s.Login("/app", short(true)); s.Tick(5 * time.Second); return []string{"/logout", "/app"} }},
		{"logout||expired-refreshable", func(s *Sim) []string { s.Login("/app", short(true)); s.Tick(200 * time.Second); return []string{"/logout", "/app/x?y=1"} }},
		{"logout||expired-no-refresh", func(s *Sim) []string { s.Login("/app", short(false)); s.Tick(200 * time.Second); return []string{"/logout", "/app"} }},
		{"logout||callback", func(s *Sim) []string { s.Visit("/app?a=b"); cb := s.Authorize(); return []string{"/logout", cb} }},
		{"logout||pending-visit", func(s *Sim) []string { s.Visit("/app"); return []string{"/logout", "/other"} }},
	}
	if !two {
		return one
	}
	return []concScenario{
		{"logout||refreshable||refreshable", func(s *Sim) []string { s.Login("/app", short(true)); s.Tick(200 * time.Second); return []string{"/logout", "/app", "/other"} }},
		{"logout||fresh||fresh", func(s *Sim) []string { s.Login("/app", short(true)); s.Tick(5 * time.Second); return []string{"/logout", "/app", "/other"} }},
		{"logout||callback||callback", func(s *Sim) []string { s.Visit("/app?a=b"); cb := s.Authorize(); return []string{"/logout", cb, cb} }},
		{"logout||refreshable||logout", func(s *Sim) []string { s.Login("/app", short(true)); s.Tick(200 * time.Second); return []string{"/logout", "/app", "/logout?again"} }},
	}
}

func galSteps(steps []stepRec) string {
	var out []string
	for _, st := range steps {
		out = append(out, st.gal())
	}
	return gal.L(out)
}

func runC09(c *Ctx) {
	c.Sum.Rule = "every interleaving (depth-first enumeration, at store-call and token-endpoint-call granularity, real goroutines held at gates) of a logout with one concurrent check " +
		"(fresh / expired-refreshable / expired-no-refresh / mid-login callback / pending) and - bounded - with two concurrent checks, on the memory and the Redis store, each followed by two sequential requests " +
		"with the logged-out cookie; plus random sequential histories with logouts; distinct_nontrivial = distinct (scenario, store, schedule) runs"
	var cases []string
	var descr []any
	flush := func() {
		if len(cases) > 0 {
			c.WriteShardWith("Oidc.Types Corr.Hist Corr.C09", "crun", cases, descr, "", "run_conc cases")
			cases, descr = nil, nil
		}
	}
	limit2 := 150
	if c.Thorough() {
		limit2 = 5000
	}
	for _, two := range []bool{false, true} {
		for si, sc := range c09Scenarios(two) {
			for _, store := range []string{"memory", "redis"} {
				limit := 0
				if two {
					limit = limit2
				}
				runN := 0
				n := exploreSchedules(limit, func() (*Sim, []reqSpec) {
					o := cfgVariants[si%2]
					o.Store = store
					w := newWorld(c.Seed*977+int64(si), o)
					s := newSim(w, newRand(c.Seed, int64(9000+si)))
					paths := sc.Prepare(s)
					var reqs []reqSpec
					for _, p := range paths {
						reqs = append(reqs, reqSpec{Scheme: "https", Host: s.AppHost, Path: p, Cookie: s.cookie(s.Jar)})
					}
					s.Beh = append(s.Beh, "")
					return s, reqs
				}, func(s *Sim, threads []stepRec, order []int, schedule []int) {
					runN++
					pre := append([]stepRec(nil), s.Steps...)
					old := s.Jar
					s.Steps = nil
					// two sequential requests with the logged-out cookie
					s.request(reqSpec{Scheme: "https", Host: s.AppHost, Path: "/app", Cookie: s.cookie(old)}, nil, false)
					s.Tick(time.Second)
					s.request(reqSpec{Scheme: "https", Host: s.AppHost, Path: "/after", Cookie: s.cookie(old)}, nil, false)
					post := s.Steps
					c.Sum.Evaluations += len(pre) + len(threads) + len(post)
					c.Hist("scenario", sc.Name+"/"+store)
					c.Distinct(fmt.Sprintf("%s|%s|%v", sc.Name, store, schedule))
					var ord []string
					for _, t := range order {
						ord = append(ord, gal.N(t))
					}
					cases = append(cases, gal.Rec("cr_cfg", s.w.galCfg(), "cr_db", s.w.galDB(), "cr_pre", galSteps(pre), "cr_threads", galSteps(threads),
						"cr_order", gal.L(ord), "cr_post", galSteps(post)))
					var tds []string
					for i, t := range threads {
						var effs []string
						for _, e := range t.Trace {
							effs = append(effs, e.Kind)
						}
						tds = append(tds, fmt.Sprintf("T%d %s -> %s/%d [%s]", i, t.Req.Path, t.Resp.Class, t.Resp.Status, strings.Join(effs, " ")))
					}
					d := map[string]any{"scenario": sc.Name, "store": store, "schedule_thread_per_gate": schedule, "effect_order": order, "threads": tds,
						"after_logout": []string{fmt.Sprintf("%s/%d", post[0].Resp.Class, post[0].Resp.Status), fmt.Sprintf("%s/%d", post[1].Resp.Class, post[1].Resp.Status)},
						"steps": []any{}}
					descr = append(descr, d)
					if runN == 2 {
						c.Sample(d)
					}
					if len(cases) == 40 {
						flush()
					}
				})
				c.Sum.Notes = append(c.Sum.Notes, fmt.Sprintf("%s/%s: %d schedules%s", sc.Name, store, n, map[bool]string{true: " (bounded)", false: " (all)"}[two && n >= limit2]))
			}
		}
	}
	flush()
	// logouts whose removal fails: above the store (spy fault, before / after the effect) and, on Redis, inside it (the DEL
	// command fails); followed by requests with the same cookie.  A removal that failed must not be answered as a logout.
	{
		var hcases []string
		var hdescr []any
		for _, store := range []string{"memory", "redis"} {
			for mode := 0; mode < 4; mode++ {
				if mode == 3 && store != "redis" {
					continue
				}
				for ci := 0; ci < 2; ci++ {
					o := cfgVariants[ci]
					o.Store = store
					w := newWorld(c.Seed*53+int64(mode), o)
					s := newSim(w, newRand(c.Seed, int64(9900+mode)))
					b := compliant()
					b.IDLife, b.ExpiresIn = 600, 600
					s.Login("/app", b)
					old := s.Jar
					var f map[int]faultKind
					switch mode {
					case 1:
						f = map[int]faultKind{0: failBefore}
					case 2:
						f = map[int]faultKind{0: failAfter}
					case 3:
						w.NextCmdFaults = []string{"del"}
					}
					s.request(reqSpec{Scheme: "https", Host: s.AppHost, Path: "/logout", Cookie: s.cookie(old)}, f, false)
					s.request(reqSpec{Scheme: "https", Host: s.AppHost, Path: "/app", Cookie: s.cookie(old)}, nil, false)
					s.request(reqSpec{Scheme: "https", Host: s.AppHost, Path: "/logout", Cookie: s.cookie(old)}, nil, false)
					s.request(reqSpec{Scheme: "https", Host: s.AppHost, Path: "/app", Cookie: s.cookie(old)}, nil, false)
					c.Sum.Evaluations += len(s.Steps)
					c.Hist("scenario", fmt.Sprintf("logout-removal-fault-mode-%d/%s", mode, store))
					hcases = append(hcases, s.galHist())
					hdescr = append(hdescr, s.descr(map[string]any{"scenario": "logout with failing removal", "mode": []string{"none", "spy before", "spy after", "redis DEL fails"}[mode]}))
					w.Close()
				}
			}
		}
		c.WriteShardWith("Oidc.Types Corr.Hist Corr.C09", "hist", hcases, hdescr, "", "run_seq cases")
	}
	// sequential histories with logouts, judged by the same monitor (no concurrent phase)
	nseq := 200
	if c.Thorough() {
		nseq = 4000
	}
	c.Prop = "C09"
	runHistoriesWith(c, 9, histProfile{N: nseq, MinLen: 10, MaxLen: 40, FaultRate: 8, AttackRate: 15, Stores: []string{"memory", "redis"}, LogoutBoost: true}, nil, "run_seq cases")
}

func init() { props["C09"] = runC09 }
