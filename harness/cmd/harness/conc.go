package main

// conc.go — controlled schedules: several checks run as goroutines against one world; every session-store call
// and every token-endpoint call of each of them stops at a gate until the scheduler lets it run, so that the
// harness decides the interleaving at store-call / token-endpoint-call granularity and can enumerate all of them.

import (
	"fmt"
	"regexp"
	"strconv"
	"sync"

	envoy "github.com/envoyproxy/go-control-plane/envoy/service/auth/v3"
	"google.golang.org/protobuf/proto"

	oidcv1 "github.com/istio-ecosystem/authservice/config/gen/go/v1/oidc"
	"github.com/istio-ecosystem/authservice/internal/authz"
	mrand "math/rand"
)

type cthread struct {
	id   int
	req  reqSpec
	rec  *recorder
	turn chan struct{}
	step stepRec
}

type schedEvent struct {
	tid  int
	done bool
}

type scheduler struct {
	events  chan schedEvent
	threads []*cthread
}

var threadPath = regexp.MustCompile(`^/t(\d+)(/.*)$`)

// RunConcurrent runs the given requests as concurrent checks under the schedule chosen by pick:
// pick(depth, enabled) returns the index (into enabled) of the thread to run next.
// Returns the per-thread records and the global order of effects (thread id per effect).
func (w *World) RunConcurrent(reqs []reqSpec, pick func(depth int, enabled []int) int) ([]stepRec, []int) {
	sc := &scheduler{events: make(chan schedEvent, 64)}
	for i, r := range reqs {
		sc.threads = append(sc.threads, &cthread{id: i, req: r, rec: &recorder{}, turn: make(chan struct{})})
	}
	arrive := func(tid int) {
		sc.events <- schedEvent{tid: tid}
		<-sc.threads[tid].turn
	}
	w.idp.route = func(path string) (*recorder, func(), string) {
		m := threadPath.FindStringSubmatch(path)
		if m == nil {
			return nil, nil, ""
		}
		tid, _ := strconv.Atoi(m[1])
		return sc.threads[tid].rec, func() { arrive(tid) }, m[2]
	}
	defer func() { w.idp.route = nil }()
	var wg sync.WaitGroup
	for _, t := range sc.threads {
		wg.Add(1)
		go func(t *cthread) {
			defer wg.Done()
			cfg := proto.Clone(w.Cfg).(*oidcv1.OIDCConfig)
			cfg.TokenUri = w.idp.srv.URL + fmt.Sprintf("/t%d/token", t.id)
			store := &spyStore{inner: w.store.inner, rec: t.rec, faults: map[int]faultKind{}, gate: func(kind, sid string) { arrive(t.id) }}
			jw := &spyJWKS{inner: w.jwks.inner, rec: t.rec}
			gen := &spyGen{rec: t.rec, r: mrand.New(mrand.NewSource(int64(7777 + t.id))), base: 1000 * (t.id + 1)}
			resp := &envoy.CheckResponse{}
			var err error
			var pv any
			func() {
				defer func() { pv = recover() }()
				var h authz.Handler
				h, err = authz.NewOIDCHandler(cfg, w.tlsPool, jw, oneStoreFactory{store}, *w.clock, gen)
				if err != nil {
					return
				}
				err = h.Process(bg, t.req.envoy(), resp)
			}()
			t.step = stepRec{Now: w.now.UnixNano(), Req: t.req, Resp: observe(resp, err, pv)}
			sc.events <- schedEvent{tid: t.id, done: true}
		}(t)
	}
	const (
		running = iota
		blocked
		finished
	)
	state := make([]int, len(reqs))
	var order []int
	counted := make([]int, len(reqs))
	account := func(tid int) { // effects recorded by tid since we last looked belong to its last turn
		t := sc.threads[tid]
		t.rec.mu.Lock()
		n := len(t.rec.trace)
		t.rec.mu.Unlock()
		for ; counted[tid] < n; counted[tid]++ {
			order = append(order, tid)
		}
	}
	depth := 0
	for {
		// wait until nobody is running
		for {
			busy := false
			for _, s := range state {
				if s == running {
					busy = true
				}
			}
			if !busy {
				break
			}
			ev := <-sc.events
			account(ev.tid)
			if ev.done {
				state[ev.tid] = finished
			} else {
				state[ev.tid] = blocked
			}
		}
		var enabled []int
		for i, s := range state {
			if s == blocked {
				enabled = append(enabled, i)
			}
		}
		if len(enabled) == 0 {
			break
		}
		tid := enabled[pick(depth, enabled)]
		depth++
		state[tid] = running
		sc.threads[tid].turn <- struct{}{}
	}
	wg.Wait()
	var out []stepRec
	for _, t := range sc.threads {
		t.step.Trace = append([]effRec(nil), t.rec.trace...)
		out = append(out, t.step)
	}
	return out, order
}

// exploreSchedules enumerates every schedule (depth-first over the choices) of the concurrent phase built by mk.
// mk prepares a fresh world (sequential prefix) and returns the requests to run concurrently; after gets the world
// after the concurrent phase (for the sequential suffix) and reports the case.
func exploreSchedules(limit int, mk func() (*Sim, []reqSpec), after func(s *Sim, threads []stepRec, order []int, schedule []int)) int {
	var path []int // choice index per depth
	n := 0
	for {
		var widths []int
		var sched []int
		s, reqs := mk()
		threads, order := s.w.RunConcurrent(reqs, func(depth int, enabled []int) int {
			widths = append(widths, len(enabled))
			c := 0
			if depth < len(path) {
				c = path[depth]
			}
			sched = append(sched, enabled[c])
			return c
		})
		after(s, threads, order, sched)
		s.w.Close()
		n++
		// next path: increment the deepest choice that has an alternative left
		full := make([]int, len(widths))
		copy(full, path)
		i := len(widths) - 1
		for ; i >= 0; i-- {
			if full[i]+1 < widths[i] {
				break
			}
		}
		if i < 0 || (limit > 0 && n >= limit) {
			return n
		}
		path = append(full[:i], full[i]+1)
	}
}
