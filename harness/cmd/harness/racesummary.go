package main

// racesummary.go — translator for C16: a lexical lockset summary of the shipped (non-test) sources, regenerated on
// every run and handed to Coq (Conc/Lockset.v: obligation).  For every function it follows the statements in order,
// tracking which mutexes are held (x.mu.Lock() ... x.mu.Unlock() / defer x.mu.Unlock()), and records every access to
//   - a field of a struct value whose type is known syntactically (receiver, parameter, composite literal, element of a
//     receiver field's map / slice, range variable), and
//   - a package-level variable,
// as (location, function, write?, under a lock of the owning object?, start-up phase?).

import (
	"fmt"
	"go/ast"
	"go/parser"
	"go/token"
	"os"
	"path/filepath"
	"sort"
	"strings"

	"github.com/istio-ecosystem/authservice/verifharness/gal"
)

type raceAccess struct {
	Loc, Func     string
	Write, Locked bool
	Startup       bool
}

var startupFuncs = map[string]bool{"init": true, "PreRun": true, "Validate": true, "FlagSet": true, "loadSecrets": true, "main": true,
	"mergeAndValidateOIDCConfigs": true, "applyOIDCDefaults": true, "validateURLs": true, "validateOIDCConfigURLs": true, "Register": true}

func typeString(e ast.Expr) string {
	switch t := e.(type) {
	case *ast.Ident:
		return t.Name
	case *ast.StarExpr:
		return "*" + typeString(t.X)
	case *ast.SelectorExpr:
		return typeString(t.X) + "." + t.Sel.Name
	case *ast.ArrayType:
		return "[]" + typeString(t.Elt)
	case *ast.MapType:
		return "map[" + typeString(t.Key) + "]" + typeString(t.Value)
	}
	return "?"
}

func elemType(t string) string { // element of a map / slice type, pointer stripped one level at the end by baseType
	if strings.HasPrefix(t, "[]") {
		return t[2:]
	}
	if strings.HasPrefix(t, "map[") {
		depth := 0
		for i := 3; i < len(t); i++ {
			switch t[i] {
			case '[':
				depth++
			case ']':
				depth--
				if depth == 0 {
					return t[i+1:]
				}
			}
		}
	}
	return "?"
}

func baseType(t string) string { return strings.TrimLeft(t, "*") }

func raceSummary(repo string) []raceAccess {
	var out []raceAccess
	dirs := []string{"internal", "internal/oidc", "internal/authz", "internal/server", "internal/k8s", "internal/http"}
	for _, d := range dirs {
		fset := token.NewFileSet()
		pkgs, err := parser.ParseDir(fset, filepath.Join(repo, d), func(fi os.FileInfo) bool {
			return !strings.HasSuffix(fi.Name(), "_test.go") && !strings.HasPrefix(fi.Name(), "verif_")
		}, 0)
		if err != nil {
			continue
		}
		for pname, p := range pkgs {
			// struct field types and mutex fields, package-level vars
			fieldType := map[string]map[string]string{}
			mutexes := map[string][]string{}
			pkgVars := map[string]bool{}
			funcResult := map[string]string{} // "Type.method" / "func" -> type of the first result
			for _, f := range p.Files {
				for _, decl := range f.Decls {
					if fd, ok := decl.(*ast.FuncDecl); ok && fd.Type.Results != nil && len(fd.Type.Results.List) > 0 {
						key := fd.Name.Name
						if fd.Recv != nil && len(fd.Recv.List) == 1 {
							key = baseType(typeString(fd.Recv.List[0].Type)) + "." + key
						}
						funcResult[key] = typeString(fd.Type.Results.List[0].Type)
					}
				}
			}
			for _, f := range p.Files {
				for _, decl := range f.Decls {
					gd, ok := decl.(*ast.GenDecl)
					if !ok {
						continue
					}
					for _, sp := range gd.Specs {
						switch s := sp.(type) {
						case *ast.TypeSpec:
							if st, ok := s.Type.(*ast.StructType); ok {
								fieldType[s.Name.Name] = map[string]string{}
								for _, fl := range st.Fields.List {
									ts := typeString(fl.Type)
									for _, n := range fl.Names {
										fieldType[s.Name.Name][n.Name] = ts
										if ts == "sync.Mutex" || ts == "sync.RWMutex" {
											mutexes[s.Name.Name] = append(mutexes[s.Name.Name], n.Name)
										}
									}
								}
							}
						case *ast.ValueSpec:
							if gd.Tok == token.VAR {
								for _, n := range s.Names {
									if n.Name != "_" {
										pkgVars[n.Name] = true
									}
								}
							}
						}
					}
				}
			}
			underLock := map[string]int{} // methods all of whose call sites hold the receiver's lock: 2 exclusively, 1 at least shared
			var pkgOut []raceAccess
			for round := 0; round < 6; round++ {
				pkgOut = nil
				var calls []callSite
				for _, f := range p.Files {
					for _, decl := range f.Decls {
						fd, ok := decl.(*ast.FuncDecl)
						if !ok || fd.Body == nil {
							continue
						}
						fname := pname + "." + fd.Name.Name
						env := map[string]string{} // ident -> type
						if fd.Recv != nil && len(fd.Recv.List) == 1 {
							rt := typeString(fd.Recv.List[0].Type)
							fname = pname + "." + baseType(rt) + "." + fd.Name.Name
							for _, n := range fd.Recv.List[0].Names {
								env[n.Name] = rt
							}
						}
						for _, prm := range fd.Type.Params.List {
							for _, n := range prm.Names {
								env[n.Name] = typeString(prm.Type)
							}
						}
						startup := strings.HasPrefix(fd.Name.Name, "New") || strings.HasPrefix(fd.Name.Name, "new") || startupFuncs[fd.Name.Name]
						a := &raceWalker{pkg: pname, fn: fname, startup: startup, env: env, fieldType: fieldType, mutexes: mutexes, pkgVars: pkgVars, out: &pkgOut, funcResult: funcResult,
							fresh: map[string]bool{}, calls: &calls, entryHeld: underLock[fname] == 2, entryShared: underLock[fname] == 1}
						if fd.Recv != nil && len(fd.Recv.List) == 1 && len(fd.Recv.List[0].Names) == 1 {
							a.recvName = fd.Recv.List[0].Names[0].Name
						}
						entry := map[string]bool{}
						if a.entryHeld || a.entryShared { // what the callers hand in was reached under their lock
							for _, prm := range fd.Type.Params.List {
								for _, n := range prm.Names {
									if a.entryHeld {
										entry["via:"+n.Name] = true
									} else {
										entry["viaR:"+n.Name] = true
									}
								}
							}
						}
						a.block(fd.Body.List, entry)
					}
				}
				// a method is entered with the lock held when it has call sites and every one of them holds it
				next := map[string]int{}
				for _, cs := range calls {
					lvl := 0
					if cs.locked {
						lvl = 2
					} else if cs.shared {
						lvl = 1
					}
					if old, ok := next[cs.callee]; !ok || lvl < old {
						next[cs.callee] = lvl
					}
				}
				for k, v := range next {
					if v == 0 {
						delete(next, k)
					}
				}
				same := len(next) == len(underLock)
				for k, v := range next {
					same = same && underLock[k] == v
				}
				underLock = next
				if same {
					break
				}
			}
			out = append(out, pkgOut...)
		}
	}
	sort.Slice(out, func(i, j int) bool {
		if out[i].Loc != out[j].Loc {
			return out[i].Loc < out[j].Loc
		}
		return out[i].Func < out[j].Func
	})
	return out
}

type callSite struct {
	callee string // pkg.Type.method
	locked bool   // the receiver's lock is held exclusively
	shared bool   // ... or at least shared
}

type raceWalker struct {
	fresh       map[string]bool // locals bound to an object allocated in this function: confined until published
	entryHeld   bool            // every call site of this method holds the receiver's lock exclusively
	entryShared bool            // every call site holds it at least shared (RLock): reads are protected, writes are not
	recvName    string
	recvType    string
	calls       *[]callSite
	pkg, fn     string
	startup     bool
	env         map[string]string
	fieldType   map[string]map[string]string
	funcResult  map[string]string
	mutexes     map[string][]string
	pkgVars     map[string]bool
	out         *[]raceAccess
}

// markVia notes that a local was reached while locks were held: exclusively ("via:") or only shared ("viaR:")
func (a *raceWalker) markVia(name string, held map[string]bool) {
	for k, v := range held {
		if !v || strings.HasPrefix(k, "via") {
			continue
		}
		if strings.HasPrefix(k, "R:") {
			held["viaR:"+name] = true
		} else {
			held["via:"+name] = true
		}
	}
}

func exprKey(e ast.Expr) string {
	switch t := e.(type) {
	case *ast.Ident:
		return t.Name
	case *ast.SelectorExpr:
		return exprKey(t.X) + "." + t.Sel.Name
	}
	return "?"
}

func (a *raceWalker) typeOf(e ast.Expr) string {
	switch t := e.(type) {
	case *ast.Ident:
		return a.env[t.Name]
	case *ast.SelectorExpr:
		if bt := baseType(a.typeOf(t.X)); bt != "" {
			if ft, ok := a.fieldType[bt][t.Sel.Name]; ok {
				return ft
			}
		}
	case *ast.IndexExpr:
		return elemType(a.typeOf(t.X))
	case *ast.UnaryExpr:
		if t.Op == token.AND {
			return "*" + a.typeOf(t.X)
		}
	case *ast.CompositeLit:
		if t.Type != nil {
			return typeString(t.Type)
		}
	case *ast.StarExpr:
		return baseType(a.typeOf(t.X))
	case *ast.CallExpr:
		if id, ok := t.Fun.(*ast.Ident); ok {
			if id.Name == "new" && len(t.Args) == 1 {
				return "*" + typeString(t.Args[0])
			}
			return a.funcResult[id.Name]
		}
		if sel, ok := t.Fun.(*ast.SelectorExpr); ok {
			if owner := baseType(a.typeOf(sel.X)); owner != "" {
				return a.funcResult[owner+"."+sel.Sel.Name]
			}
		}
	}
	return ""
}

func (a *raceWalker) record(e ast.Expr, write bool, held map[string]bool) {
	switch t := e.(type) {
	case *ast.Ident:
		if a.pkgVars[t.Name] && a.env[t.Name] == "" && t.Obj != nil && t.Obj.Kind == ast.Var {
			locked := false
			for k, v := range held {
				if v && !strings.HasPrefix(k, "via") && !strings.Contains(strings.TrimPrefix(k, "R:"), ".") && (!strings.HasPrefix(k, "R:") || !write) {
					locked = true
				}
			}
			*a.out = append(*a.out, raceAccess{Loc: a.pkg + "." + t.Name, Func: a.fn, Write: write, Locked: locked, Startup: a.startup})
		}
	case *ast.SelectorExpr:
		owner := baseType(a.typeOf(t.X))
		if owner == "" || owner == "?" {
			return
		}
		if id, ok := t.X.(*ast.Ident); ok && a.fresh[id.Name] {
			return
		}
		if _, isField := a.fieldType[owner][t.Sel.Name]; !isField && !strings.Contains(owner, ".") {
			return // a method value, not a field
		}
		ft := a.fieldType[owner][t.Sel.Name]
		if ft == "sync.Mutex" || ft == "sync.RWMutex" {
			return
		}
		locked := false
		okey := exprKey(t.X)
		if (a.entryHeld || (a.entryShared && !write)) && (okey == a.recvName || held["via:"+okey]) {
			locked = true
		}
		for _, m := range a.mutexes[owner] {
			if held[okey+"."+m] || (!write && held["R:"+okey+"."+m]) {
				locked = true
			}
		}
		// an object reached from a locked owner (s := m.sessions[id] under m.mu) is covered by the same lock
		if !locked {
			if held["via:"+okey] || (!write && held["viaR:"+okey]) {
				locked = true
			}
		}
		loc := owner + "." + t.Sel.Name
		if !strings.Contains(owner, ".") {
			loc = a.pkg + "." + loc
		}
		*a.out = append(*a.out, raceAccess{Loc: loc, Func: a.fn, Write: write, Locked: locked, Startup: a.startup})
	case *ast.IndexExpr:
		a.record(t.X, write, held)
	case *ast.StarExpr:
		a.record(t.X, write, held)
	}
}

func (a *raceWalker) reads(n ast.Node, held map[string]bool) {
	if n == nil {
		return
	}
	ast.Inspect(n, func(x ast.Node) bool {
		switch t := x.(type) {
		case *ast.FuncLit:
			// a closure (callback / goroutine body): runs later, without the locks held here
			a.block(t.Body.List, map[string]bool{})
			return false
		case *ast.CallExpr:
			if id, ok := t.Fun.(*ast.Ident); ok && id.Name == "delete" && len(t.Args) > 0 {
				a.record(t.Args[0], true, held)
			}
			if sel, ok := t.Fun.(*ast.SelectorExpr); ok {
				if owner := baseType(a.typeOf(sel.X)); owner != "" && len(a.mutexes[owner]) > 0 {
					locked := a.entryHeld && exprKey(sel.X) == a.recvName
					shared := a.entryShared && exprKey(sel.X) == a.recvName
					for _, m := range a.mutexes[owner] {
						if held[exprKey(sel.X)+"."+m] {
							locked = true
						}
						if held["R:"+exprKey(sel.X)+"."+m] {
							shared = true
						}
					}
					*a.calls = append(*a.calls, callSite{callee: a.pkg + "." + owner + "." + sel.Sel.Name, locked: locked, shared: shared || locked})
				}
			}
		case *ast.SelectorExpr:
			a.record(t, false, held)
			a.reads(t.X, held)
			return false
		case *ast.Ident:
			a.record(t, false, held)
		}
		return true
	})
}

func isAlloc(e ast.Expr) bool {
	switch t := e.(type) {
	case *ast.CompositeLit:
		return true
	case *ast.UnaryExpr:
		_, ok := t.X.(*ast.CompositeLit)
		return t.Op == token.AND && ok
	case *ast.CallExpr:
		id, ok := t.Fun.(*ast.Ident) // new(T), or a constructor of the package: its result is a fresh object
		return ok && (id.Name == "new" || strings.HasPrefix(id.Name, "new") || strings.HasPrefix(id.Name, "New"))
	}
	return false
}

func copyHeld(h map[string]bool) map[string]bool {
	c := map[string]bool{}
	for k, v := range h {
		c[k] = v
	}
	return c
}

func lockCall(s ast.Stmt) (string, string) { // mutex expression, method
	var call *ast.CallExpr
	switch t := s.(type) {
	case *ast.ExprStmt:
		call, _ = t.X.(*ast.CallExpr)
	case *ast.DeferStmt:
		call = t.Call
	}
	if call == nil {
		return "", ""
	}
	if sel, ok := call.Fun.(*ast.SelectorExpr); ok {
		switch sel.Sel.Name {
		case "Lock", "RLock", "Unlock", "RUnlock":
			return exprKey(sel.X), sel.Sel.Name
		}
	}
	return "", ""
}

func (a *raceWalker) block(stmts []ast.Stmt, held map[string]bool) {
	for _, s := range stmts {
		if m, op := lockCall(s); m != "" {
			_, isDefer := s.(*ast.DeferStmt)
			switch {
			case op == "Lock":
				held[m] = true
			case op == "RLock":
				held["R:"+m] = true // shared: protects reads only
			case !isDefer:
				held[m] = false
				held["R:"+m] = false
				for k := range held {
					if strings.HasPrefix(k, "via") {
						delete(held, k)
					}
				}
			}
			continue
		}
		switch t := s.(type) {
		case *ast.AssignStmt:
			for _, r := range t.Rhs {
				a.reads(r, held)
			}
			for i, l := range t.Lhs {
				if id, ok := l.(*ast.Ident); ok {
					if t.Tok == token.DEFINE || a.env[id.Name] != "" || !a.pkgVars[id.Name] {
						// local variable: remember its type, and that it was reached under the locks held now
						if i < len(t.Rhs) || len(t.Rhs) == 1 {
							rhs := t.Rhs[0]
							if i < len(t.Rhs) {
								rhs = t.Rhs[i]
							}
							if i == 0 {
								a.fresh[id.Name] = isAlloc(rhs)
							}
							if ty := a.typeOf(rhs); ty != "" && i == 0 {
								a.env[id.Name] = ty
								if a.entryHeld {
									held["via:"+id.Name] = true
								} else if a.entryShared {
									held["viaR:"+id.Name] = true
								}
								a.markVia(id.Name, held)
							}
						}
						continue
					}
				}
				a.record(l, true, held)
				if ix, ok := l.(*ast.IndexExpr); ok {
					a.reads(ix.Index, held)
				}
			}
		case *ast.IncDecStmt:
			a.record(t.X, true, held)
		case *ast.ExprStmt:
			a.reads(t.X, held)
		case *ast.ReturnStmt:
			for _, r := range t.Results {
				a.reads(r, held)
			}
		case *ast.DeferStmt:
			a.reads(t.Call, map[string]bool{})
		case *ast.GoStmt:
			a.reads(t.Call, map[string]bool{})
		case *ast.DeclStmt:
			if gd, ok := t.Decl.(*ast.GenDecl); ok {
				for _, sp := range gd.Specs {
					if vs, ok := sp.(*ast.ValueSpec); ok {
						for i, n := range vs.Names {
							if vs.Type != nil {
								a.env[n.Name] = typeString(vs.Type)
								a.fresh[n.Name] = !strings.HasPrefix(a.env[n.Name], "*") && len(vs.Values) == 0
							} else if i < len(vs.Values) {
								a.env[n.Name] = a.typeOf(vs.Values[i])
							}
						}
						for _, v := range vs.Values {
							a.reads(v, held)
						}
					}
				}
			}
		case *ast.IfStmt:
			inner := copyHeld(held)
			if t.Init != nil {
				a.block([]ast.Stmt{t.Init}, inner)
			}
			a.reads(t.Cond, inner)
			a.block(t.Body.List, copyHeld(inner))
			if t.Else != nil {
				a.block([]ast.Stmt{t.Else}, copyHeld(inner))
			}
		case *ast.BlockStmt:
			a.block(t.List, copyHeld(held))
		case *ast.ForStmt:
			inner := copyHeld(held)
			if t.Init != nil {
				a.block([]ast.Stmt{t.Init}, inner)
			}
			a.reads(t.Cond, inner)
			a.block(t.Body.List, inner)
		case *ast.RangeStmt:
			a.reads(t.X, held)
			inner := copyHeld(held)
			if v, ok := t.Value.(*ast.Ident); ok && v != nil {
				a.env[v.Name] = elemType(a.typeOf(t.X))
				a.markVia(v.Name, inner)
			}
			a.block(t.Body.List, inner)
		case *ast.SwitchStmt:
			inner := copyHeld(held)
			if t.Init != nil {
				a.block([]ast.Stmt{t.Init}, inner)
			}
			a.reads(t.Tag, inner)
			for _, cc := range t.Body.List {
				if c, ok := cc.(*ast.CaseClause); ok {
					for _, e := range c.List {
						a.reads(e, inner)
					}
					a.block(c.Body, copyHeld(inner))
				}
			}
		case *ast.TypeSwitchStmt:
			for _, cc := range t.Body.List {
				if c, ok := cc.(*ast.CaseClause); ok {
					a.block(c.Body, copyHeld(held))
				}
			}
		case *ast.SelectStmt:
			for _, cc := range t.Body.List {
				if c, ok := cc.(*ast.CommClause); ok {
					a.block(c.Body, copyHeld(held))
				}
			}
		}
	}
}

func raceSummaryShard(c *Ctx) {
	repo := os.Getenv("VERIF_REPO")
	if repo == "" {
		repo = "/repo"
	}
	acc := raceSummary(repo)
	var items []string
	byLoc := map[string][]string{}
	for _, a := range acc {
		items = append(items, gal.Rec("a_loc", gal.S(a.Loc), "a_func", gal.S(a.Func), "a_write", gal.B(a.Write), "a_locked", gal.B(a.Locked), "a_startup", gal.B(a.Startup)))
		byLoc[a.Loc] = append(byLoc[a.Loc], fmt.Sprintf("%s %s locked=%v startup=%v", a.Func, map[bool]string{true: "W", false: "R"}[a.Write], a.Locked, a.Startup))
	}
	c.Hist("static_accesses", fmt.Sprint(len(acc)))
	c.WriteShardWith("Conc.Lockset Corr.C16", "race_summary", []string{gal.L(items)}, []any{map[string]any{"accesses_by_location": byLoc, "steps": []any{}}}, "", "run cases")
}
