#!/bin/sh
# Run once after a fresh restore, offline: build the Coq development (full .vo) and pre-build the harness.
set -e
cd "$(dirname "$0")"
mkdir -p work evidence replays
( cd coq && coq_makefile -f _CoqProject -o Makefile >/dev/null && timeout 3000 make -j16 >../work/setup_coq.log 2>&1 ) || { tail -30 work/setup_coq.log; exit 1; }
python3 - <<'PY'
import sys, os
sys.path.insert(0, os.path.join(os.getcwd(), "lib"))
sys.argv = ["check"]
import importlib.machinery, importlib.util
loader = importlib.machinery.SourceFileLoader("check", os.path.join(os.getcwd(), "check"))
spec = importlib.util.spec_from_loader("check", loader)
m = importlib.util.module_from_spec(spec); loader.exec_module(m)
ok, out, _ = m.ensure_harness(False)
print("harness build:", "ok" if ok else out[-3000:])
sys.exit(0 if ok else 1)
PY
echo setup done
