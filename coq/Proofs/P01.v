(* Proofs/P01.v — C01 (fail-closed): every OK verdict of the model is justified, for every list of
   environment answers (every behaviour and failure of store, provider and key source). *)
From AS Require Import Base.Str Base.StrFacts Http.PathSplit Http.Cookie Url.Escape Oidc.Types Oidc.Prog Oidc.Handler Oidc.Spec
  Oidc.Monitors Oidc.Store Proofs.ProgFacts Proofs.SymExec Proofs.RunSpecs.

Lemma redirect_not_allow c r old o tr : redirect_spec c r old o tr -> is_allow o = false.
Proof. intros H; inversion H; reflexivity. Qed.
Lemma retrieve_not_allow c db now r sid o tr : retrieve_spec c db now r sid o tr -> is_allow o = false.
Proof. intros H; inversion H; subst; try reflexivity. destruct ok; reflexivity. Qed.

Theorem ok_justified c db now r answers h tr rest :
  run (process c db now r) answers = Some (OAllow h, tr, rest) -> ok_shape c db now r tr h = true.
Proof.
  intros H. apply run_process in H. unfold ok_shape.
  inversion H; subst;
    try match goal with X : redirect_spec _ _ _ (OAllow _) _ |- _ => apply redirect_not_allow in X; discriminate X end;
    try match goal with X : retrieve_spec _ _ _ _ _ (OAllow _) _ |- _ => apply retrieve_not_allow in X; discriminate X end.
  - match goal with E : (if ?ok then _ else _) = OAllow _ |- _ => destruct ok; discriminate E end.
  - (* fresh tokens *)
    match goal with E : request_sid c r <> "" |- _ => apply String.eqb_neq in E; rewrite E end.
    unfold got. rewrite String.eqb_refl.
    match goal with E : tokens_expired _ _ _ _ = _ |- _ => rewrite E end.
    unfold allow in *. try match goal with E : OAllow _ = OAllow _ |- _ => inversion E end. now rewrite kvs_eqb_refl.
  - (* refreshed *)
    match goal with E : (if ?ok then _ else _) = OAllow _ |- _ => destruct ok; [|discriminate E] end.
    match goal with X : refresh_spec _ _ _ _ _ _ _ |- _ => inversion X as [b oa Hv Hval| |]; subst end.
    match goal with E : request_sid c r <> "" |- _ => apply String.eqb_neq in E; rewrite E end.
    unfold got. cbn [app]. rewrite !String.eqb_refl.
    match goal with E : tokens_expired _ _ _ _ = _ |- _ => rewrite E end.
    match goal with E : t_refresh _ <> "" |- _ => apply String.eqb_neq in E; rewrite E end.
    rewrite treq_eqb_refl, Hv, tokens_eqb_refl, Hval.
    unfold allow in *. try match goal with E : OAllow _ = OAllow _ |- _ => inversion E end. now rewrite kvs_eqb_refl.
Qed.

(* any failed answer anywhere in the check rules out OK *)
Lemma ok_shape_all_ok c db now r tr h : ok_shape c db now r tr h = true -> all_answers_ok tr = true.
Proof.
  unfold ok_shape, all_answers_ok. intros H. apply andb_prop in H as [_ H].
  destruct tr as [|[e1 a1] tr]; [discriminate|].
  destruct e1; try discriminate. destruct a1 as [| [[t|]|] | | | |]; try discriminate.
  destruct tr as [|[e2 a2] tr]; [reflexivity|].
  destruct e2; try discriminate. destruct a2 as [| | | |[| | |b]|]; try discriminate.
  destruct tr as [|[e3 a3] tr]; [discriminate|].
  destruct e3; try discriminate. destruct a3 as [| |[oa|]| | |]; try discriminate.
  destruct tr as [|[e4 a4] tr]; [discriminate|].
  destruct e4; try discriminate. destruct a4 as [| | | | |[|]]; try discriminate.
  destruct tr as [|[e5 a5] tr]; [discriminate|].
  destruct e5; try discriminate. destruct a5 as [[|]| | | | |]; try discriminate.
  destruct tr; [reflexivity|discriminate].
Qed.

Theorem fail_closed c db now r answers o tr rest :
  run (process c db now r) answers = Some (o, tr, rest) ->
  all_answers_ok tr = false -> is_allow o = false.
Proof.
  intros H F. destruct o as [h| | |]; try reflexivity.
  apply ok_justified in H. apply ok_shape_all_ok in H. congruence.
Qed.

(* no session cookie, no OK *)
Theorem no_cookie_no_ok c db now r answers o tr rest :
  run (process c db now r) answers = Some (o, tr, rest) -> request_sid c r = "" -> is_allow o = false.
Proof.
  intros H E. destruct o as [h| | |]; try reflexivity.
  apply ok_justified in H. unfold ok_shape in H. rewrite E in H. discriminate.
Qed.

(* ---- against the abstract session map ---- *)
(* an OK verdict means: the store held tokens for the presented session at the start of the check; they
   were unexpired, or they were expired and refreshable, the provider answered the refresh exchange with
   that very refresh token, and the store holds the merged, validated result when the check ends *)
Theorem ok_needs_live_session c db now r answers h tr rest st st' :
  run (process c db now r) answers = Some (OAllow h, tr, rest) -> steps st tr st' ->
  exists t, tok_of st (request_sid c r) = Some t /\ request_sid c r <> "" /\
    ((tokens_expired c db now t = Some false /\ st' = st /\ h = tokens_to_headers c t) \/
     (tokens_expired c db now t = Some true /\ t_refresh t <> "" /\
      exists b oa, In (EIdp (refresh_request c (t_refresh t)), AIdp (IdpBody b)) tr /\
        valid_refresh_tokens b = true /\
        validated c db (t_id (merged_tokens db now t b)) (nonce_of oa) false = true /\
        tok_of st' (request_sid c r) = Some (merged_tokens db now t b) /\
        h = tokens_to_headers c (merged_tokens db now t b))).
Proof.
  intros H S. apply run_process in H.
  inversion H; subst;
    try match goal with X : redirect_spec _ _ _ (OAllow _) _ |- _ => apply redirect_not_allow in X; discriminate X end;
    try match goal with X : retrieve_spec _ _ _ _ _ (OAllow _) _ |- _ => apply retrieve_not_allow in X; discriminate X end.
  - match goal with E : (if ?ok then _ else _) = OAllow _ |- _ => destruct ok; discriminate E end.
  - unfold got in S. inversion S as [|? ? st1 ? ? S1 S2]; subst. inversion S2; subst.
    inversion S1; subst. exists t. split; [assumption|]. split; [assumption|].
    left. auto.
  - match goal with E : (if ?ok then _ else _) = OAllow _ |- _ => destruct ok; [|discriminate E] end.
    match goal with X : refresh_spec _ _ _ _ _ _ _ |- _ => inversion X as [b oa Hv Hval| |]; subst end.
    unfold got in S. cbn [app] in S.
    inversion S as [|? ? st1 ? ? S1 S2]; subst. inversion S1; subst.
    inversion S2 as [|? ? st2 ? ? S3 S4]; subst. inversion S3; subst.
    inversion S4 as [|? ? st3 ? ? S5 S6]; subst. inversion S5; subst.
    inversion S6 as [|? ? st4 ? ? S7 S8]; subst. inversion S7; subst.
    inversion S8 as [|? ? st5 ? ? S9 S10]; subst. inversion S10; subst. inversion S9; subst.
    exists t. split; [assumption|]. split; [assumption|].
    right. split; [assumption|]. split; [assumption|].
    exists b, (auth_of st4 (request_sid c r)).
    split; [right; left; reflexivity|]. split; [assumption|]. split; [assumption|].
    split; [unfold tok_of, apply_eff; rewrite upd_same; reflexivity|].
    unfold allow in *. congruence.
Qed.
