(* Proofs/P20.v — C20: trust follows the settings; identical settings share one pooled object, distinct settings
   get distinct ones; a rewritten CA file reaches the pooled object at the next tick; a superseded watcher stops. *)
From AS Require Import Base.Str Base.StrFacts Tls.Pool.

Section P.
  Variable pem_ok : string -> bool.

  Lemma id_eqb_refl id : id_eqb id id = true.
  Proof. destruct id as [[[a b] c] d]. cbn. now rewrite Bool.eqb_reflx, !String.eqb_refl. Qed.
  Lemma id_eqb_eq a b : id_eqb a b = true -> a = b.
  Proof.
    destruct a as [[[a1 a2] a3] a4], b as [[[b1 b2] b3] b4]. cbn. intros H.
    repeat (apply andb_prop in H as [H ?]). apply Bool.eqb_prop in H.
    repeat match goal with X : (_ =? _) = true |- _ => apply String.eqb_eq in X end. congruence.
  Qed.

  (* what a set of settings is supposed to yield *)
  Definition expected (st : pstate) (s : settings) : option tlsconf :=
    if negb (String.eqb (ts_ca s) "") then Some {| tc_extra_ca := Some (ts_ca s); tc_insecure := false |}
    else if negb (String.eqb (ts_file s) "") then
      match lookup (ts_file s) (files st) with
      | Some data => Some {| tc_extra_ca := if String.eqb data "" then None else Some data; tc_insecure := false |}
      | None => None
      end
    else Some {| tc_extra_ca := None; tc_insecure := boolstr (ts_skip s) |}.

  Lemma nth_app_new {A} (l : list A) x : nth_error (l ++ [x]) (length l) = Some x.
  Proof. induction l; cbn; auto. Qed.

  (* a first load of some settings builds exactly the expected configuration *)
  Theorem first_load_builds_expected st s st' i :
    pool_lookup (pool_id s) (pool st) = None -> load pem_ok st s = (st', LObj i) ->
    nth_error (objs st') i = expected st s.
  Proof.
    unfold load, expected. intros Hm H.
    destruct (String.eqb (ts_ca s) "" && String.eqb (ts_file s) "" && match ts_skip s with None => true | Some _ => false end); [discriminate|].
    rewrite Hm in H.
    destruct (String.eqb (ts_ca s) "") eqn:Ec; cbn [negb] in *.
    - destruct (String.eqb (ts_file s) "") eqn:Ef; cbn [negb] in *.
      + inversion H; subst. cbn [objs]. apply nth_app_new.
      + destruct (lookup (ts_file s) (files st)) as [data|]; [|discriminate].
        destruct (String.eqb data "") eqn:Ed.
        * inversion H; subst. cbn [objs]. apply nth_app_new.
        * destruct (pem_ok data); [|discriminate]. inversion H; subst. cbn [objs]. apply nth_app_new.
    - destruct (pem_ok (ts_ca s)); [|discriminate]. inversion H; subst. cbn [objs]. apply nth_app_new.
  Qed.

  (* verification is skipped only when that was requested and no CA is configured *)
  Corollary skip_only_if_requested_and_no_ca st s t :
    expected st s = Some t -> tc_insecure t = true ->
    ts_ca s = "" /\ ts_file s = "" /\ boolstr (ts_skip s) = true.
  Proof.
    unfold expected. destruct (String.eqb_spec (ts_ca s) ""); cbn [negb].
    - destruct (String.eqb_spec (ts_file s) ""); cbn [negb].
      + intros H; inversion H; subst. cbn. auto.
      + destruct (lookup _ _); [|discriminate]. intros H; inversion H; subst. cbn. discriminate.
    - intros H; inversion H; subst. cbn. discriminate.
  Qed.

  (* identical settings: the second load returns the same object and changes nothing *)
  Theorem identical_settings_share st s st' i :
    load pem_ok st s = (st', LObj i) -> load pem_ok st' s = (st', LObj i).
  Proof.
    unfold load. intros H.
    destruct (String.eqb (ts_ca s) "" && String.eqb (ts_file s) "" && match ts_skip s with None => true | Some _ => false end); [discriminate|].
    destruct (pool_lookup (pool_id s) (pool st)) as [k|] eqn:L.
    - inversion H; subst. rewrite L. reflexivity.
    - assert (G : pool_lookup (pool_id s) (pool st') = Some i).
      { destruct (negb (String.eqb (ts_ca s) "")).
        - destruct (pem_ok (ts_ca s)); [|discriminate]. inversion H; subst. cbn [pool pool_lookup]. now rewrite id_eqb_refl.
        - destruct (negb (String.eqb (ts_file s) "")).
          + destruct (lookup (ts_file s) (files st)) as [data|]; [|discriminate].
            destruct (String.eqb data ""); [|destruct (pem_ok data); [|discriminate]]; inversion H; subst; cbn [pool pool_lookup]; now rewrite id_eqb_refl.
          + inversion H; subst. cbn [pool pool_lookup]. now rewrite id_eqb_refl. }
      rewrite G. reflexivity.
  Qed.

  (* distinct settings never share an object *)
  Definition pool_wf (st : pstate) : Prop := forall id k, pool_lookup id (pool st) = Some k -> k < length (objs st).

  Lemma load_new_index st s st' i :
    pool_lookup (pool_id s) (pool st) = None -> load pem_ok st s = (st', LObj i) ->
    i = length (objs st) /\ length (objs st') = S (length (objs st)) /\
    (forall id, pool_lookup id (pool st') = if id_eqb id (pool_id s) then Some i else pool_lookup id (pool st)).
  Proof.
    unfold load. intros Hm H.
    destruct (String.eqb (ts_ca s) "" && String.eqb (ts_file s) "" && match ts_skip s with None => true | Some _ => false end); [discriminate|].
    rewrite Hm in H.
    assert (L : forall x : tlsconf, length (objs st ++ [x]) = S (length (objs st))) by (intros; rewrite app_length; cbn; lia).
    destruct (negb (String.eqb (ts_ca s) "")).
    - destruct (pem_ok (ts_ca s)); [|discriminate]. inversion H; subst. cbn [objs pool pool_lookup]. auto.
    - destruct (negb (String.eqb (ts_file s) "")).
      + destruct (lookup (ts_file s) (files st)) as [data|]; [|discriminate].
        destruct (String.eqb data ""); [|destruct (pem_ok data); [|discriminate]]; inversion H; subst; cbn [objs pool pool_lookup]; auto.
      + inversion H; subst. cbn [objs pool pool_lookup]. auto.
  Qed.

  Theorem distinct_settings_distinct st s1 s2 st1 st2 i j :
    pool_wf st -> pool_id s1 <> pool_id s2 ->
    load pem_ok st s1 = (st1, LObj i) -> load pem_ok st1 s2 = (st2, LObj j) ->
    pool_lookup (pool_id s1) (pool st) = None -> pool_lookup (pool_id s2) (pool st) = None -> i <> j.
  Proof.
    intros Wf Hne H1 H2 M1 M2.
    destruct (load_new_index _ _ _ _ M1 H1) as [-> [L1 P1]].
    assert (M2' : pool_lookup (pool_id s2) (pool st1) = None).
    { rewrite P1. destruct (id_eqb (pool_id s2) (pool_id s1)) eqn:E; [apply id_eqb_eq in E; congruence | exact M2]. }
    destruct (load_new_index _ _ _ _ M2' H2) as [-> _]. lia.
  Qed.

  (* a watcher registered before is stopped by any later registration under the same id (same settings, same file),
     and by no other registration *)
  Lemma cancel_stops id ws w : In w (cancel_watchers id ws) -> w_id w = id -> w_alive w = false.
  Proof.
    unfold cancel_watchers. intros Hin Hf. apply in_map_iff in Hin as [w0 [E _]].
    destruct (id_eqb (w_id w0) id) eqn:Ei; subst w; cbn in *; [reflexivity|].
    rewrite Hf, id_eqb_refl in Ei. discriminate.
  Qed.
  Lemma cancel_spares id ws w : In w ws -> w_id w <> id -> In w (cancel_watchers id ws).
  Proof.
    unfold cancel_watchers. intros Hin Hn. apply in_map_iff. exists w. split; [|exact Hin].
    destruct (id_eqb (w_id w) id) eqn:Ei; [apply id_eqb_eq in Ei; contradiction|reflexivity].
  Qed.
End P.

(* ---- rotation: one configuration watching a file follows it at the next tick ---- *)
Theorem rotation_reaches_pooled_config (pem_ok : string -> bool) fs s c c' :
  ts_ca s = "" -> ts_file s <> "" -> (0 < ts_interval s)%Z ->
  lookup (ts_file s) fs = Some c -> c <> "" -> pem_ok c = true -> pem_ok c' = true -> c' <> c ->
  let st1 := fst (load pem_ok (pinit fs) s) in
  snd (load pem_ok (pinit fs) s) = LObj 0 /\
  nth_error (objs st1) 0 = Some {| tc_extra_ca := Some c; tc_insecure := false |} /\
  nth_error (objs (tick pem_ok (rewrite_file st1 (ts_file s) c'))) 0 = Some {| tc_extra_ca := Some c'; tc_insecure := false |}.
Proof.
  intros Hca Hf Hi Hl Hc Hp Hp' Hne. unfold load, pinit. cbn [pool pool_lookup objs files watchers].
  rewrite Hca. cbn [String.eqb negb andb].
  apply String.eqb_neq in Hf. rewrite Hf. cbn [negb andb]. rewrite Hl.
  apply Z.ltb_lt in Hi. rewrite Hi. apply String.eqb_neq in Hc. rewrite Hc, Hp. cbn [fst snd objs].
  split; [reflexivity|]. split; [reflexivity|].
  unfold tick, rewrite_file. cbn [files objs pool watchers cancel_watchers map app tick_all tick_one w_alive w_file w_data w_id pool_lookup]. rewrite id_eqb_refl.
  rewrite lookup_set_same. apply String.eqb_neq in Hne. rewrite Hne. cbn [nth_error length]. rewrite Hp'. reflexivity.
Qed.
