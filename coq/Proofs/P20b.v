(* Proofs/P20b.v — C20, rotation for ALL histories: an invariant of every state reachable by loads, file rewrites and
   ticks (every pooled configuration of settings that watch a file has a live watcher registered under its own pool id;
   a live watcher's pooled object holds the watcher's last usable content; pool ids are injective) and, from it: when the
   CA file of pooled settings is rewritten with usable content, the next tick puts that content into THEIR pooled
   object - whatever other settings watch the same file, were loaded before or after, failed to load or were retried. *)
From AS Require Import Base.Str Base.StrFacts Tls.Pool Proofs.P20.
From Coq Require Import Lia.

Lemma option_eq_dec_nat (o : option nat) (k : nat) : {o = Some k} + {o <> Some k}.
Proof. destruct o as [n|]; [destruct (Nat.eq_dec n k); [left; congruence|right; congruence]|right; discriminate]. Qed.

Section Rot.
  Variable pem_ok : string -> bool.
  Hypothesis pem_empty : pem_ok "" = false.

  Definition id_file (id : bool * string * string * string) : string := let '(_, _, f, _) := id in f.
  Definition id_ca (id : bool * string * string * string) : string := let '(_, c, _, _) := id in c.
  Definition watched (s : settings) : Prop := ts_ca s = "" /\ ts_file s <> "" /\ (0 < ts_interval s)%Z.

  Lemma length_set_nth n v l : length (set_nth_conf n v l) = length l.
  Proof. revert n; induction l as [|x l IH]; intros [|n]; cbn; auto. Qed.
  Lemma nth_set_nth_same n v l : n < length l -> nth_error (set_nth_conf n v l) n = Some v.
  Proof. revert n; induction l as [|x l IH]; intros [|n] H; cbn in *; try lia; auto. apply IH. lia. Qed.
  Lemma nth_set_nth_other n m v l : n <> m -> nth_error (set_nth_conf n v l) m = nth_error l m.
  Proof. revert n m; induction l as [|x l IH]; intros [|n] [|m] H; cbn; auto; try contradiction. Qed.

  (* what one watcher's tick does to the objects *)
  Lemma tick_one_length pl fs os w : length (fst (tick_one pem_ok pl fs os w)) = length os.
  Proof.
    unfold tick_one. destruct (w_alive w); [|reflexivity]. destruct (lookup (w_file w) fs) as [d|]; [|reflexivity].
    destruct (String.eqb d (w_data w)); [reflexivity|]. destruct (pool_lookup (w_id w) pl) as [k|]; [|reflexivity].
    destruct (nth_error os k); [|reflexivity]. destruct (pem_ok d); [|reflexivity]. cbn. apply length_set_nth.
  Qed.
  Lemma tick_one_other pl fs os w k :
    pool_lookup (w_id w) pl <> Some k -> nth_error (fst (tick_one pem_ok pl fs os w)) k = nth_error os k.
  Proof.
    intros N. unfold tick_one. destruct (w_alive w); [|reflexivity]. destruct (lookup (w_file w) fs) as [d|]; [|reflexivity].
    destruct (String.eqb d (w_data w)); [reflexivity|]. destruct (pool_lookup (w_id w) pl) as [k'|]; [|reflexivity].
    destruct (nth_error os k'); [|reflexivity]. destruct (pem_ok d); [|reflexivity]. cbn.
    apply nth_set_nth_other. congruence.
  Qed.
  Lemma tick_one_watcher pl fs os w :
    let w' := snd (tick_one pem_ok pl fs os w) in w_id w' = w_id w /\ w_file w' = w_file w /\ w_alive w' = w_alive w.
  Proof.
    unfold tick_one. destruct (w_alive w) eqn:A; [|cbn; auto]. destruct (lookup (w_file w) fs) as [d|]; [|cbn; auto].
    destruct (String.eqb d (w_data w)); [cbn; auto|]. destruct (pool_lookup (w_id w) pl) as [k|]; [|cbn; auto].
    destruct (nth_error os k); [|cbn; auto]. destruct (pem_ok d); cbn; auto.
  Qed.
  (* the tick of a live watcher whose file holds usable content d leaves d in its pooled object, provided the object
     held the watcher's last content before *)
  Lemma tick_one_target pl fs os w k d :
    w_alive w = true -> lookup (w_file w) fs = Some d -> pem_ok d = true -> pool_lookup (w_id w) pl = Some k -> k < length os ->
    (pem_ok (w_data w) = true -> exists t, nth_error os k = Some t /\ tc_extra_ca t = Some (w_data w)) ->
    exists t, nth_error (fst (tick_one pem_ok pl fs os w)) k = Some t /\ tc_extra_ca t = Some d.
  Proof.
    intros A L P K Lt D. unfold tick_one. rewrite A, L. destruct (String.eqb_spec d (w_data w)) as [->|N].
    - cbn. apply D. exact P.
    - rewrite K. destruct (nth_error os k) as [old|] eqn:E; [|apply nth_error_None in E; lia]. rewrite P. cbn.
      eexists. split; [apply nth_set_nth_same; exact Lt|reflexivity].
  Qed.

  Definition Good (os : list tlsconf) (k : nat) (d : string) : Prop := exists t, nth_error os k = Some t /\ tc_extra_ca t = Some d.
  Definition pool_inj (pl : list ((bool * string * string * string) * nat)) : Prop :=
    forall id1 id2 k, pool_lookup id1 pl = Some k -> pool_lookup id2 pl = Some k -> id1 = id2.
  Definition wG (ws : list watcher) : Prop :=
    forall w, In w ws -> w_file w = id_file (w_id w) /\ id_ca (w_id w) = "" /\ id_file (w_id w) <> "".
  (* the pooled object of a live watcher holds the watcher's last content, or already the usable content of the file *)
  Definition OKw (pl : list ((bool * string * string * string) * nat)) (fs : list (string * string)) (os : list tlsconf) (w : watcher) : Prop :=
    w_alive w = true -> forall k, pool_lookup (w_id w) pl = Some k ->
      k < length os /\
      (pem_ok (w_data w) = true -> Good os k (w_data w) \/ exists d, lookup (w_file w) fs = Some d /\ pem_ok d = true /\ Good os k d).

  (* what a watcher looks like after its tick *)
  Lemma tick_one_data pl fs os w :
    let w' := snd (tick_one pem_ok pl fs os w) in
    (w_alive w = true -> forall d, lookup (w_file w) fs = Some d -> w_data w' = d) /\
    (w_alive w = false \/ lookup (w_file w) fs = None -> w' = w).
  Proof.
    unfold tick_one. destruct (w_alive w) eqn:A.
    - destruct (lookup (w_file w) fs) as [d|] eqn:L.
      + split; [|intros [H|H]; discriminate]. intros _ d0 E; inversion E; subst d0.
        destruct (String.eqb_spec d (w_data w)) as [->|N]; [reflexivity|].
        destruct (pool_lookup (w_id w) pl) as [k|]; [|reflexivity]. destruct (nth_error os k); [|reflexivity]. destruct (pem_ok d); reflexivity.
      + split; [intros _ d E; discriminate|reflexivity].
    - split; [discriminate|reflexivity].
  Qed.

  (* once an object holds the usable content that every live watcher targeting it reads, it keeps holding it *)
  Lemma tick_all_stable pl fs d k : pem_ok d = true -> forall ws os,
    Good os k d ->
    (forall w, In w ws -> w_alive w = true -> pool_lookup (w_id w) pl = Some k -> lookup (w_file w) fs = Some d) ->
    Good (fst (tick_all pem_ok pl fs os ws)) k d.
  Proof.
    intros P. induction ws as [|w ws IH]; intros os G H; [exact G|].
    cbn [tick_all]. destruct (tick_one pem_ok pl fs os w) as [os1 w1] eqn:E1.
    destruct (tick_all pem_ok pl fs os1 ws) as [os2 ws2] eqn:E2. cbn [fst].
    assert (G1 : Good os1 k d).
    { replace os1 with (fst (tick_one pem_ok pl fs os w)) by now rewrite E1.
      destruct (option_eq_dec_nat (pool_lookup (w_id w) pl) k) as [Hk|Hk].
      - unfold tick_one. destruct (w_alive w) eqn:A; [|exact G]. rewrite (H w (or_introl eq_refl) A Hk).
        destruct (String.eqb d (w_data w)); [exact G|]. rewrite Hk. destruct G as [t [Gt Ge]]. rewrite Gt, P. cbn.
        eexists. split; [apply nth_set_nth_same; apply nth_error_Some; congruence|reflexivity].
      - destruct G as [t [Gt Ge]]. exists t. split; [|exact Ge]. rewrite tick_one_other; assumption. }
    specialize (IH os1 G1 (fun w' Hin => H w' (or_intror Hin))). now rewrite E2 in IH.
  Qed.

  Lemma same_target_same_file pl ws w1 w2 k :
    pool_inj pl -> wG ws -> In w1 ws -> In w2 ws -> pool_lookup (w_id w1) pl = Some k -> pool_lookup (w_id w2) pl = Some k ->
    w_file w1 = w_file w2.
  Proof.
    intros I G H1 H2 K1 K2. destruct (G w1 H1) as [F1 _], (G w2 H2) as [F2 _]. rewrite F1, F2, (I _ _ _ K1 K2). reflexivity.
  Qed.

  (* one tick keeps the OKw condition of every other watcher *)
  Lemma tick_one_keeps_OKw pl fs os w0 w ws :
    pool_inj pl -> wG ws -> In w0 ws -> In w ws -> OKw pl fs os w ->
    OKw pl fs (fst (tick_one pem_ok pl fs os w0)) w.
  Proof.
    intros I G H0 Hw O Aw k K. destruct (O Aw k K) as [Lt D]. rewrite tick_one_length. split; [exact Lt|]. intros P.
    destruct (option_eq_dec_nat (pool_lookup (w_id w0) pl) k) as [Hk|Hk].
    - (* w0 targets the same object: it reads the same file *)
      pose proof (same_target_same_file pl ws w0 w k I G H0 Hw Hk K) as SF.
      unfold tick_one. destruct (w_alive w0) eqn:A; [|exact (D P)]. rewrite SF.
      destruct (lookup (w_file w) fs) as [d|] eqn:L; [|exact (D P)].
      destruct (String.eqb d (w_data w0)); [exact (D P)|]. rewrite Hk.
      destruct (nth_error os k) as [old|] eqn:E; [|exact (D P)].
      destruct (pem_ok d) eqn:Pd; [|exact (D P)]. cbn. right. exists d. split; [reflexivity|]. split; [exact Pd|].
      eexists. split; [apply nth_set_nth_same; exact Lt|reflexivity].
    - destruct (D P) as [[t [Gt Ge]]|[d [L [Pd [t [Gt Ge]]]]]].
      + left. exists t. split; [|exact Ge]. rewrite tick_one_other; assumption.
      + right. exists d. split; [exact L|]. split; [exact Pd|]. exists t. split; [|exact Ge]. rewrite tick_one_other; assumption.
  Qed.

  (* every live watcher whose file holds usable content leaves that content in its pooled object *)
  Lemma tick_all_target pl fs : pool_inj pl -> forall ws0, wG ws0 -> forall ws os,
    (forall w, In w ws -> In w ws0) -> (forall w, In w ws -> OKw pl fs os w) ->
    forall w d k, In w ws -> w_alive w = true -> lookup (w_file w) fs = Some d -> pem_ok d = true -> pool_lookup (w_id w) pl = Some k ->
    Good (fst (tick_all pem_ok pl fs os ws)) k d.
  Proof.
    intros I ws0 G. induction ws as [|w0 ws IH]; intros os Sub O w d k Hin A L P K; [contradiction|].
    cbn [tick_all]. destruct (tick_one pem_ok pl fs os w0) as [os1 w1] eqn:E1.
    destruct (tick_all pem_ok pl fs os1 ws) as [os2 ws2] eqn:E2. cbn [fst].
    assert (O1 : forall w', In w' ws -> OKw pl fs os1 w').
    { intros w' Hw'. replace os1 with (fst (tick_one pem_ok pl fs os w0)) by now rewrite E1.
      apply (tick_one_keeps_OKw pl fs os w0 w' ws0); auto.
      - apply Sub. left. reflexivity.
      - apply Sub. right. exact Hw'.
      - apply O. right. exact Hw'. }
    destruct Hin as [->|Hin].
    - (* the head is the watcher in question *)
      assert (G1 : Good os1 k d).
      { replace os1 with (fst (tick_one pem_ok pl fs os w)) by now rewrite E1.
        destruct (O w (or_introl eq_refl) A k K) as [Lt D].
        unfold tick_one. rewrite A, L. destruct (String.eqb_spec d (w_data w)) as [Ed|Nd].
        - cbn. subst d. destruct (D P) as [H|[d' [L' [_ H]]]]; [exact H|]. rewrite L in L'. inversion L'; subst. exact H.
        - rewrite K. destruct (nth_error os k) as [old|] eqn:E; [|apply nth_error_None in E; lia]. rewrite P. cbn.
          eexists. split; [apply nth_set_nth_same; exact Lt|reflexivity]. }
      pose proof (tick_all_stable pl fs d k P ws os1 G1) as St. rewrite E2 in St. apply St.
      intros w' Hw' A' K'. rewrite <- L. f_equal.
      apply (same_target_same_file pl ws0 w' w k I G); auto; apply Sub; [right; exact Hw'|left; reflexivity].
    - specialize (IH os1 (fun w' H => Sub w' (or_intror H)) O1 w d k Hin A L P K). now rewrite E2 in IH.
  Qed.

  (* ---------------- reachable states ---------------- *)
  Variable S : list settings.
  (* the interval text in the pool id determines the interval (time.Duration.String is injective) *)
  Hypothesis S_consistent : forall s1 s2, In s1 S -> In s2 S -> pool_id s1 = pool_id s2 -> ts_interval s1 = ts_interval s2.

  Record Inv (st : pstate) : Prop := {
    i_wf : pool_wf st;
    i_inj : pool_inj (pool st);
    i_G : wG (watchers st);
    i_C : forall s, In s S -> watched s -> forall k, pool_lookup (pool_id s) (pool st) = Some k ->
            exists w, In w (watchers st) /\ w_alive w = true /\ w_id w = pool_id s;
    i_D : forall w, In w (watchers st) -> w_alive w = true -> forall k, pool_lookup (w_id w) (pool st) = Some k ->
            pem_ok (w_data w) = true -> Good (objs st) k (w_data w)
  }.

  Lemma inv_OKw st fs : Inv st -> forall w, In w (watchers st) -> OKw (pool st) fs (objs st) w.
  Proof.
    intros I w Hw A k K. split; [apply (i_wf st I _ _ K)|]. intros P. left. apply (i_D st I w Hw A k K P).
  Qed.

  (* in every state satisfying the invariant: a rewritten CA file reaches, at the next tick, the pooled configuration of
     EVERY settings that watch it *)
  Theorem rotation_from_inv st s k c' :
    Inv st -> In s S -> watched s -> pool_lookup (pool_id s) (pool st) = Some k -> pem_ok c' = true ->
    Good (objs (tick pem_ok (rewrite_file st (ts_file s) c'))) k c'.
  Proof.
    intros I Hs W K P. destruct (i_C st I s Hs W k K) as [w [Hw [A Ew]]].
    unfold tick, rewrite_file. cbn [pool files objs watchers].
    destruct (tick_all pem_ok (pool st) (set_key (ts_file s) c' (files st)) (objs st) (watchers st)) as [os ws] eqn:E. cbn [objs].
    pose proof (tick_all_target (pool st) (set_key (ts_file s) c' (files st)) (i_inj st I) (watchers st) (i_G st I)
                  (watchers st) (objs st) (fun w H => H) (inv_OKw st _ I) w c' k Hw A) as T.
    rewrite E in T. apply T; [|exact P|rewrite Ew; exact K].
    destruct (i_G st I w Hw) as [F _]. rewrite F, Ew. destruct s as [ca f sk iv ivs]. cbn. apply lookup_set_same.
  Qed.

  (* ---- the watchers after a tick ---- *)
  Definition wtick (fs : list (string * string)) (w : watcher) : watcher :=
    if w_alive w then
      match lookup (w_file w) fs with
      | None => w
      | Some d => if String.eqb d (w_data w) then w
                  else {| w_id := w_id w; w_file := w_file w; w_interval := w_interval w; w_data := d; w_alive := true |}
      end
    else w.
  Lemma snd_tick_one pl fs os w : snd (tick_one pem_ok pl fs os w) = wtick fs w.
  Proof.
    unfold tick_one, wtick. destruct (w_alive w); [|reflexivity]. destruct (lookup (w_file w) fs) as [d|]; [|reflexivity].
    destruct (String.eqb d (w_data w)); [reflexivity|]. destruct (pool_lookup (w_id w) pl) as [k|]; [|reflexivity].
    destruct (nth_error os k); [|reflexivity]. destruct (pem_ok d); reflexivity.
  Qed.
  Lemma snd_tick_all pl fs : forall ws os, snd (tick_all pem_ok pl fs os ws) = map (wtick fs) ws.
  Proof.
    induction ws as [|w ws IH]; intros os; [reflexivity|]. cbn [tick_all map].
    pose proof (snd_tick_one pl fs os w) as E1. destruct (tick_one pem_ok pl fs os w) as [os1 w1]. cbn [snd] in E1. subst w1.
    specialize (IH os1). destruct (tick_all pem_ok pl fs os1 ws) as [os2 ws2]. cbn [snd] in *. now rewrite IH.
  Qed.
  Lemma tick_all_length pl fs : forall ws os, length (fst (tick_all pem_ok pl fs os ws)) = length os.
  Proof.
    induction ws as [|w ws IH]; intros os; [reflexivity|]. cbn [tick_all].
    pose proof (tick_one_length pl fs os w) as E1. destruct (tick_one pem_ok pl fs os w) as [os1 w1]. cbn [fst] in E1.
    specialize (IH os1). destruct (tick_all pem_ok pl fs os1 ws) as [os2 ws2]. cbn [fst] in *. lia.
  Qed.
  Lemma wtick_fields fs w : w_id (wtick fs w) = w_id w /\ w_file (wtick fs w) = w_file w /\ w_alive (wtick fs w) = w_alive w.
  Proof.
    unfold wtick. destruct (w_alive w) eqn:A; [|auto]. destruct (lookup (w_file w) fs) as [d|]; [|auto].
    destruct (String.eqb d (w_data w)); cbn; auto.
  Qed.
  Lemma wtick_data fs w :
    (w_alive w = true -> forall d, lookup (w_file w) fs = Some d -> w_data (wtick fs w) = d) /\
    (lookup (w_file w) fs = None -> wtick fs w = w).
  Proof.
    unfold wtick. destruct (w_alive w).
    - destruct (lookup (w_file w) fs) as [d|]; split; try discriminate; auto.
      intros _ d0 E; inversion E; subst. destruct (String.eqb_spec d0 (w_data w)); [auto|reflexivity].
    - split; [discriminate|reflexivity].
  Qed.

  (* an object that no live watcher with a readable file targets is left alone *)
  Lemma tick_all_untouched pl fs k : forall ws os,
    (forall w, In w ws -> w_alive w = true -> pool_lookup (w_id w) pl = Some k -> lookup (w_file w) fs = None) ->
    nth_error (fst (tick_all pem_ok pl fs os ws)) k = nth_error os k.
  Proof.
    induction ws as [|w ws IH]; intros os H; [reflexivity|]. cbn [tick_all].
    assert (E1 : nth_error (fst (tick_one pem_ok pl fs os w)) k = nth_error os k).
    { destruct (option_eq_dec_nat (pool_lookup (w_id w) pl) k) as [Hk|Hk]; [|apply tick_one_other; exact Hk].
      unfold tick_one. destruct (w_alive w) eqn:A; [|reflexivity]. now rewrite (H w (or_introl eq_refl) A Hk). }
    destruct (tick_one pem_ok pl fs os w) as [os1 w1]. cbn [fst] in E1.
    specialize (IH os1 (fun w' Hin => H w' (or_intror Hin))). destruct (tick_all pem_ok pl fs os1 ws) as [os2 ws2]. cbn [fst] in *. congruence.
  Qed.

  Lemma inv_tick st : Inv st -> Inv (tick pem_ok st).
  Proof.
    intros I. unfold tick.
    pose proof (snd_tick_all (pool st) (files st) (watchers st) (objs st)) as Ws.
    pose proof (tick_all_length (pool st) (files st) (watchers st) (objs st)) as Ln.
    pose proof (tick_all_target (pool st) (files st) (i_inj st I) (watchers st) (i_G st I) (watchers st) (objs st) (fun w H => H) (inv_OKw st _ I)) as Tg.
    pose proof (fun k => tick_all_untouched (pool st) (files st) k (watchers st) (objs st)) as Un.
    destruct (tick_all pem_ok (pool st) (files st) (objs st) (watchers st)) as [os ws]. cbn [fst snd] in *. subst ws.
    constructor; cbn [pool objs watchers].
    - intros id k K. cbn [pool objs] in *. rewrite Ln. apply (i_wf st I _ _ K).
    - apply (i_inj st I).
    - intros w' Hw'. apply in_map_iff in Hw' as [w [<- Hw]]. destruct (wtick_fields (files st) w) as [E1 [E2 _]].
      rewrite E1, E2. apply (i_G st I w Hw).
    - intros s Hs W k K. destruct (i_C st I s Hs W k K) as [w [Hw [A Ew]]].
      exists (wtick (files st) w). destruct (wtick_fields (files st) w) as [E1 [_ E3]].
      split; [apply in_map; exact Hw|]. split; congruence.
    - intros w' Hw' A' k K P. apply in_map_iff in Hw' as [w [<- Hw]].
      destruct (wtick_fields (files st) w) as [E1 [E2 E3]]. rewrite E1 in K. rewrite E3 in A'.
      destruct (lookup (w_file w) (files st)) as [d|] eqn:L.
      + destruct (wtick_data (files st) w) as [Dd _]. rewrite (Dd A' d L) in *. apply (Tg w d k Hw A' L P K).
      + destruct (wtick_data (files st) w) as [_ Dn]. rewrite (Dn L) in *.
        destruct (i_D st I w Hw A' k K P) as [t [Gt Ge]]. exists t. split; [|exact Ge]. rewrite Un; [exact Gt|].
        intros w2 Hw2 A2 K2. rewrite <- L. f_equal. apply (same_target_same_file (pool st) (watchers st) w2 w k (i_inj st I) (i_G st I)); auto.
  Qed.

  (* ---- a load ---- *)
  Lemma Good_app os l k d : Good os k d -> Good (os ++ l) k d.
  Proof. intros [t [Gt Ge]]. exists t. split; [|exact Ge]. rewrite nth_error_app1; [exact Gt|]. apply nth_error_Some. congruence. Qed.
  Lemma in_cancel id ws w : In w (cancel_watchers id ws) -> w_alive w = true -> In w ws /\ w_id w <> id.
  Proof.
    unfold cancel_watchers. intros Hin A. apply in_map_iff in Hin as [w0 [E H0]].
    destruct (id_eqb (w_id w0) id) eqn:Ei; subst w; cbn in *; [discriminate|]. split; [exact H0|].
    intros E2. rewrite E2 in Ei. rewrite id_eqb_refl in Ei. discriminate.
  Qed.
  Lemma cancel_wG id ws : wG ws -> wG (cancel_watchers id ws).
  Proof.
    intros G w Hin. unfold cancel_watchers in Hin. apply in_map_iff in Hin as [w0 [E H0]].
    destruct (id_eqb (w_id w0) id); subst w; cbn; apply (G w0 H0).
  Qed.

  (* extending the pool with a fresh object under a key that was absent *)
  Lemma extend_wf_inj st id t :
    pool_wf st -> pool_inj (pool st) -> pool_lookup id (pool st) = None ->
    pool_wf {| objs := objs st ++ [t]; pool := (id, length (objs st)) :: pool st; watchers := watchers st; files := files st |} /\
    pool_inj ((id, length (objs st)) :: pool st).
  Proof.
    intros W I M. split.
    - intros id' k. cbn [pool objs pool_lookup]. rewrite app_length. cbn [length]. destruct (id_eqb id' id).
      + intros E; inversion E; lia.
      + intros K. specialize (W _ _ K). lia.
    - intros id1 id2 k. cbn [pool_lookup]. destruct (id_eqb id1 id) eqn:E1, (id_eqb id2 id) eqn:E2.
      + intros _ _. apply id_eqb_eq in E1, E2. congruence.
      + intros K1 K2. inversion K1; subst. specialize (W _ _ K2). lia.
      + intros K1 K2. inversion K2; subst. specialize (W _ _ K1). lia.
      + apply I.
  Qed.

  Lemma watched_id_shape s : watched s -> id_ca (pool_id s) = "" /\ id_file (pool_id s) <> "".
  Proof. intros [A [B _]]. destruct s; cbn in *. auto. Qed.

  Lemma inv_load st s : Inv st -> In s S -> Inv (fst (load pem_ok st s)).
  Proof.
    intros I Hs. unfold load.
    destruct (String.eqb (ts_ca s) "" && String.eqb (ts_file s) "" && match ts_skip s with None => true | Some _ => false end); [exact I|].
    destruct (pool_lookup (pool_id s) (pool st)) as [k0|] eqn:M; [exact I|].
    destruct (String.eqb_spec (ts_ca s) "") as [Eca|Nca]; cbn [negb].
    2:{ (* inline CA *)
      destruct (pem_ok (ts_ca s)); [|exact I]. cbn [fst].
      destruct (extend_wf_inj st (pool_id s) {| tc_extra_ca := Some (ts_ca s); tc_insecure := false |} (i_wf st I) (i_inj st I) M) as [W J].
      constructor; cbn [pool objs watchers]; auto.
      - apply (i_G st I).
      - intros s' Hs' W' k. cbn [pool_lookup]. destruct (id_eqb (pool_id s') (pool_id s)) eqn:E.
        + apply id_eqb_eq in E. destruct (watched_id_shape s' W') as [C _]. rewrite E in C. destruct s; cbn in C. contradiction.
        + apply (i_C st I s' Hs' W').
      - intros w Hw A k. cbn [pool_lookup]. destruct (id_eqb (w_id w) (pool_id s)) eqn:E.
        + apply id_eqb_eq in E. destruct (i_G st I w Hw) as [_ [C _]]. rewrite E in C. destruct s; cbn in C. contradiction.
        + intros K P. apply Good_app. apply (i_D st I w Hw A k K P). }
    destruct (String.eqb_spec (ts_file s) "") as [Ef|Nf]; cbn [negb].
    { (* neither CA nor file: skip_verify only *)
      cbn [fst].
      destruct (extend_wf_inj st (pool_id s) {| tc_extra_ca := None; tc_insecure := boolstr (ts_skip s) |} (i_wf st I) (i_inj st I) M) as [W J].
      constructor; cbn [pool objs watchers]; auto.
      - apply (i_G st I).
      - intros s' Hs' W' k. cbn [pool_lookup]. destruct (id_eqb (pool_id s') (pool_id s)) eqn:E.
        + apply id_eqb_eq in E. destruct (watched_id_shape s' W') as [_ F]. rewrite E in F. destruct s; cbn in F, Ef. contradiction.
        + apply (i_C st I s' Hs' W').
      - intros w Hw A k. cbn [pool_lookup]. destruct (id_eqb (w_id w) (pool_id s)) eqn:E.
        + apply id_eqb_eq in E. destruct (i_G st I w Hw) as [_ [_ F]]. rewrite E in F. destruct s; cbn in F, Ef. contradiction.
        + intros K P. apply Good_app. apply (i_D st I w Hw A k K P). }
    (* CA file *)
    set (id := pool_id s) in *. set (ws := cancel_watchers id (watchers st)).
    assert (Gws : wG ws) by (apply cancel_wG, (i_G st I)).
    assert (Cws : forall s', In s' S -> watched s' -> pool_id s' <> id -> forall k, pool_lookup (pool_id s') (pool st) = Some k ->
                    exists w, In w ws /\ w_alive w = true /\ w_id w = pool_id s').
    { intros s' Hs' W' N k K. destruct (i_C st I s' Hs' W' k K) as [w [Hw [A Ew]]]. exists w. split; [|auto].
      apply cancel_spares; [exact Hw|congruence]. }
    assert (Dws : forall w, In w ws -> w_alive w = true -> forall k, pool_lookup (w_id w) (pool st) = Some k -> pem_ok (w_data w) = true -> Good (objs st) k (w_data w)).
    { intros w Hw A k K P. destruct (in_cancel _ _ _ Hw A) as [Hw0 _]. apply (i_D st I w Hw0 A k K P). }
    assert (Nws : forall w, In w ws -> w_alive w = true -> w_id w <> id) by (intros w Hw A; apply (in_cancel _ _ _ Hw A)).
    destruct (lookup (ts_file s) (files st)) as [data|] eqn:L.
    2:{ (* unreadable file: only the cancellation took place *)
      cbn [fst]. constructor; cbn [pool objs watchers]; [apply (i_wf st I)|apply (i_inj st I)|exact Gws| |exact Dws].
      intros s' Hs' W' k K.
      assert (N : pool_id s' <> id) by (intros E; rewrite E in K; congruence).
      apply (Cws s' Hs' W' N k K). }
    set (nw := {| w_id := id; w_file := ts_file s; w_interval := ts_interval s; w_data := data; w_alive := true |}).
    set (ws' := if (0 <? ts_interval s)%Z then (ws ++ [nw])%list else ws).
    assert (Gnw : w_file nw = id_file (w_id nw) /\ id_ca (w_id nw) = "" /\ id_file (w_id nw) <> "").
    { unfold nw, id. destruct s; cbn in *. auto. }
    assert (Gws' : wG ws').
    { unfold ws'. destruct (0 <? ts_interval s)%Z; [|exact Gws]. intros w Hin. apply in_app_or in Hin as [Hin|[<-|[]]]; [apply Gws; exact Hin|exact Gnw]. }
    assert (Iws' : forall w, In w ws' -> In w ws \/ (w = nw /\ (0 < ts_interval s)%Z)).
    { unfold ws'. destruct (Z.ltb_spec 0 (ts_interval s)); [|auto]. intros w Hin. apply in_app_or in Hin as [Hin|[<-|[]]]; auto. }
    assert (Sub : forall w, In w ws -> In w ws') by (unfold ws'; intros w Hw; destruct (0 <? ts_interval s)%Z; [apply in_or_app; left|]; exact Hw).
    (* the two outcomes: pooled (object built) or refused (only the watchers changed) *)
    assert (Refused : Inv {| objs := objs st; pool := pool st; watchers := ws'; files := files st |}).
    { constructor; cbn [pool objs watchers]; [apply (i_wf st I)|apply (i_inj st I)|exact Gws'| |].
      - intros s' Hs' W' k K.
        assert (N : pool_id s' <> id) by (intros E; rewrite E in K; congruence).
        destruct (Cws s' Hs' W' N k K) as [w [Hw R]]. exists w. split; [apply Sub; exact Hw|exact R].
      - intros w Hw A k K P. destruct (Iws' w Hw) as [Hw0|[-> _]]; [apply (Dws w Hw0 A k K P)|]. cbn [nw w_id] in K. congruence. }
    assert (Pooled : forall t, (pem_ok data = true -> tc_extra_ca t = Some data) ->
              Inv {| objs := objs st ++ [t]; pool := (id, length (objs st)) :: pool st; watchers := ws'; files := files st |}).
    { intros t Ht. destruct (extend_wf_inj st id t (i_wf st I) (i_inj st I) M) as [W J].
      constructor; cbn [pool objs watchers]; auto.
      - intros s' Hs' W' k. cbn [pool_lookup]. destruct (id_eqb (pool_id s') id) eqn:E.
        + intros _. apply id_eqb_eq in E. exists nw. destruct W' as [_ [_ Pos]].
          rewrite (S_consistent s' s Hs' Hs E) in Pos. unfold ws'. apply Z.ltb_lt in Pos. rewrite Pos.
          split; [apply in_or_app; right; left; reflexivity|]. split; [reflexivity|]. cbn. congruence.
        + intros K.
          assert (N : pool_id s' <> id) by (intros E'; rewrite E', id_eqb_refl in E; discriminate).
          destruct (Cws s' Hs' W' N k K) as [w [Hw R]]. exists w. split; [apply Sub; exact Hw|exact R].
      - intros w Hw A k. cbn [pool_lookup]. destruct (id_eqb (w_id w) id) eqn:E.
        + intros K P. inversion K; subst k. destruct (Iws' w Hw) as [Hw0|[-> _]].
          * apply id_eqb_eq in E. exfalso. apply (Nws w Hw0 A E).
          * cbn [nw w_data] in *. exists t. split; [apply nth_app_new|apply Ht; exact P].
        + intros K P. apply Good_app. destruct (Iws' w Hw) as [Hw0|[-> _]]; [apply (Dws w Hw0 A k K P)|].
          cbn [nw w_id] in E. rewrite id_eqb_refl in E. discriminate. }
    fold ws. fold nw. fold ws'.
    destruct (String.eqb_spec data "") as [Ed|Nd].
    - cbn [fst]. apply Pooled. intros P. rewrite Ed, pem_empty in P. discriminate.
    - destruct (pem_ok data) eqn:Pd; cbn [fst]; [apply Pooled; reflexivity|exact Refused].
  Qed.

  Lemma inv_init fs : Inv (pinit fs).
  Proof.
    constructor; cbn.
    - intros id k K. discriminate.
    - intros id1 id2 k K. discriminate.
    - intros w [].
    - intros s _ _ k K. discriminate.
    - intros w [].
  Qed.
  Lemma inv_rewrite st path c : Inv st -> Inv (rewrite_file st path c).
  Proof. intros I. constructor; cbn [rewrite_file pool objs watchers]; apply I. Qed.

  (* histories: loads of settings from S, rewrites of any file with any content, ticks *)
  Inductive pop := PLoad (s : settings) | PWrite (path content : string) | PTick.
  Definition papply (st : pstate) (o : pop) : pstate :=
    match o with PLoad s => fst (load pem_ok st s) | PWrite p c => rewrite_file st p c | PTick => tick pem_ok st end.
  Definition loads_from_S (ops : list pop) : Prop := forall s, In (PLoad s) ops -> In s S.

  Lemma inv_reachable ops : forall st, Inv st -> loads_from_S ops -> Inv (fold_left papply ops st).
  Proof.
    induction ops as [|o ops IH]; intros st I L; [exact I|]. cbn [fold_left]. apply IH.
    - destruct o as [s|p c|]; cbn [papply]; [apply inv_load; [exact I|apply L; left; reflexivity]|apply inv_rewrite; exact I|apply inv_tick; exact I].
    - intros s Hs. apply L. right. exact Hs.
  Qed.

  (* after ANY history of loads, rewrites and ticks: when the CA file of pooled settings that watch it is rewritten with
     usable content, the next tick puts that content into the pooled object of THOSE settings - whatever other settings
     watch the same file, were loaded before or after, failed to load or were retried *)
  Theorem rotation_all_histories fs ops s k c' :
    loads_from_S ops -> In s S -> watched s ->
    let st := fold_left papply ops (pinit fs) in
    pool_lookup (pool_id s) (pool st) = Some k -> pem_ok c' = true ->
    Good (objs (tick pem_ok (rewrite_file st (ts_file s) c'))) k c'.
  Proof. intros L Hs W st K P. apply rotation_from_inv; auto. apply inv_reachable; [apply inv_init|exact L]. Qed.
End Rot.
