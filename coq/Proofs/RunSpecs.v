(* Proofs/RunSpecs.v — complete characterisations of what each procedure of the handler model can do,
   for EVERY list of environment answers: its result and the exact (effect, answer) pairs it performs.
   All per-check property theorems are derived from these. *)
From AS Require Import Base.Str Base.StrFacts Http.PathSplit Http.Cookie Url.Escape Oidc.Types Oidc.Prog Oidc.Handler Oidc.Spec Oidc.Monitors
  Proofs.ProgFacts Proofs.SymExec.

Lemma kvs_eqb_refl l : kvs_eqb l l = true.
Proof. induction l as [|[a b] l IH]; simpl; [reflexivity|]. unfold kv_eqb; simpl. now rewrite !String.eqb_refl, IH. Qed.
Lemma tokens_eqb_refl t : tokens_eqb t t = true.
Proof. unfold tokens_eqb. now rewrite !String.eqb_refl, Z.eqb_refl. Qed.
Lemma auth_eqb_refl t : auth_eqb t t = true.
Proof. unfold auth_eqb. now rewrite !String.eqb_refl. Qed.
Lemma treq_eqb_refl t : treq_eqb t t = true.
Proof. unfold treq_eqb. now rewrite !String.eqb_refl. Qed.

(* ---- the typed primitives ---- *)
Lemma run_do_unit e answers r tr rest :
  run (do_unit e) answers = Some (r, tr, rest) ->
  exists a, answers = a :: rest /\ tr = [(e, a)] /\ r = match a with AUnit ok => Some ok | _ => None end.
Proof. unfold do_unit, perform. intros H. sym. eexists; repeat split. Qed.

Lemma run_do_get_tok sid answers r tr rest :
  run (do_get_tok sid) answers = Some (r, tr, rest) ->
  exists a, answers = a :: rest /\ tr = [(EGetTok sid, a)] /\ r = match a with ATok x => Some x | _ => None end.
Proof. unfold do_get_tok, perform. intros H. sym. eexists; repeat split. Qed.

Lemma run_do_get_auth sid answers r tr rest :
  run (do_get_auth sid) answers = Some (r, tr, rest) ->
  exists a, answers = a :: rest /\ tr = [(EGetAuth sid, a)] /\ r = match a with AAuth x => Some x | _ => None end.
Proof. unfold do_get_auth, perform. intros H. sym. eexists; repeat split. Qed.

(* ---- isValidIDToken ---- *)
Section Specs.
  Variable c : cfg.
  Variable db : tokdb.
  Variable now : Z.

  (* the checks made before the key lookup *)
  Definition pre_valid (tok expected : string) (required : bool) : bool :=
    let d := db tok in
    d_parses d && nonce_ok d expected required && existsb (String.eqb (client_id c)) (d_aud d).

  Lemma validated_split tok e rq : validated c db tok e rq = pre_valid tok e rq && d_sig_ok (db tok).
  Proof. reflexivity. Qed.

  Definition jw (tok : string) : prog (option gcode) :=
    a <- perform EJwks ;;
    match a with
    | AJwks true => if d_sig_ok (db tok) then Ret None else Ret (Some GInternal)
    | AJwks false => Ret (Some GInternal)
    | _ => Ret (Some GPermissionDenied)
    end.

  Lemma is_valid_unfold tok expected required :
    is_valid_id_token c db tok expected required =
    if negb (d_parses (db tok)) then Ret (Some GInternal)
    else if negb (nonce_ok (db tok) expected required) then Ret (Some GInvalidArgument)
    else if negb (existsb (String.eqb (client_id c)) (d_aud (db tok))) then Ret (Some GInvalidArgument)
    else jw tok.
  Proof.
    unfold is_valid_id_token, nonce_ok, jw. destruct (d_parses (db tok)); [|reflexivity]. cbn [negb].
    destruct (d_nonce (db tok)); try reflexivity.
    - destruct required; reflexivity.
    - rewrite Bool.negb_involutive. reflexivity.
  Qed.

  Definition jw_result (tok : string) (a : ans) : option gcode :=
    match a with
    | AJwks true => if d_sig_ok (db tok) then None else Some GInternal
    | AJwks false => Some GInternal
    | _ => Some GPermissionDenied
    end.

  Lemma run_jw tok answers v tr rest :
    run (jw tok) answers = Some (v, tr, rest) ->
    exists a, answers = a :: rest /\ tr = [(EJwks, a)] /\ v = jw_result tok a.
  Proof. unfold jw, perform, jw_result. intros H. sym; eexists; repeat split. Qed.

  (* isValidIDToken, for every answer of the key source: either a pre-check fails (no effect at all),
     or exactly one key lookup is made and the verdict is the signature check under the answer *)
  Lemma run_is_valid tok expected required answers v tr rest :
    run (is_valid_id_token c db tok expected required) answers = Some (v, tr, rest) ->
    (pre_valid tok expected required = false /\ tr = [] /\ rest = answers /\
     (v = Some GInternal \/ v = Some GInvalidArgument)) \/
    (pre_valid tok expected required = true /\
     exists a, answers = a :: rest /\ tr = [(EJwks, a)] /\ v = jw_result tok a).
  Proof.
    rewrite is_valid_unfold. unfold pre_valid. intros H.
    destruct (d_parses (db tok)); cbn [negb andb] in *.
    2:{ sym. left. auto. }
    destruct (nonce_ok (db tok) expected required); cbn [negb andb] in *.
    2:{ sym. left. auto. }
    destruct (existsb (String.eqb (client_id c)) (d_aud (db tok))); cbn [negb andb] in *.
    2:{ sym. left. auto. }
    right. split; [reflexivity|]. apply run_jw in H. exact H.
  Qed.

  Lemma valid_none_iff tok expected required answers tr rest :
    run (is_valid_id_token c db tok expected required) answers = Some (None, tr, rest) ->
    validated c db tok expected required = true /\ tr = [(EJwks, AJwks true)] /\ answers = AJwks true :: rest.
  Proof.
    intros H. apply run_is_valid in H as [[_ [_ [_ [H|H]]]]|[P [a [Ha [Ht Hv]]]]]; try discriminate.
    rewrite validated_split, P. unfold jw_result in Hv.
    destruct a as [| | | | |[|]]; try discriminate.
    destruct (d_sig_ok (db tok)); [|discriminate]. subst. auto.
  Qed.
End Specs.

Lemma typed_trace_app a b : typed_trace (a ++ b) = typed_trace a && typed_trace b.
Proof. unfold typed_trace. apply forallb_app. Qed.
Lemma typed_trace_cons x a : typed_trace (x :: a) = ans_typed x && typed_trace a.
Proof. reflexivity. Qed.

(* ================= refreshToken, redirectToIDP, retrieveTokens, Process ================= *)
Section Procs.
  Variable c : cfg.
  Variable db : tokdb.
  Variable now : Z.


  (* besides the exchange itself, refreshToken only reads the login state and looks up keys *)
  Definition only_reads (sid : string) (l : list (eff * ans)) : bool :=
    forallb (fun ea => match fst ea with EGetAuth s => String.eqb s sid | EJwks => true | _ => false end) l.

  Inductive refresh_spec (old : tokens) (sid : string) : option (option tokens) -> list (eff * ans) -> Prop :=
  | RF_ok b oa :
      valid_refresh_tokens b = true ->
      validated c db (t_id (merged_tokens db now old b)) (nonce_of oa) false = true ->
      refresh_spec old sid (Some (Some (merged_tokens db now old b)))
        [(EIdp (refresh_request c (t_refresh old)), AIdp (IdpBody b)); (EGetAuth sid, AAuth (Some oa)); (EJwks, AJwks true)]
  | RF_fail a rest_ : only_reads sid rest_ = true ->
      refresh_spec old sid (Some None) ((EIdp (refresh_request c (t_refresh old)), a) :: rest_)
  | RF_bad a rest_ : only_reads sid rest_ = true ->
      typed_trace ((EIdp (refresh_request c (t_refresh old)), a) :: rest_) = false ->
      refresh_spec old sid None ((EIdp (refresh_request c (t_refresh old)), a) :: rest_).

  Lemma run_refresh old sid answers rt tr rest :
    run (refresh_token c db now old sid) answers = Some (rt, tr, rest) -> refresh_spec old sid rt tr.
  Proof.
    unfold refresh_token, do_get_auth, perform. intros H.
    assert (G : forall a l, only_reads sid l = true -> only_reads sid ((EGetAuth sid, a) :: l) = true)
      by (intros a l Hl; unfold only_reads; cbn [forallb fst]; rewrite String.eqb_refl; exact Hl).
    sym; cbn [app];
      try (match goal with R : run (is_valid_id_token _ _ _ _ _) _ = Some _ |- _ =>
             pose proof R as R'; apply run_is_valid in R' as [[_ [-> [_ Hv]]]|[_ [x [_ [-> Hv]]]]] end);
      cbn [app];
      try (apply RF_bad; [try apply G; reflexivity |
             try reflexivity; try (destruct Hv; discriminate);
             unfold jw_result in Hv; destruct x as [| | | | |[|]]; try reflexivity; try discriminate Hv;
             destruct (d_sig_ok _); discriminate Hv]);
      try (apply RF_fail; try apply G; reflexivity).
    all: try (apply RF_bad; [reflexivity | match goal with a : ans |- _ => destruct a; try discriminate; reflexivity end]).
    all: match goal with R : run (is_valid_id_token _ _ _ _ _) _ = Some (None, _, _) |- _ =>
           apply valid_none_iff in R as [V [Ht _]] end; try discriminate Ht.
    inversion Ht; subst.
    apply (RF_ok old sid b o); [apply Bool.negb_false_iff; assumption | exact V].
  Qed.

  (* ---- redirectToIDP ---- *)
  Definition rm_part (old : string) : list (eff * ans) :=
    if String.eqb old "" then [] else [(ERemove old, AUnit true)].
  Definition login_redirect (g : gen_out) : outcome :=
    redirect (authorization_url c g) [("set-cookie", set_cookie_header (cookie_prefix c) (g_sid g) SessionCookie)].

  Inductive redirect_spec (r : request) (old : string) : outcome -> list (eff * ans) -> Prop :=
  | RD_rm_fail : old <> "" -> redirect_spec r old session_error [(ERemove old, AUnit false)]
  | RD_set_fail g : redirect_spec r old session_error
      (rm_part old ++ [(EGen, AGen g); (ESetAuth (g_sid g) (new_auth r g), AUnit false)])
  | RD_ok g : redirect_spec r old (login_redirect g)
      (rm_part old ++ [(EGen, AGen g); (ESetAuth (g_sid g) (new_auth r g), AUnit true)])
  | RD_bad tr : typed_trace tr = false -> redirect_spec r old OBadAnswer tr.      (* ill-typed answer *)

  Lemma run_redirect r old answers o tr rest :
    run (redirect_to_idp c r old) answers = Some (o, tr, rest) -> redirect_spec r old o tr.
  Proof.
    unfold redirect_to_idp, do_unit, perform. intros H.
    destruct (String.eqb_spec old "") as [->|Hne].
    - cbn [String.eqb] in H. sym; cbn [app]; try (apply RD_bad; reflexivity).
      + apply (RD_ok r "" _).
      + apply (RD_set_fail r "" _).
    - assert (E : String.eqb old "" = false) by (apply String.eqb_neq; exact Hne). try rewrite E in H.
      assert (RP : rm_part old = [(ERemove old, AUnit true)]) by (unfold rm_part; rewrite E; reflexivity).
      sym; cbn [app]; try (apply RD_bad; reflexivity).
      + pose proof (RD_ok r old g) as X. rewrite RP in X. exact X.
      + pose proof (RD_set_fail r old g) as X. rewrite RP in X. exact X.
      + apply RD_rm_fail; assumption.
      + apply RD_bad. match goal with a : ans |- _ => destruct a; try discriminate; reflexivity end.
  Qed.

  (* ---- retrieveTokens ---- *)
  (* the callback's query is acceptable: parses, not empty, non-empty first state and code *)
  Definition cb_query_ok (r : request) : bool :=
    negb (snd (parse_query (query_of (r_path r)))) &&
    match cb_params r with nil => false | _ => true end &&
    negb (String.eqb (cb_state r) "") && negb (String.eqb (cb_code r) "").

  Definition oops : outcome :=
    ODeny {| d_code := GUnauthenticated; d_status := 400; d_headers := std_headers; d_body := oops_body |}.
  Definition back_to (url : string) : outcome :=
    ODeny {| d_code := GUnauthenticated; d_status := 302; d_headers := std_headers ++ [("location", url)]; d_body := "" |}.

  Inductive retrieve_spec (r : request) (sid : string) : outcome -> list (eff * ans) -> Prop :=
  | RT_query : cb_query_ok r = false -> retrieve_spec r sid (deny GInvalidArgument) []
  | RT_get_err : cb_query_ok r = true -> retrieve_spec r sid session_error [(EGetAuth sid, AAuth None)]
  | RT_no_state : cb_query_ok r = true -> retrieve_spec r sid oops [(EGetAuth sid, AAuth (Some None))]
  | RT_mismatch a : cb_query_ok r = true -> String.eqb (cb_state r) (a_state a) = false ->
      retrieve_spec r sid (deny GInvalidArgument) [(EGetAuth sid, AAuth (Some (Some a)))]
  | RT_idp_fail a ir code : cb_query_ok r = true -> String.eqb (cb_state r) (a_state a) = true ->
      (match ir with IdpBody _ => False | _ => True end) ->
      retrieve_spec r sid (deny code)
        [(EGetAuth sid, AAuth (Some (Some a))); (EIdp (code_request c (cb_code r) (a_verifier a)), AIdp ir)]
  | RT_body_invalid a b : cb_query_ok r = true -> String.eqb (cb_state r) (a_state a) = true ->
      valid_new_tokens c b = false ->
      retrieve_spec r sid (deny GInvalidArgument)
        [(EGetAuth sid, AAuth (Some (Some a))); (EIdp (code_request c (cb_code r) (a_verifier a)), AIdp (IdpBody b))]
  | RT_tok_invalid a b code vtr : cb_query_ok r = true -> String.eqb (cb_state r) (a_state a) = true ->
      valid_new_tokens c b = true -> validated c db (b_id b) (a_nonce a) true = false \/ vtr = [(EJwks, AJwks false)] ->
      (vtr = [] \/ exists x, vtr = [(EJwks, x)]) ->
      retrieve_spec r sid (deny code)
        ([(EGetAuth sid, AAuth (Some (Some a))); (EIdp (code_request c (cb_code r) (a_verifier a)), AIdp (IdpBody b))] ++ vtr)
  | RT_clear_fail a b : cb_query_ok r = true -> String.eqb (cb_state r) (a_state a) = true ->
      valid_new_tokens c b = true -> validated c db (b_id b) (a_nonce a) true = true ->
      retrieve_spec r sid session_error
        [(EGetAuth sid, AAuth (Some (Some a))); (EIdp (code_request c (cb_code r) (a_verifier a)), AIdp (IdpBody b));
         (EJwks, AJwks true); (EClearAuth sid, AUnit false)]
  | RT_done a b (ok : bool) : cb_query_ok r = true -> String.eqb (cb_state r) (a_state a) = true ->
      valid_new_tokens c b = true -> validated c db (b_id b) (a_nonce a) true = true ->
      retrieve_spec r sid (if ok then back_to (a_url a) else session_error)
        [(EGetAuth sid, AAuth (Some (Some a))); (EIdp (code_request c (cb_code r) (a_verifier a)), AIdp (IdpBody b));
         (EJwks, AJwks true); (EClearAuth sid, AUnit true); (ESetTok sid (login_tokens_of now b), AUnit ok)]
  | RT_bad tr : typed_trace tr = false -> retrieve_spec r sid OBadAnswer tr.

  Lemma run_retrieve r sid answers o tr rest :
    run (retrieve_tokens c db now r sid) answers = Some (o, tr, rest) -> retrieve_spec r sid o tr.
  Proof.
    unfold retrieve_tokens. intros H.
    unfold cb_query_ok, cb_state, cb_code, cb_params in *.
    destruct (parse_query (query_of (r_path r))) as [params perr] eqn:EP. cbn [fst snd] in *.
    destruct perr.
    { sym. apply RT_query. unfold cb_query_ok, cb_params. rewrite EP. reflexivity. }
    destruct params as [|kv params'].
    { sym. apply RT_query. unfold cb_query_ok, cb_params. rewrite EP. reflexivity. }
    remember (kv :: params') as params eqn:EPar.
    destruct ((qget "state" params =? "") || (qget "code" params =? "")) eqn:ESC.
    { sym. apply RT_query. unfold cb_query_ok, cb_state, cb_code, cb_params. rewrite EP. cbn [fst snd].
      rewrite <- Bool.andb_assoc, <- Bool.negb_orb, ESC. rewrite Bool.andb_false_r. reflexivity. }
    assert (QOK : cb_query_ok r = true).
    { unfold cb_query_ok, cb_state, cb_code, cb_params. rewrite EP. cbn [fst snd]. rewrite <- Bool.andb_assoc, <- Bool.negb_orb, ESC.
      rewrite EPar. reflexivity. }
    assert (ST : cb_state r = qget "state" params) by (unfold cb_state, cb_params; rewrite EP; reflexivity).
    assert (CD : cb_code r = qget "code" params) by (unfold cb_code, cb_params; rewrite EP; reflexivity).
    rewrite <- ST, <- CD in H. clear EPar.
    unfold do_get_auth, do_unit, perform in H.
    sym; cbn [app]; try (apply RT_bad; reflexivity);
      repeat match goal with E : negb _ = false |- _ => apply Bool.negb_false_iff in E
                        | E : negb _ = true |- _ => apply Bool.negb_true_iff in E end.
    all: try (apply RT_mismatch; assumption).
    all: try (apply RT_idp_fail; [assumption | assumption | exact I]).
    all: try (apply RT_body_invalid; assumption).
    all: try (apply RT_no_state; assumption).
    all: try (apply RT_get_err; assumption).
    (* the ID token was accepted *)
    all: try (match goal with R : run (is_valid_id_token _ _ _ _ _) _ = Some (None, _, _) |- _ =>
                apply valid_none_iff in R as [V [-> _]] end; cbn [app];
              first [ apply (RT_done r sid _ _ true); assumption
                    | apply (RT_done r sid _ _ false); assumption
                    | apply RT_clear_fail; assumption
                    | apply RT_bad; reflexivity ]).
    all: try (apply RT_bad; match goal with a : ans |- _ => destruct a; try discriminate; reflexivity end).
    (* the ID token was refused *)
    all: match goal with R : run (is_valid_id_token _ _ _ _ _) _ = Some _ |- _ =>
           apply run_is_valid in R as [[P [-> [_ Hv]]]|[P [x [_ [-> Hv]]]]] end; rewrite ?app_nil_r.
    all: try (apply RT_bad; first [ destruct Hv; discriminate
              | unfold jw_result in Hv; destruct x as [| | | | |[|]]; try reflexivity; try discriminate Hv;
                destruct (d_sig_ok _); discriminate Hv ]).
    all: try (apply (RT_tok_invalid r sid _ _ _ []); try assumption;
              [left; rewrite validated_split, P; reflexivity | left; reflexivity]).
    all: apply (RT_tok_invalid r sid _ _ _ [(EJwks, x)]); try assumption; [| right; eexists; reflexivity].
    all: unfold jw_result in Hv; destruct x as [| | | | |[|]]; try discriminate Hv.
    all: try (right; reflexivity).
    all: left; rewrite validated_split, P; destruct (d_sig_ok (db (b_id b))); [discriminate Hv | reflexivity].
  Qed.

  (* ---- Process ---- *)
  Definition logout_redirect : outcome :=
    redirect (match logout c with Some l => lo_redirect l | None => "" end)
             [("set-cookie", set_cookie_header (cookie_prefix c) "deleted" MaxAge0)].
  Definition got (sid : string) (t : tokens) : eff * ans := (EGetTok sid, ATok (Some (Some t))).

  Inductive process_spec (r : request) : outcome -> list (eff * ans) -> Prop :=
  | PS_nohttp : r_has_http r = false -> process_spec r (deny GInvalidArgument) []
  | PS_logout_nocookie : r_has_http r = true -> matches_logout c r = true -> request_sid c r = "" ->
      process_spec r logout_redirect []
  | PS_logout (ok : bool) : r_has_http r = true -> matches_logout c r = true -> request_sid c r <> "" ->
      process_spec r (if ok then logout_redirect else session_error) [(ERemove (request_sid c r), AUnit ok)]
  | PS_nocookie o tr : r_has_http r = true -> matches_logout c r = false -> request_sid c r = "" ->
      redirect_spec r "" o tr -> process_spec r o tr
  | PS_callback o tr : r_has_http r = true -> matches_logout c r = false -> request_sid c r <> "" ->
      matches_callback c r = true -> retrieve_spec r (request_sid c r) o tr -> process_spec r o tr
  | PS_get_err : r_has_http r = true -> matches_logout c r = false -> request_sid c r <> "" -> matches_callback c r = false ->
      process_spec r session_error [(EGetTok (request_sid c r), ATok None)]
  | PS_no_tokens o tr : r_has_http r = true -> matches_logout c r = false -> request_sid c r <> "" -> matches_callback c r = false ->
      redirect_spec r (request_sid c r) o tr ->
      process_spec r o ((EGetTok (request_sid c r), ATok (Some None)) :: tr)
  | PS_unparsable t : r_has_http r = true -> matches_logout c r = false -> request_sid c r <> "" -> matches_callback c r = false ->
      tokens_expired c db now t = None ->
      process_spec r (deny GInternal) [got (request_sid c r) t]
  | PS_fresh t : r_has_http r = true -> matches_logout c r = false -> request_sid c r <> "" -> matches_callback c r = false ->
      tokens_expired c db now t = Some false ->
      process_spec r (allow c t) [got (request_sid c r) t]
  | PS_expired_norefresh t o tr : r_has_http r = true -> matches_logout c r = false -> request_sid c r <> "" -> matches_callback c r = false ->
      tokens_expired c db now t = Some true -> t_refresh t = "" ->
      redirect_spec r (request_sid c r) o tr ->
      process_spec r o (got (request_sid c r) t :: tr)
  | PS_refresh_failed t rtr o tr : r_has_http r = true -> matches_logout c r = false -> request_sid c r <> "" -> matches_callback c r = false ->
      tokens_expired c db now t = Some true -> t_refresh t <> "" ->
      refresh_spec t (request_sid c r) (Some None) rtr ->
      redirect_spec r (request_sid c r) o tr ->
      process_spec r o (got (request_sid c r) t :: rtr ++ tr)
  | PS_refreshed t t' rtr (ok : bool) : r_has_http r = true -> matches_logout c r = false -> request_sid c r <> "" -> matches_callback c r = false ->
      tokens_expired c db now t = Some true -> t_refresh t <> "" ->
      refresh_spec t (request_sid c r) (Some (Some t')) rtr ->
      process_spec r (if ok then allow c t' else session_error)
        (got (request_sid c r) t :: rtr ++ [(ESetTok (request_sid c r) t', AUnit ok)])
  | PS_bad tr : typed_trace tr = false -> process_spec r OBadAnswer tr.

  Theorem run_process r answers o tr rest :
    run (process c db now r) answers = Some (o, tr, rest) -> process_spec r o tr.
  Proof.
    unfold process. fold (request_sid c r). intros H.
    destruct (r_has_http r) eqn:EH; cbn [negb] in H.
    2:{ sym. apply PS_nohttp. assumption. }
    destruct (matches_logout c r) eqn:EL.
    { destruct (String.eqb_spec (request_sid c r) "") as [E0|E0].
      - sym. apply PS_logout_nocookie; assumption.
      - unfold do_unit, perform in H. sym; try (apply PS_bad; reflexivity).
        + apply (PS_logout r true); assumption.
        + apply (PS_logout r false); assumption.
        + apply PS_bad. match goal with a : ans |- _ => destruct a; try discriminate; reflexivity end. }
    destruct (String.eqb_spec (request_sid c r) "") as [E0|E0].
    { apply PS_nocookie; try assumption. apply run_redirect in H. exact H. }
    destruct (matches_callback c r) eqn:EC.
    { apply PS_callback; try assumption. apply run_retrieve in H. exact H. }
    unfold do_get_tok, do_unit, perform in H.
    sym; cbn [app]; try (apply PS_bad; reflexivity);
      repeat match goal with R : run (redirect_to_idp _ _ _) _ = Some _ |- _ => apply run_redirect in R
                        | R : run (refresh_token _ _ _ _ _) _ = Some _ |- _ => apply run_refresh in R
                        | E : String.eqb _ _ = true |- _ => apply String.eqb_eq in E
                        | E : String.eqb _ _ = false |- _ => apply String.eqb_neq in E end;
      rewrite ?app_nil_r.
    - apply PS_expired_norefresh; assumption.
    - apply (PS_refreshed r t t0 _ true); assumption.
    - apply (PS_refreshed r t t0 _ false); assumption.
    - apply PS_bad. rewrite typed_trace_cons, typed_trace_app.
      match goal with a : ans |- _ => destruct a; try discriminate; cbn; rewrite ?Bool.andb_false_r; reflexivity end.
    - apply PS_refresh_failed; assumption.
    - apply PS_bad. match goal with X : refresh_spec _ _ None _ |- _ => inversion X; subst end.
      rewrite typed_trace_cons. match goal with T : typed_trace _ = false |- _ => rewrite T end. apply Bool.andb_false_r.
    - apply PS_fresh; assumption.
    - apply PS_unparsable; assumption.
    - apply PS_no_tokens; assumption.
    - apply PS_get_err; assumption.
    - apply PS_bad. match goal with a : ans |- _ => destruct a; try discriminate; reflexivity end.
  Qed.
End Procs.
