(* Proofs/PHandler.v — the per-check monitors hold of every run of the handler model, for every list of
   environment answers. *)
From AS Require Import Base.Str Base.StrFacts Http.PathSplit Http.Cookie Url.Escape Oidc.Types Oidc.Prog Oidc.Handler Oidc.Spec
  Oidc.Monitors Oidc.Store Proofs.ProgFacts Proofs.SymExec Proofs.RunSpecs.

Ltac inv_specs :=
  repeat match goal with
         | X : redirect_spec _ _ _ _ _ |- _ => inversion X; subst; clear X
         | X : retrieve_spec _ _ _ _ _ _ _ |- _ => inversion X; subst; clear X
         | X : refresh_spec _ _ _ _ _ _ _ |- _ => inversion X; subst; clear X
         end.

(* contradiction between a well-typed trace and a recorded ill-typed part of it *)
Ltac typed_contra :=
  match goal with
  | T : typed_trace _ = true |- _ =>
      repeat (rewrite ?typed_trace_cons, ?typed_trace_app in T);
      repeat match goal with F : typed_trace _ = false |- _ => rewrite F in T end;
      cbn in T; rewrite ?Bool.andb_false_r in T; discriminate T
  end.

Lemma has_app p a b : has p (a ++ b) = has p a || has p b.
Proof. unfold has. apply existsb_app. Qed.
Lemma has_cons p x a : has p (x :: a) = p (fst x) || has p a.
Proof. reflexivity. Qed.
Lemma has_nil p : has p [] = false.
Proof. reflexivity. Qed.

Lemma only_reads_has sid p l :
  only_reads sid l = true -> (forall s, p (EGetAuth s) = false) -> p EJwks = false -> has p l = false.
Proof.
  intros H G J. induction l as [|[e a] l IH]; [reflexivity|].
  unfold only_reads in H. cbn [forallb fst] in H. apply andb_prop in H as [He Hl].
  rewrite has_cons. cbn [fst]. rewrite (IH Hl), Bool.orb_false_r.
  destruct e; try discriminate; auto.
Qed.

Lemma rm_part_cases sid : rm_part sid = [] /\ sid = "" \/ rm_part sid = [(ERemove sid, AUnit true)] /\ sid <> "".
Proof.
  unfold rm_part. destruct (String.eqb_spec sid ""); [left|right]; auto.
Qed.

Ltac rm_cases sid :=
  let E := fresh "E" in let N := fresh "N" in
  destruct (rm_part_cases sid) as [[E N]|[E N]]; rewrite ?E in *.

Ltac refl_simpl :=
  repeat rewrite ?String.eqb_refl, ?treq_eqb_refl, ?tokens_eqb_refl, ?auth_eqb_refl, ?kvs_eqb_refl, ?Nat.eqb_refl,
                 ?Bool.andb_true_r, ?Bool.orb_false_r, ?Bool.orb_true_r.

Ltac has_simpl :=
  repeat (rewrite ?has_cons, ?has_app, ?has_nil);
  repeat match goal with
         | H : only_reads ?sid ?l = true |- context[has ?p ?l] =>
             rewrite (only_reads_has sid p l H) by (try (intros; reflexivity))
         end;
  cbn [fst is_set_tok is_idp is_gen is_set_auth is_remove_of orb andb negb].

Ltac use_hyps :=
  repeat match goal with
         | H : ?x = true |- context[?x] => rewrite H
         | H : ?x = false |- context[?x] => rewrite H
         | H : ?x = Some _ |- context[?x] => rewrite H
         | H : ?x = None |- context[?x] => rewrite H
         | H : ?s <> "" |- context[String.eqb ?s ""] => rewrite (proj2 (String.eqb_neq s "") H)
         end.
Ltac finish := refl_simpl; use_hyps; refl_simpl; cbn [negb andb orb]; try reflexivity; try assumption;
  try (cbn [login_tokens_of t_id]; assumption); try congruence.

Ltac vtr_cases :=
  repeat match goal with
         | H : ?v = [] \/ (exists x, ?v = [(EJwks, x)]) |- _ => destruct H as [->|[? ->]]
         end.

Lemma cb_query_ok_nonempty r : cb_query_ok r = true -> negb (cb_state r =? "") && negb (cb_code r =? "") = true.
Proof.
  unfold cb_query_ok. intros H. apply andb_prop in H as [H H2]. apply andb_prop in H as [H H1]. now rewrite H1, H2.
Qed.

Lemma split_gen_only_reads sid l m :
  only_reads sid l = true ->
  split_gen (l ++ m) = match split_gen m with Some (p, a, s) => Some ((l ++ p)%list, a, s) | None => None end.
Proof.
  induction l as [|[e a] l IH]; intros H; cbn [app].
  - destruct (split_gen m) as [[[p a] s]|]; reflexivity.
  - unfold only_reads in H. cbn [forallb fst] in H. apply andb_prop in H as [He Hl].
    cbn [split_gen]. destruct e; try discriminate; rewrite (IH Hl); destruct (split_gen m) as [[[p a'] s']|]; reflexivity.
Qed.

Lemma removed_ok_app sid a b : removed_ok sid (a ++ b) = removed_ok sid a || removed_ok sid b.
Proof. unfold removed_ok. apply existsb_app. Qed.

Lemma find_gen_only_reads sid l m : only_reads sid l = true -> find_gen (l ++ m) = find_gen m.
Proof.
  induction l as [|[e a] l IH]; intros H; cbn [app]; [reflexivity|].
  unfold only_reads in H. cbn [forallb fst] in H. apply andb_prop in H as [He Hl].
  cbn [find_gen]. destruct e; try discriminate; apply (IH Hl).
Qed.

Section Thms.
  Variable c : cfg.
  Variable db : tokdb.
  Variable now : Z.

  Theorem settok_ok r answers o tr rest :
    run (process c db now r) answers = Some (o, tr, rest) -> typed_trace tr = true ->
    settok_shape c db now r tr = true.
  Proof.
    intros H T. apply run_process in H. inversion H; subst; inv_specs; try typed_contra;
      unfold settok_shape, got; vtr_cases; cbn [app];
      try (rm_cases (request_sid c r)); try (rm_cases ""); cbn [app]; has_simpl; try reflexivity; finish.
  Qed.

  Theorem idp_calls_ok r answers o tr rest :
    run (process c db now r) answers = Some (o, tr, rest) -> typed_trace tr = true ->
    idp_calls_shape c db now r tr = true.
  Proof.
    intros H T. apply run_process in H. inversion H; subst; inv_specs; try typed_contra;
      unfold idp_calls_shape, got; vtr_cases; cbn [app];
      try (rm_cases (request_sid c r)); try (rm_cases ""); cbn [app]; has_simpl; try reflexivity; finish.
    all: apply cb_query_ok_nonempty; assumption.
  Qed.

  Theorem renewal_ok r answers o tr rest :
    run (process c db now r) answers = Some (o, tr, rest) -> typed_trace tr = true ->
    renewal_shape c r tr o = true.
  Proof.
    intros H T. apply run_process in H. inversion H; subst; inv_specs; try typed_contra;
      unfold renewal_shape, got; vtr_cases; cbn [app];
      try (rm_cases (request_sid c r)); try (rm_cases ""); cbn [app]; try congruence;
      unfold login_redirect, logout_redirect, redirect, deny, session_error, allow, back_to, oops, std_headers, hdr;
      cbn [split_gen];
      repeat match goal with
             | H : only_reads ?sid ?l = true |- context[split_gen (?l ++ ?m)] => rewrite (split_gen_only_reads sid l m H)
             end;
      try (match goal with ok : bool |- _ => destruct ok end);
      cbn -[has removed_ok]; rewrite ?removed_ok_app; has_simpl; unfold removed_ok; cbn [existsb]; rewrite ?existsb_app; cbn [existsb]; finish;
      try (apply String.eqb_eq; assumption).
  Qed.

  Lemma only_reads_forall sid (p : eff * ans -> bool) l :
    only_reads sid l = true -> (forall s a, p (EGetAuth s, a) = true) -> (forall a, p (EJwks, a) = true) -> forallb p l = true.
  Proof.
    intros H G J. induction l as [|[e a] l IH]; [reflexivity|].
    unfold only_reads in H. cbn [forallb fst] in H. apply andb_prop in H as [He Hl].
    cbn [forallb]. rewrite (IH Hl), Bool.andb_true_r. destruct e; try discriminate; auto.
  Qed.

  Theorem settok_presented_ok r answers o tr rest :
    run (process c db now r) answers = Some (o, tr, rest) -> typed_trace tr = true ->
    settok_under_presented c r tr = true.
  Proof.
    intros H T. apply run_process in H. inversion H; subst; inv_specs; try typed_contra;
      unfold settok_under_presented, got; vtr_cases; cbn [app];
      try (rm_cases (request_sid c r)); try (rm_cases ""); cbn [app]; try congruence;
      cbn [forallb fst]; rewrite ?forallb_app; cbn [forallb fst];
      repeat match goal with
             | H : only_reads ?sid ?l = true |- context[forallb ?p ?l] =>
                 rewrite (only_reads_forall sid p l H) by (intros; reflexivity)
             end; finish.
  Qed.

  Theorem refresh_failure_ok r answers o tr rest :
    run (process c db now r) answers = Some (o, tr, rest) -> typed_trace tr = true ->
    refresh_failure_shape c db now r tr o = true.
  Proof.
    intros H T. apply run_process in H. inversion H; subst; inv_specs; try typed_contra;
      unfold refresh_failure_shape, got; vtr_cases; cbn [app]; try reflexivity;
      try (rm_cases (request_sid c r)); try (rm_cases ""); cbn [app]; try congruence;
      unfold login_redirect, logout_redirect, redirect, deny, session_error, allow, back_to, oops, session_error_resp;
      try (match goal with ok : bool |- _ => destruct ok end);
      use_hyps; cbn [negb andb]; try reflexivity; has_simpl; finish.
    all: match goal with E : t_refresh _ = "" |- _ => rewrite E end; reflexivity.
  Qed.

  Theorem deny_public_ok r answers o tr rest :
    run (process c db now r) answers = Some (o, tr, rest) -> typed_trace tr = true ->
    deny_is_public c tr o = true.
  Proof.
    intros H T. apply run_process in H. inversion H; subst; inv_specs; try typed_contra;
      unfold deny_is_public, got; vtr_cases; cbn [app]; try reflexivity;
      try (rm_cases (request_sid c r)); try (rm_cases ""); cbn [app]; try congruence;
      unfold login_redirect, logout_redirect, redirect, deny, session_error, allow, back_to, oops, std_headers, hdr;
      try (match goal with ok : bool |- _ => destruct ok end);
      cbn -[has find_gen]; cbn [find_gen];
      repeat match goal with
             | H : only_reads ?sid ?l = true |- context[find_gen (?l ++ ?m)] => rewrite (find_gen_only_reads sid l m H)
             end; cbn [find_gen]; finish.
  Qed.

  (* C15: with answers of the right kinds a check always ends in a well-formed verdict: it never
     panics (the model has no panicking leaf left) and never gets stuck on an answer *)
  Theorem never_panics r answers o tr rest :
    run (process c db now r) answers = Some (o, tr, rest) -> typed_trace tr = true -> no_panic o = true.
  Proof.
    intros H T. apply run_process in H. inversion H; subst; inv_specs; try typed_contra; try reflexivity;
      try (match goal with ok : bool |- _ => destruct ok end); reflexivity.
  Qed.

  Theorem never_panics_any r answers o tr rest :
    run (process c db now r) answers = Some (o, tr, rest) -> o <> OPanic.
  Proof.
    intros H. apply run_process in H. inversion H; subst; inv_specs; try discriminate;
      try (match goal with ok : bool |- _ => destruct ok end); discriminate.
  Qed.
End Thms.
