(* Proofs/Examples.v — a concrete, non-trivial world used by the [Example]s under the property
   theorems (their hypotheses are satisfiable, their conclusions not vacuous). *)
From AS Require Import Base.Str Base.Base64 Http.PathSplit Http.Cookie Url.Escape Oidc.Types Oidc.Prog Oidc.Handler Oidc.Spec Oidc.Monitors Oidc.Store.

Definition ex_c : cfg :=
  {| client_id := "client-1"; client_secret := "s3cr3t/+=&";
     callback_uri := "https://app.test/callback";
     callback := {| cb_scheme := "https"; cb_hostname := "app.test"; cb_port := ""; cb_path := "/callback" |};
     auth_uri := "https://idp.test/auth?tenant=t 1"; token_uri := "https://idp.test/token";
     scopes := ["openid"; "email"]; cookie_prefix := "my-app";
     id_token := {| tc_header := "authorization"; tc_preamble := "Bearer" |};
     access_token := Some {| tc_header := "x-access-token"; tc_preamble := "" |};
     logout := Some {| lo_path := "/logout"; lo_redirect := "https://idp.test/logout" |} |}.

Definition ex_good (nonce : string) (exp : Z) : idtok :=
  {| d_parses := true; d_nonce := NStr nonce; d_aud := ["other"; "client-1"]; d_exp := exp; d_sig_ok := true |}.
Definition ex_db : tokdb := fun tok =>
  if String.eqb tok "ID1" then ex_good "N1" 2000
  else if String.eqb tok "ID2" then ex_good "N1" 9000
  else if String.eqb tok "FORGED" then {| d_parses := true; d_nonce := NStr "N1"; d_aud := ["client-1"]; d_exp := 9000; d_sig_ok := false |}
  else unparsable.

Definition ex_cookie (sid : string) : string := "a=b; __Host-my-app-authservice-session-id-cookie=" ++ sid.
Definition ex_req (path cookie : string) : request :=
  {| r_has_http := true; r_scheme := "https"; r_host := "app.test"; r_path := path; r_query := ""; r_cookie := cookie |}.
Definition ex_g : gen_out := {| g_sid := "S1"; g_nonce := "N1"; g_state := "T1"; g_verifier := "V1"; g_challenge := "CH1" |}.
Definition ex_old : tokens := {| t_id := "ID1"; t_access := "AT1"; t_refresh := "RT1"; t_expiry := 1500 |}.
Definition ex_body : idp_body := {| b_id := "ID2"; b_access := "AT2"; b_refresh := ""; b_expires_in := 0; b_token_type := "bearer" |}.
