(* Proofs/P17.v — C17: loading never panics; an accepted configuration is fully resolved. *)
From AS Require Import Base.Str Base.StrFacts Config.Loader.

(* ---- no panic ---- *)
Lemma resolve_filter_no_panic dflt f :
  (match f with FOverride _ => dflt <> None | _ => True end) -> resolve_filter dflt f <> FRPanic.
Proof.
  destruct f as [|o|o|b]; cbn [resolve_filter]; intros H; try discriminate.
  - destruct (o_logout (apply_defaults o)) as [l|]; [destruct (is_root (lg_path l))|]; discriminate.
  - destruct dflt as [d|]; [|contradiction H; reflexivity].
    destruct (o_logout (apply_defaults (merge_oidc d o))) as [l|]; [destruct (is_root (lg_path l))|]; discriminate.
Qed.

Lemma resolve_filters_no_panic dflt fs :
  (forall f, In f fs -> match f with FOverride _ => dflt <> None | _ => True end) -> resolve_filters dflt fs <> Panic.
Proof.
  induction fs as [|f fs IH]; intros H; cbn [resolve_filters]; [discriminate|].
  pose proof (resolve_filter_no_panic dflt f (H f (or_introl eq_refl))) as P.
  destruct (resolve_filter dflt f); try contradiction; try discriminate.
  assert (Q : resolve_filters dflt fs <> Panic) by (apply IH; intros g Hg; apply H; right; exact Hg).
  destruct (resolve_filters dflt fs) as [[r e]| |]; try discriminate. contradiction.
Qed.

Lemma precheck_override has_default c :
  chain_precheck has_default c = true -> forall f, In f (ch_filters c) -> match f with FOverride _ => has_default = true | _ => True end.
Proof.
  unfold chain_precheck. intros H f Hin. apply andb_prop in H as [H _]. rewrite forallb_forall in H.
  specialize (H f Hin). destruct f; auto.
Qed.

Lemma resolve_chains_no_panic dflt cs :
  forallb (chain_precheck (match dflt with Some _ => true | None => false end)) cs = true -> resolve_chains dflt cs <> Panic.
Proof.
  induction cs as [|c cs IH]; cbn [forallb resolve_chains]; intros H; [discriminate|].
  apply andb_prop in H as [Hc Hcs].
  assert (P : resolve_filters dflt (ch_filters c) <> Panic).
  { apply resolve_filters_no_panic. intros f Hin. pose proof (precheck_override _ _ Hc f Hin) as X.
    destruct f; auto. destruct dflt; [discriminate | discriminate X]. }
  destruct (resolve_filters dflt (ch_filters c)) as [[fs e]| |]; try discriminate; [|contradiction].
  specialize (IH Hcs). destruct (resolve_chains dflt cs) as [[r e']| |]; try discriminate. contradiction.
Qed.

Theorem load_no_panic k : load k <> Panic.
Proof.
  unfold load. set (k1 := {| chains := map norm_chain (chains k) |}).
  destruct (listen_port k1 =? health_port k1)%Z; [discriminate|].
  destruct (negb _); [discriminate|]. destruct (negb _); [discriminate|].
  destruct (negb (forallb (chain_precheck (match default_oidc k1 with Some _ => true | None => false end)) (chains k1))) eqn:E; [discriminate|].
  apply Bool.negb_false_iff in E. pose proof (resolve_chains_no_panic _ _ E) as P.
  destruct (resolve_chains (default_oidc k1) (chains k1)) as [[cs e]| |]; try discriminate; [|contradiction].
  destruct e; [discriminate|]. destruct (valid_config _); discriminate.
Qed.

(* ---- accepted means resolved ---- *)
(* what "fully resolved" means for one OIDC filter *)
Definition resolved (o : oidc) : bool :=
  existsb (String.eqb "openid") (o_scopes o) &&
  nonempty (u_text (o_callback_uri o)) && u_ok (o_callback_uri o) && negb (is_root (u_path (o_callback_uri o))) &&
  match o_logout o with
  | Some l => nonempty (lg_path l) && negb (is_root (lg_path l)) && negb (String.eqb (u_path (o_callback_uri o)) (lg_path l))
  | None => true
  end &&
  nonempty (o_client_id o) && negb (has_char ":"%char (o_client_id o)) &&
  match o_secret o with SLiteral s => nonempty s | SRef _ n => nonempty n | SNone => false end &&
  match o_id_token o with Some t => nonempty (tk_header t) | None => false end &&
  negb (endpoints_missing o).
Definition filter_resolved (f : cfilter) : bool := match f with FOidc o => resolved o | FMock _ => true | _ => false end.
Definition chain_resolved (c : chain) : bool :=
  forallb filter_resolved (ch_filters c) && (length (filter is_oidcish (ch_filters c)) <=? 1)%nat.

Lemma apply_defaults_openid o : existsb (String.eqb "openid") (o_scopes (apply_defaults o)) = true.
Proof.
  cbn [apply_defaults o_scopes]. destruct (existsb (String.eqb "openid") (o_scopes o)) eqn:E; [exact E|].
  rewrite existsb_app. cbn. apply Bool.orb_true_r.
Qed.

Lemma merged_callback d s :
  urls_ok d = true -> urls_ok s = true ->
  u_ok (o_callback_uri (merge_oidc d s)) = true /\
  (nonempty (u_text (o_callback_uri (merge_oidc d s))) = true -> is_root (u_path (o_callback_uri (merge_oidc d s))) = false).
Proof.
  unfold urls_ok. intros Hd Hs.
  repeat (apply andb_prop in Hd as [Hd ?]). repeat (apply andb_prop in Hs as [Hs ?]).
  cbn [merge_oidc o_callback_uri]. unfold murl, nonempty, is_unset in *.
  destruct (u_text (o_callback_uri s) =? "") eqn:E.
  - split; [assumption|]. intros N.
    match goal with X : negb (negb (u_text (o_callback_uri d) =? "") && _) = true |- _ =>
      rewrite N in X; cbn in X; apply Bool.negb_true_iff in X; exact X end.
  - split; [assumption|]. intros _.
    match goal with X : negb (negb false && is_root (u_path (o_callback_uri s))) = true |- _ => cbn in X; apply Bool.negb_true_iff in X; exact X end.
Qed.

Lemma endpoints_defaults o : endpoints_missing (apply_defaults o) = endpoints_missing o.
Proof. reflexivity. Qed.

(* a resolved filter that passes the generated rules, with nothing collected, is fully resolved *)
Lemma resolved_from_parts o1 em :
  u_ok (o_callback_uri o1) = true ->
  (nonempty (u_text (o_callback_uri o1)) = true -> is_root (u_path (o_callback_uri o1)) = false) ->
  existsb (String.eqb "openid") (o_scopes o1) = true ->
  endpoints_missing o1 = em -> em = false ->
  match o_logout o1 with Some l => is_root (lg_path l) = false /\ (u_path (o_callback_uri o1) =? lg_path l) = false | None => True end ->
  valid_oidc o1 = true -> resolved o1 = true.
Proof.
  intros C1 C2 S EM -> L V. unfold valid_oidc in V. repeat (apply andb_prop in V as [V ?]).
  unfold resolved. rewrite S, V, C1, (C2 V), EM.
  destruct (o_logout o1) as [l|]; [destruct L as [L1 L2]; rewrite L1, L2|];
    repeat match goal with X : ?b = true |- context[?b] => rewrite X end; reflexivity.
Qed.

Lemma resolve_filter_sound dflt f f1 :
  (match dflt with Some d => urls_ok d = true | None => True end) ->
  (match f with FOidc o | FOverride o => urls_ok o = true | _ => True end) ->
  (match f with FOidc _ => dflt = None | FOverride _ => dflt <> None | _ => True end) ->
  resolve_filter dflt f = FR f1 false -> valid_filter f1 = true -> filter_resolved f1 = true.
Proof.
  intros Hd Hu Hp R V. destruct f as [|o|s|b]; cbn [resolve_filter] in R; try discriminate.
  - (* own configuration *)
    assert (C : u_ok (o_callback_uri (apply_defaults o)) = true /\
                (nonempty (u_text (o_callback_uri (apply_defaults o))) = true -> is_root (u_path (o_callback_uri (apply_defaults o))) = false)).
    { unfold urls_ok in Hu. repeat (apply andb_prop in Hu as [Hu ?]). cbn [apply_defaults o_callback_uri]. split; [assumption|].
      intros N. unfold nonempty, is_unset in *.
      match goal with X : negb (negb (u_text (o_callback_uri o) =? "") && _) = true |- _ =>
        rewrite N in X; cbn in X; apply Bool.negb_true_iff in X; exact X end. }
    destruct C as [C1 C2].
    destruct (o_logout (apply_defaults o)) as [l|] eqn:EL.
    + destruct (is_root (lg_path l)) eqn:ER; [discriminate|].
      destruct (endpoints_missing o || (u_path (o_callback_uri (apply_defaults o)) =? lg_path l)) eqn:EC; inversion R; subst.
      apply Bool.orb_false_iff in EC as [EM EP]. cbn [valid_filter filter_resolved] in *.
      eapply resolved_from_parts; try eassumption; [apply apply_defaults_openid | reflexivity | rewrite EL; split; assumption].
    + destruct (endpoints_missing o) eqn:EM; inversion R; subst. cbn [valid_filter filter_resolved] in *.
      eapply resolved_from_parts; try eassumption; [apply apply_defaults_openid | reflexivity | rewrite EL; exact I].
  - (* override merged over the default *)
    destruct dflt as [d|]; [|contradiction Hp; reflexivity].
    destruct (merged_callback d s Hd Hu) as [C1 C2].
    destruct (o_logout (apply_defaults (merge_oidc d s))) as [l|] eqn:EL.
    + destruct (is_root (lg_path l)) eqn:ER; [discriminate|].
      destruct (endpoints_missing (merge_oidc d s) || (u_path (o_callback_uri (apply_defaults (merge_oidc d s))) =? lg_path l)) eqn:EC; inversion R; subst.
      apply Bool.orb_false_iff in EC as [EM EP]. cbn [valid_filter filter_resolved] in *.
      eapply resolved_from_parts; try eassumption; [apply apply_defaults_openid | reflexivity | rewrite EL; split; assumption].
    + destruct (endpoints_missing (merge_oidc d s)) eqn:EM; inversion R; subst. cbn [valid_filter filter_resolved] in *.
      eapply resolved_from_parts; try eassumption; [apply apply_defaults_openid | reflexivity | rewrite EL; exact I].
  - inversion R; subst. reflexivity.
Qed.

Lemma resolve_filter_oidcish dflt f f1 e : resolve_filter dflt f = FR f1 e -> is_oidcish f1 = is_oidcish f.
Proof.
  destruct f as [|o|s|b]; cbn [resolve_filter]; try discriminate.
  - destruct (o_logout (apply_defaults o)) as [l|]; [destruct (is_root (lg_path l)); [discriminate|]|]; intros R; inversion R; reflexivity.
  - destruct dflt as [d|]; [|discriminate].
    destruct (o_logout (apply_defaults (merge_oidc d s))) as [l|]; [destruct (is_root (lg_path l)); [discriminate|]|]; intros R; inversion R; reflexivity.
  - intros R; inversion R; reflexivity.
Qed.

Lemma resolve_filters_sound dflt fs rs :
  (match dflt with Some d => urls_ok d = true | None => True end) ->
  filters_urls_ok fs = true ->
  (forall f, In f fs -> match f with FOidc _ => dflt = None | FOverride _ => dflt <> None | _ => True end) ->
  resolve_filters dflt fs = Ok (rs, false) -> forallb valid_filter rs = true ->
  forallb filter_resolved rs = true /\ length (filter is_oidcish rs) = length (filter is_oidcish fs).
Proof.
  intros Hd. revert rs. induction fs as [|f fs IH]; intros rs Hu Hp R V; cbn [resolve_filters] in R.
  - inversion R; subst. split; reflexivity.
  - unfold filters_urls_ok in Hu. cbn [forallb] in Hu. apply andb_prop in Hu as [Hu1 Hu2].
    destruct (resolve_filter dflt f) as [f1 e1| |] eqn:E1; try discriminate.
    destruct (resolve_filters dflt fs) as [[r e]| |] eqn:E2; try discriminate.
    inversion R; subst. apply Bool.orb_false_iff in H1 as [-> ->].
    cbn [forallb] in V. apply andb_prop in V as [V1 V2].
    destruct (IH r Hu2 (fun g Hg => Hp g (or_intror Hg)) eq_refl V2) as [I1 I2].
    split.
    + cbn [forallb]. rewrite I1, Bool.andb_true_r.
      eapply resolve_filter_sound; try eassumption.
      * destruct f; auto.
      * apply (Hp f). left; reflexivity.
    + cbn [filter]. rewrite (resolve_filter_oidcish _ _ _ _ E1). destruct (is_oidcish f); cbn [length]; rewrite I2; reflexivity.
Qed.

Lemma precheck_kinds has_default c :
  chain_precheck has_default c = true ->
  forall f, In f (ch_filters c) -> match f with FOidc _ => has_default = false | FOverride _ => has_default = true | _ => True end.
Proof.
  unfold chain_precheck. intros H f Hin. apply andb_prop in H as [H _]. rewrite forallb_forall in H.
  specialize (H f Hin). destruct f; auto. apply Bool.negb_true_iff in H. exact H.
Qed.

Lemma resolve_chains_sound dflt cs rs :
  (match dflt with Some d => urls_ok d = true | None => True end) ->
  forallb (fun c => filters_urls_ok (ch_filters c)) cs = true ->
  forallb (chain_precheck (match dflt with Some _ => true | None => false end)) cs = true ->
  resolve_chains dflt cs = Ok (rs, false) -> forallb valid_chain rs = true ->
  forallb chain_resolved rs = true.
Proof.
  intros Hd. revert rs. induction cs as [|c cs IH]; intros rs Hu Hp R V; cbn [resolve_chains] in R.
  - inversion R; subst. reflexivity.
  - cbn [forallb] in Hu, Hp. apply andb_prop in Hu as [Hu1 Hu2]. apply andb_prop in Hp as [Hp1 Hp2].
    destruct (resolve_filters dflt (ch_filters c)) as [[fs e1]| |] eqn:E1; try discriminate.
    destruct (resolve_chains dflt cs) as [[r e]| |] eqn:E2; try discriminate.
    inversion R; subst. apply Bool.orb_false_iff in H1 as [-> ->].
    cbn [forallb] in V. apply andb_prop in V as [V1 V2].
    cbn [forallb]. rewrite (IH r Hu2 Hp2 eq_refl V2), Bool.andb_true_r.
    unfold valid_chain in V1. cbn [ch_name ch_match ch_filters] in V1. repeat (apply andb_prop in V1 as [V1 ?]).
    assert (K : forall f, In f (ch_filters c) -> match f with FOidc _ => dflt = None | FOverride _ => dflt <> None | _ => True end).
    { intros f Hin. pose proof (precheck_kinds _ _ Hp1 f Hin) as X. destruct f; auto; destruct dflt; try discriminate; auto. }
    destruct (resolve_filters_sound dflt (ch_filters c) fs Hd Hu1 K E1 H) as [S1 S2].
    unfold chain_resolved. cbn [ch_filters]. rewrite S1, S2.
    unfold chain_precheck in Hp1. apply andb_prop in Hp1 as [_ Hp1]. exact Hp1.
Qed.

Lemma norm_urls_ok o : urls_ok (norm_redis o) = true -> True.
Proof. trivial. Qed.

Theorem load_accept_sound k k' :
  load k = Ok k' ->
  forallb chain_resolved (chains k') = true /\ default_oidc k' = None /\ threads k' = 1 /\ chains k' <> [].
Proof.
  unfold load. set (k1 := {| chains := map norm_chain (chains k) |}).
  destruct (listen_port k1 =? health_port k1)%Z; [discriminate|].
  destruct (negb (match default_oidc k1 with Some o => urls_ok o | None => true end)) eqn:E1; [discriminate|].
  destruct (negb (forallb (fun c => filters_urls_ok (ch_filters c)) (chains k1))) eqn:E2; [discriminate|].
  destruct (negb (forallb (chain_precheck (match default_oidc k1 with Some _ => true | None => false end)) (chains k1))) eqn:E3; [discriminate|].
  apply Bool.negb_false_iff in E1, E2, E3.
  destruct (resolve_chains (default_oidc k1) (chains k1)) as [[cs e]| |] eqn:ER; try discriminate.
  destruct e; [discriminate|].
  match goal with |- context[valid_config ?x] => destruct (valid_config x) eqn:EV end; [|discriminate].
  intros H; inversion H; subst k'. cbn [chains default_oidc threads].
  unfold valid_config in EV. cbn [chains] in EV. repeat (apply andb_prop in EV as [EV ?]).
  split; [|split; [reflexivity | split; [reflexivity|]]].
  - eapply resolve_chains_sound; try eassumption.
    destruct (default_oidc k1); [exact E1 | exact I].
  - destruct cs; [discriminate EV | discriminate].
Qed.
