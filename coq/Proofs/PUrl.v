(* Proofs/PUrl.v — C13: the query codec round-trips for ALL byte strings, hence the login redirect
   decodes to exactly the pairs it was built from. *)
From AS Require Import Base.Str Base.StrFacts Http.PathSplit Http.Cookie Url.Escape Oidc.Types Oidc.Prog Oidc.Handler Oidc.Spec
  Oidc.Monitors Proofs.PCookie.

(* ---- per byte (256 cases each, by computation) ---- *)
Lemma unescape_escape_byte a rest r :
  query_unescape rest = Some r -> query_unescape (escape_byte a ++ rest) = Some (String a r).
Proof.
  intros H.
  destruct a as [[] [] [] [] [] [] [] []]; vm_compute escape_byte; cbn [append query_unescape Ascii.eqb Bool.eqb c_pct c_plus c_space is_hex andb];
    try (rewrite H; reflexivity); vm_compute; rewrite H; reflexivity.
Qed.

Definition sep_char (c : ascii) : bool := Ascii.eqb c c_amp || Ascii.eqb c c_eq || Ascii.eqb c c_semi || Ascii.eqb c "?"%char || Ascii.eqb c "#"%char.

Lemma escape_byte_no_sep a c : sep_char c = true -> has_char c (escape_byte a) = false.
Proof.
  unfold sep_char. intros H.
  assert (C : c = c_amp \/ c = c_eq \/ c = c_semi \/ c = "?"%char \/ c = "#"%char).
  { repeat (apply Bool.orb_true_iff in H as [H|H]); apply Ascii.eqb_eq in H; auto. }
  destruct C as [->|[->|[->|[->| ->]]]];
    destruct a as [[] [] [] [] [] [] [] []]; vm_compute; reflexivity.
Qed.

Theorem escape_roundtrip s : query_unescape (query_escape s) = Some s.
Proof.
  induction s as [|a s IH]; [reflexivity|]. cbn [query_escape]. apply unescape_escape_byte. exact IH.
Qed.

Lemma escape_no_sep s c : sep_char c = true -> has_char c (query_escape s) = false.
Proof.
  intros H. induction s as [|a s IH]; [reflexivity|]. cbn [query_escape].
  rewrite has_char_app, (escape_byte_no_sep a c H), IH. reflexivity.
Qed.

(* ---- one pair ---- *)
Definition piece (kv : string * string) : string := query_escape (fst kv) ++ String c_eq (query_escape (snd kv)).

Lemma parse_piece_piece kv : parse_piece (piece kv) = (Some kv, false).
Proof.
  destruct kv as [k v]. unfold parse_piece, piece. cbn [fst snd].
  assert (S : has_char c_semi (query_escape k ++ String c_eq (query_escape v)) = false).
  { rewrite has_char_app. cbn [has_char]. rewrite !(escape_no_sep _ c_semi) by reflexivity. reflexivity. }
  rewrite S.
  assert (NE : String.eqb (query_escape k ++ String c_eq (query_escape v)) "" = false).
  { destruct (query_escape k); reflexivity. }
  rewrite NE.
  assert (E : has_char c_eq (query_escape k) = false) by (apply escape_no_sep; reflexivity).
  rewrite (before_app_char _ _ _ E), (after_app_char _ _ _ E). cbn [odflt].
  rewrite !escape_roundtrip. reflexivity.
Qed.

Lemma piece_no_amp kv : has_char c_amp (piece kv) = false.
Proof.
  unfold piece. rewrite has_char_app. cbn [has_char]. rewrite !(escape_no_sep _ c_amp) by reflexivity. reflexivity.
Qed.

(* ---- a list of pairs ---- *)
Lemma encode_pairs_cons kv l :
  encode_pairs (kv :: l) = match l with [] => piece kv | _ => piece kv ++ String c_amp (encode_pairs l) end.
Proof.
  destruct kv as [k v]. destruct l as [|[k' v'] l]; [reflexivity|].
  unfold piece. cbn [fst snd]. rewrite append_assoc. reflexivity.
Qed.

Lemma split_encode_pairs l : l <> [] -> split_on c_amp (encode_pairs l) = map piece l.
Proof.
  induction l as [|kv l IH]; [congruence|]. intros _. rewrite encode_pairs_cons.
  destruct l as [|kv' l].
  - cbn [map]. apply split_on_absent. apply piece_no_amp.
  - rewrite (split_on_app_char _ _ _ (piece_no_amp kv)). cbn [map]. f_equal. apply IH. discriminate.
Qed.

Lemma parse_pieces_map l : parse_pieces (map piece l) = (l, false).
Proof.
  induction l as [|kv l IH]; [reflexivity|]. cbn [map parse_pieces]. rewrite parse_piece_piece, IH. reflexivity.
Qed.

Lemma encode_pairs_nonempty l : l <> [] -> String.eqb (encode_pairs l) "" = false.
Proof.
  destruct l as [|[k v] l]; [congruence|]. intros _. rewrite encode_pairs_cons.
  unfold piece. cbn [fst snd]. destruct l; destruct (query_escape k); reflexivity.
Qed.

Theorem encode_parse_roundtrip l : l <> [] -> parse_query (encode_pairs l) = (l, false).
Proof.
  intros H. unfold parse_query. rewrite (encode_pairs_nonempty l H), (split_encode_pairs l H). apply parse_pieces_map.
Qed.

Lemma sort_kv_nonempty l : l <> [] -> sort_kv l <> [].
Proof.
  destruct l as [|kv l]; [congruence|]. intros _. cbn [sort_kv fold_right].
  destruct (fold_right insert_kv [] l) as [|x l']; cbn [insert_kv]; [discriminate|]. destruct (str_leb (fst kv) (fst x)); discriminate.
Qed.

Theorem values_encode_parse l : l <> [] -> parse_query (values_encode l) = (sort_kv l, false).
Proof. intros H. unfold values_encode. apply encode_parse_roundtrip. apply sort_kv_nonempty. exact H. Qed.

Lemma values_encode_no_sep l c : sep_char c = true -> c <> c_amp -> c <> c_eq -> has_char c (values_encode l) = false.
Proof.
  intros H N1 N2. unfold values_encode. induction (sort_kv l) as [|kv m IH]; [reflexivity|].
  rewrite encode_pairs_cons.
  assert (P : has_char c (piece kv) = false).
  { unfold piece. rewrite has_char_app. cbn [has_char]. rewrite !(escape_no_sep _ c H).
    destruct (Ascii.eqb_spec c_eq c) as [E|E]; [exfalso; apply N2; symmetry; exact E | reflexivity]. }
  destruct m; [exact P|]. rewrite has_char_app, P. cbn [has_char].
  destruct (Ascii.eqb_spec c_amp c) as [E|E]; [exfalso; apply N1; symmetry; exact E | exact IH].
Qed.

(* ---- the login redirect ---- *)
Definition login_pairs (c : cfg) (g : gen_out) : list (string * string) :=
  [("response_type", "code"); ("client_id", client_id c); ("redirect_uri", callback_uri c);
   ("scope", concat_with " " (scopes c)); ("state", g_state g); ("nonce", g_nonce g);
   ("code_challenge", g_challenge g); ("code_challenge_method", "S256")].

Lemma authorization_url_eq c g :
  authorization_url c g = auth_uri c ++ (if has_char c_q (auth_uri c) then "&" else "?") ++ values_encode (login_pairs c g).
Proof. reflexivity. Qed.

(* endpoint without a query of its own: Location = endpoint ? pairs, and the query decodes to exactly the
   eight pairs (sorted by key), whatever bytes client id, scopes, callback URI, state, nonce contain *)
Theorem location_plain_endpoint c g :
  has_char c_q (auth_uri c) = false ->
  before c_q (authorization_url c g) = auth_uri c /\
  has_char c_hash (odflt (after c_q (authorization_url c g))) = false /\
  parse_query (odflt (after c_q (authorization_url c g))) = (sort_kv (login_pairs c g), false).
Proof.
  intros H. rewrite authorization_url_eq, H.
  change (auth_uri c ++ "?" ++ values_encode (login_pairs c g)) with (auth_uri c ++ String c_q (values_encode (login_pairs c g))).
  rewrite (before_app_char _ _ _ H), (after_app_char _ _ _ H). cbn [odflt]. repeat split.
  - apply values_encode_no_sep; [reflexivity | discriminate | discriminate].
  - apply values_encode_parse. discriminate.
Qed.

(* endpoint with a query of its own (base ? q0): the endpoint's pairs are kept, the eight pairs follow *)
Lemma split_on_app_sep c a b : split_on c (a ++ String c b) = (split_on c a ++ split_on c b)%list \/ True.
Proof. right. exact I. Qed.

Lemma split_on_app c a b :
  split_on c (a ++ String c b) =
  (match split_on c a with [] => [] | _ => split_on c a end ++ split_on c b)%list.
Proof.
  induction a as [|x a IH]; cbn [append split_on].
  - rewrite ascii_eqb_refl. reflexivity.
  - destruct (Ascii.eqb x c).
    + rewrite IH. destruct (split_on c a); reflexivity.
    + rewrite IH. destruct (split_on c a) as [|y ys] eqn:E; [|reflexivity].
      exfalso. destruct a; cbn [split_on] in E; [discriminate|]. destruct (Ascii.eqb a c); [discriminate|].
      destruct (split_on c a0); discriminate.
Qed.

Lemma parse_pieces_app a b :
  parse_pieces (a ++ b) = ((fst (parse_pieces a) ++ fst (parse_pieces b))%list, snd (parse_pieces a) || snd (parse_pieces b)).
Proof.
  induction a as [|p a IH]; cbn [app parse_pieces].
  - destruct (parse_pieces b); reflexivity.
  - rewrite IH. destruct (parse_piece p) as [kv e]. destruct (parse_pieces a) as [ra ea]. destruct (parse_pieces b) as [rb eb].
    cbn [fst snd]. destruct kv; cbn [app]; rewrite Bool.orb_assoc; reflexivity.
Qed.

Theorem location_endpoint_with_query c g base q0 :
  auth_uri c = base ++ String c_q q0 -> has_char c_q base = false ->
  before c_q (authorization_url c g) = base /\
  parse_query (odflt (after c_q (authorization_url c g))) =
    ((fst (parse_query q0) ++ sort_kv (login_pairs c g))%list, snd (parse_query q0)).
Proof.
  intros E H. rewrite authorization_url_eq, E.
  assert (HQ : has_char c_q (base ++ String c_q q0) = true).
  { rewrite has_char_app. cbn [has_char]. rewrite ascii_eqb_refl. apply Bool.orb_true_r. }
  rewrite HQ.
  replace ((base ++ String c_q q0) ++ "&" ++ values_encode (login_pairs c g))
    with (base ++ String c_q (q0 ++ String c_amp (values_encode (login_pairs c g))))
    by (rewrite append_assoc; reflexivity).
  rewrite (before_app_char _ _ _ H), (after_app_char _ _ _ H). cbn [odflt]. split; [reflexivity|].
  unfold parse_query at 1.
  assert (NE : String.eqb (q0 ++ String c_amp (values_encode (login_pairs c g))) "" = false) by (destruct q0; reflexivity).
  rewrite NE, split_on_app.
  assert (V : parse_pieces (split_on c_amp (values_encode (login_pairs c g))) = (sort_kv (login_pairs c g), false)).
  { pose proof (values_encode_parse (login_pairs c g)) as P. unfold parse_query, values_encode in P. unfold values_encode.
    rewrite encode_pairs_nonempty in P by (apply sort_kv_nonempty; discriminate). apply P. discriminate. }
  rewrite parse_pieces_app, V. cbn [fst snd]. rewrite Bool.orb_false_r.
  unfold parse_query. destruct (String.eqb_spec q0 "") as [->|N].
  - reflexivity.
  - destruct (split_on c_amp q0) eqn:S; [|reflexivity].
    exfalso. destruct q0; [congruence|]. cbn [split_on] in S. destruct (Ascii.eqb a c_amp); [discriminate|]. destruct (split_on c_amp q0); discriminate.
Qed.
