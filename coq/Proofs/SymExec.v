(* Proofs/SymExec.v — symbolic execution of [run p answers = Some _] hypotheses over the handler's
   program trees: every control path of the tree becomes one goal with a concrete trace. *)
From AS Require Import Base.Str Oidc.Types Oidc.Prog Proofs.ProgFacts.

Ltac inv H := inversion H; subst; clear H.

Ltac sym1 H :=
  match type of H with
  | run (Ret _) _ = Some _ => cbn [run] in H; inv H
  | run (Do _ _) ?a = Some _ =>
      let x := fresh "a" in let a' := fresh "answers" in
      destruct a as [|x a']; [discriminate H|]; cbn [run] in H
  | run (bind (Ret _) _) _ = Some _ => cbn [bind] in H
  | run (bind (Do _ _) _) _ = Some _ => cbn [bind] in H
  | run (bind (match (match ?y with _ => _ end) with _ => _ end) _) _ = Some _ => is_var y; destruct y
  | run (match (match ?y with _ => _ end) with _ => _ end) _ = Some _ => is_var y; destruct y
  | run (bind (match ?y with _ => _ end) _) _ = Some _ => is_var y; destruct y
  | run (match ?y with _ => _ end) _ = Some _ => is_var y; destruct y
  | run (bind (if ?b then _ else _) _) _ = Some _ => let E := fresh "E" in destruct b eqn:E
  | run (bind (match ?x with _ => _ end) _) _ = Some _ => let E := fresh "E" in destruct x eqn:E
  | run (bind _ _) _ = Some _ => rewrite run_bind in H
  | run (if ?b then _ else _) _ = Some _ => let E := fresh "E" in destruct b eqn:E
  | run (match ?x with _ => _ end) _ = Some _ => let E := fresh "E" in destruct x eqn:E
  | match run ?p ?a with _ => _ end = Some _ =>
      let E := fresh "R" in destruct (run p a) as [[[? ?] ?]|] eqn:E; [|discriminate H]
  | match ?y with _ => _ end = Some _ => is_var y; destruct y; try discriminate H
  | Some _ = Some _ => inv H
  end.
Ltac sym := repeat (match goal with H : _ = Some _ |- _ => sym1 H end).

(* case analysis of [In x concrete_list] *)
Ltac in_cases :=
  repeat match goal with
         | H : In _ (_ ++ _)%list |- _ => cbn [app] in H
         | H : In _ (_ :: _) |- _ => destruct H as [H|H]
         | H : In _ [] |- _ => destruct H
         | H : (_, _) = (_, _) |- _ => inv H
         | H : False |- _ => destruct H
         end.
