(* Proofs/PHist.v — invariants over sequential histories of checks on the abstract session map. *)
From AS Require Import Base.Str Base.StrFacts Http.PathSplit Http.Cookie Url.Escape Oidc.Types Oidc.Prog Oidc.Handler Oidc.Spec
  Oidc.Monitors Oidc.Store Oidc.History Proofs.ProgFacts Proofs.SymExec Proofs.RunSpecs Proofs.P01 Proofs.PHandler.

(* ---- the header encoding ---- *)
Lemma header_encoding c t :
  match access_token c with
  | None => tokens_to_headers c t = [(tc_header (id_token c), header_value (tc_preamble (id_token c)) (t_id t))]
  | Some at_ =>
      (t_access t = "" -> tokens_to_headers c t = [(tc_header (id_token c), header_value (tc_preamble (id_token c)) (t_id t))]) /\
      (t_access t <> "" -> tc_header at_ <> tc_header (id_token c) ->
       lookup (tc_header (id_token c)) (tokens_to_headers c t) = Some (header_value (tc_preamble (id_token c)) (t_id t)) /\
       lookup (tc_header at_) (tokens_to_headers c t) = Some (header_value (tc_preamble at_) (t_access t)) /\
       length (tokens_to_headers c t) = 2)
  end.
Proof.
  unfold tokens_to_headers. destruct (access_token c) as [at_|]; [|reflexivity]. split.
  - intros ->. reflexivity.
  - intros Hne Hd. apply String.eqb_neq in Hne. rewrite Hne.
    assert (E : (tc_header (id_token c) =? tc_header at_) = false) by (apply String.eqb_neq; congruence).
    assert (E' : (tc_header at_ =? tc_header (id_token c)) = false) by (apply String.eqb_neq; congruence).
    unfold set_key. cbn [remove_key]. rewrite E'. cbn [sort_kv fold_right insert_kv fst].
    destruct (str_leb (tc_header at_) (tc_header (id_token c))); cbn [lookup length];
      rewrite ?String.eqb_refl, ?E, ?E'; auto.
Qed.

(* ---- C02: the map only ever holds validated ID tokens ---- *)
Definition id_token_sound (c : cfg) (db : tokdb) (tok : string) : bool :=
  d_parses (db tok) && d_sig_ok (db tok) && existsb (String.eqb (client_id c)) (d_aud (db tok)).

Lemma validated_sound c db tok e rq : validated c db tok e rq = true -> id_token_sound c db tok = true.
Proof.
  unfold validated, id_token_sound. intros H.
  apply andb_prop in H as [H Hs]. apply andb_prop in H as [H Ha]. apply andb_prop in H as [Hp _].
  now rewrite Hp, Hs, Ha.
Qed.

Definition store_sound (c : cfg) (db : tokdb) (st : store) : Prop :=
  forall sid t, tok_of st sid = Some t -> id_token_sound c db (t_id t) = true.

Lemma tok_of_upd st sid v k : tok_of (upd st sid v) k = if String.eqb k sid then match v with Some s => ss_tok s | None => None end else tok_of st k.
Proof. unfold tok_of, upd. destruct (String.eqb k sid); reflexivity. Qed.
Lemma auth_of_upd st sid v k : auth_of (upd st sid v) k = if String.eqb k sid then match v with Some s => ss_auth s | None => None end else auth_of st k.
Proof. unfold auth_of, upd. destruct (String.eqb k sid); reflexivity. Qed.

Lemma tok_of_apply st e k :
  tok_of (apply_eff st e) k =
  match e with
  | ERemove sid => if String.eqb k sid then None else tok_of st k
  | ESetTok sid t => if String.eqb k sid then Some t else tok_of st k
  | _ => tok_of st k
  end.
Proof.
  destruct e; cbn [apply_eff]; try reflexivity; try (rewrite tok_of_upd; reflexivity).
  - rewrite tok_of_upd. cbn [ss_tok]. destruct (String.eqb_spec k sid) as [->|]; reflexivity.
  - destruct (st sid) eqn:E; [|reflexivity]. rewrite tok_of_upd. cbn [ss_tok].
    destruct (String.eqb_spec k sid) as [->|]; [|reflexivity]. unfold tok_of. now rewrite E.
Qed.

Lemma step1_sound c db st ea st' :
  store_sound c db st -> step1 st ea st' ->
  (forall s t, fst ea = ESetTok s t -> id_token_sound c db (t_id t) = true) -> store_sound c db st'.
Proof.
  intros Hs H Hw. inversion H; subst; try exact Hs.
  all: intros k t0 Hk; rewrite tok_of_apply in Hk; destruct e; try contradiction; try (apply (Hs _ _ Hk)).
  all: destruct (String.eqb k sid); try discriminate; try (apply (Hs _ _ Hk)).
  all: inversion Hk; subst; eapply Hw; reflexivity.
Qed.

Lemma steps_sound c db st tr st' :
  store_sound c db st -> steps st tr st' ->
  (forall ea s t, In ea tr -> fst ea = ESetTok s t -> id_token_sound c db (t_id t) = true) -> store_sound c db st'.
Proof.
  intros Hs H. induction H as [|st ea st1 tr st2 H1 H2 IH]; intros Hw; [exact Hs|].
  apply IH.
  - eapply step1_sound; [exact Hs | exact H1 | intros s t E; eapply Hw; [left; reflexivity | exact E]].
  - intros ea' s t Hin E. eapply Hw; [right; exact Hin | exact E].
Qed.

(* from the proved shape of token writes: every written ID token is sound *)
Lemma settok_shape_sound c db now r tr :
  settok_shape c db now r tr = true ->
  forall ea s t, In ea tr -> fst ea = ESetTok s t -> id_token_sound c db (t_id t) = true.
Proof.
  unfold settok_shape. intros H ea s t Hin E.
  destruct (has is_set_tok tr) eqn:Hh.
  2:{ exfalso. unfold has in Hh. rewrite <- Bool.not_true_iff_false in Hh. apply Hh.
      apply existsb_exists. exists ea. split; [exact Hin | rewrite E; reflexivity]. }
  revert H.
  repeat match goal with
         | |- match ?x with _ => _ end = true -> _ => is_var x; destruct x; try (intros H; discriminate H)
         | |- (match ?x with _ => _ end) _ = true -> _ => is_var x; destruct x; try (intros H; discriminate H)
         end.
  all: intros H; repeat (apply andb_prop in H as [H ?]).
  all: repeat (destruct Hin as [<-|Hin]; [cbn [fst] in E; try discriminate E|]); try contradiction.
  all: inversion E; subst; eapply validated_sound; eassumption.
Qed.

Lemma store_sound_drop c db st sid : store_sound c db st -> store_sound c db (upd st sid None).
Proof.
  intros H k t Hk. rewrite tok_of_upd in Hk. destruct (String.eqb k sid); [discriminate|]. apply (H _ _ Hk).
Qed.

Theorem store_only_validated c db os st :
  hrun c db empty_store os st -> store_sound c db st.
Proof.
  intros H. eapply (hrun_invariant c db (store_sound c db)); [ | | exact H | ].
  - intros. apply store_sound_drop; assumption.
  - intros st0 now r answers o tr rest st1 HP Hr Ht Hs.
    eapply steps_sound; [exact HP | exact Hs |]. eapply settok_shape_sound. eapply settok_ok; eassumption.
  - intros sid t Hk. discriminate.
Qed.

(* C01 + C02 over histories: every OK of every history forwards the header encoding of tokens whose ID
   token is sound, and those tokens are in the map when the check ends *)
Theorem ok_forwards_sound_tokens c db os st :
  hrun c db empty_store os st ->
  Forall (fun ob => forall h, o_out ob = OAllow h ->
                    exists t, h = tokens_to_headers c t /\ id_token_sound c db (t_id t) = true) os.
Proof.
  intros H. eapply (hrun_forall_obs c db (store_sound c db)); [ | | exact H | intros sid t Hk; discriminate].
  - intros. apply store_sound_drop; assumption.
  - intros st0 now r answers o tr rest st1 HP Hr Ht Hs. split.
    + eapply steps_sound; [exact HP | exact Hs |]. eapply settok_shape_sound. eapply settok_ok; eassumption.
    + cbn [o_out]. intros h ->.
      destruct (ok_needs_live_session _ _ _ _ _ _ _ _ _ _ Hr Hs) as [t [Ht0 [_ [[_ [_ ->]]|[_ [_ [b [oa [_ [_ [Hv [_ ->]]]]]]]]]]]].
      * exists t. split; [reflexivity | apply (HP _ _ Ht0)].
      * eexists. split; [reflexivity | eapply validated_sound; exact Hv].
Qed.

(* ---- C09 (sequential part): logout is final ---- *)
Lemma steps_tok_none st tr st1 sid :
  steps st tr st1 -> tok_of st sid = None ->
  (forall ea s t, In ea tr -> fst ea = ESetTok s t -> s <> sid) -> tok_of st1 sid = None.
Proof.
  intros H. induction H as [|st ea st1 tr st2 H1 H2 IH]; intros Hn Hw; [exact Hn|].
  apply IH; [| intros ea' s t Hin E; eapply Hw; [right; exact Hin | exact E]].
  inversion H1; subst; try exact Hn.
  all: rewrite tok_of_apply; destruct e; try contradiction; try exact Hn.
  all: destruct (String.eqb_spec sid sid0) as [->|]; try exact Hn; try reflexivity.
  all: exfalso; eapply Hw; [left; reflexivity | reflexivity | reflexivity].
Qed.

Lemma steps_first_gettok st sid t tr st1 :
  steps st ((EGetTok sid, ATok (Some (Some t))) :: tr) st1 -> tok_of st sid = Some t.
Proof. intros H. inversion H as [|? ? sta ? ? S1 S2]; subst. inversion S1; subst. congruence. Qed.

Lemma in_set_tok_has ea s t tr : In ea tr -> fst ea = ESetTok s t -> has is_set_tok tr = true.
Proof. intros Hin E. unfold has. apply existsb_exists. exists ea. split; [exact Hin | rewrite E; reflexivity]. Qed.

(* a check on a map without tokens for sid cannot create them, unless it is a callback for sid that
   stores tokens *)
Lemma check_keeps_logged_out c db now r answers o tr rest st st1 sid :
  run (process c db now r) answers = Some (o, tr, rest) -> typed_trace tr = true -> steps st tr st1 ->
  tok_of st sid = None ->
  (request_sid c r = sid -> matches_callback c r = true -> has is_set_tok tr = false) ->
  tok_of st1 sid = None.
Proof.
  intros Hr Ht Hs Hn Hcb. eapply steps_tok_none; [exact Hs | exact Hn |].
  intros ea s t Hin E.
  pose proof (settok_presented_ok c db now r answers o tr rest Hr Ht) as Hp.
  unfold settok_under_presented in Hp. rewrite forallb_forall in Hp. specialize (Hp ea Hin). rewrite E in Hp.
  apply andb_prop in Hp as [Hp _]. apply String.eqb_eq in Hp. subst s.
  intros Heq.
  pose proof (in_set_tok_has _ _ _ _ Hin E) as Hh.
  pose proof (settok_ok c db now r answers o tr rest Hr Ht) as Hsh. unfold settok_shape in Hsh. rewrite Hh in Hsh.
  revert Hsh.
  repeat match goal with
         | |- match ?x with _ => _ end = true -> _ => is_var x; destruct x; try (intros Hsh; discriminate Hsh)
         | |- (match ?x with _ => _ end) _ = true -> _ => is_var x; destruct x; try (intros Hsh; discriminate Hsh)
         end.
  - (* refresh shape: tokens were read for the presented id *)
    intros Hsh. repeat (apply andb_prop in Hsh as [Hsh ?]).
    match goal with X : (?s =? request_sid c r) = true, S : steps _ ((EGetTok ?s, _) :: _) _ |- _ =>
      apply String.eqb_eq in X; subst s; apply steps_first_gettok in S end.
    rewrite Heq in *. congruence.
  - (* callback shape *)
    intros Hsh. repeat (apply andb_prop in Hsh as [Hsh ?]).
    match goal with X : matches_callback c r = true |- _ => rewrite (Hcb Heq X) in Hh end. discriminate Hh.
Qed.

Theorem logout_final_sequential c db sid st os st2 :
  hrun c db st os st2 -> tok_of st sid = None ->
  Forall (fun ob => request_sid c (o_req ob) = sid -> matches_callback c (o_req ob) = true ->
                    has is_set_tok (o_tr ob) = false) os ->
  Forall (fun ob => request_sid c (o_req ob) = sid -> is_allow (o_out ob) = false) os.
Proof.
  intros H. induction H as [st|st now r answers o tr rest st1 os st2 Hr Ht Hs Hh IH|st sid' os st2 Hh IH]; intros Hn Hcb.
  - constructor.
  - inversion Hcb as [|? ? Hc1 Hc2]; subst. cbn [o_req o_tr] in Hc1. constructor.
    + cbn [o_req o_out]. intros Heq. destruct o as [h| | |]; try reflexivity. exfalso.
      destruct (ok_needs_live_session _ _ _ _ _ _ _ _ _ _ Hr Hs) as [t [Ht0 _]]. rewrite Heq in Ht0. congruence.
    + apply IH; [|exact Hc2]. eapply check_keeps_logged_out; eassumption.
  - apply IH; [|exact Hcb]. rewrite tok_of_upd. destruct (String.eqb sid sid'); [reflexivity | exact Hn].
Qed.

(* the logout itself: a successful removal leaves nothing under the id; a failed one is not answered
   with the logout redirect *)
Lemma logout_removes st sid st1 : steps st [(ERemove sid, AUnit true)] st1 -> st1 sid = None.
Proof.
  intros H. inversion H as [|? ? sta ? ? S1 S2]; subst. inversion S2; subst. inversion S1; subst.
  cbn [apply_eff]. apply upd_same.
Qed.

Theorem logout_answer c db now r answers o tr rest :
  run (process c db now r) answers = Some (o, tr, rest) -> typed_trace tr = true ->
  r_has_http r = true -> matches_logout c r = true ->
  (request_sid c r = "" /\ tr = [] /\ o = logout_redirect c) \/
  (request_sid c r <> "" /\ tr = [(ERemove (request_sid c r), AUnit true)] /\ o = logout_redirect c) \/
  (request_sid c r <> "" /\ tr = [(ERemove (request_sid c r), AUnit false)] /\ o = session_error).
Proof.
  intros H T Hh Hl. apply run_process in H. inversion H; subst; try congruence; try typed_contra.
  - left. auto.
  - destruct ok; [right; left | right; right]; auto.
Qed.

(* ---- C04: a successful exchange consumes the login state; without login state no exchange ---- *)
Lemma callback_consumes_state c db now r answers o tr rest st st1 :
  run (process c db now r) answers = Some (o, tr, rest) -> typed_trace tr = true -> steps st tr st1 ->
  matches_callback c r = true -> has is_set_tok tr = true ->
  auth_of st1 (request_sid c r) = None.
Proof.
  intros Hr Ht Hs Hc Hh.
  apply run_process in Hr. inversion Hr; subst; try congruence; try typed_contra; try discriminate Hh.
  - inv_specs; try typed_contra; exfalso; try (rm_cases ""); cbn [app] in Hh; discriminate Hh.
  - inv_specs; try discriminate Hh; try typed_contra.
    + vtr_cases; discriminate Hh.
    + (* RT_done *)
      inversion Hs as [|? ? s1 ? ? S1 R1]; subst. inversion S1; subst.
      inversion R1 as [|? ? s2 ? ? S2 R2]; subst. inversion S2; subst.
      inversion R2 as [|? ? s3 ? ? S3 R3]; subst. inversion S3; subst.
      inversion R3 as [|? ? s4 ? ? S4 R4]; subst. inversion S4; subst.
      inversion R4 as [|? ? s5 ? ? S5 R5]; subst. inversion R5; subst.
      assert (A : auth_of (apply_eff s3 (EClearAuth (request_sid c r))) (request_sid c r) = None).
      { cbn [apply_eff]. destruct (s3 (request_sid c r)) eqn:E3.
        - rewrite auth_of_upd, String.eqb_refl. reflexivity.
        - unfold auth_of. rewrite E3. reflexivity. }
      inversion S5; subst; try exact A.
      all: cbn [apply_eff]; rewrite auth_of_upd, String.eqb_refl; cbn [ss_auth]; exact A.
Qed.

Theorem no_state_no_exchange c db now r answers o tr rest st st1 :
  run (process c db now r) answers = Some (o, tr, rest) -> typed_trace tr = true -> steps st tr st1 ->
  matches_callback c r = true -> r_has_http r = true -> matches_logout c r = false ->
  auth_of st (request_sid c r) = None ->
  has is_idp tr = false /\ has is_set_tok tr = false /\ is_allow o = false.
Proof.
  intros Hr Ht Hs Hc Hh Hl Ha.
  apply run_process in Hr. inversion Hr; subst; try congruence; try typed_contra.
  - (* no cookie *) inv_specs; try typed_contra; repeat split; try reflexivity;
      try (rm_cases ""); cbn [app]; reflexivity.
  - inv_specs; try typed_contra; try (repeat split; reflexivity).
    all: exfalso; inversion Hs as [|? ? s1 ? ? S1 R1]; subst; inversion S1; subst; congruence.
Qed.

(* ---- C05: everything in the map sits under an id the service drew ---- *)
Lemma split_gen_spec tr : forall p a s, split_gen tr = Some (p, a, s) -> tr = (p ++ (EGen, a) :: s)%list.
Proof.
  induction tr as [|[e x] tr IH]; intros p a s H; cbn [split_gen] in H; [discriminate|].
  destruct e; try (destruct (split_gen tr) as [[[p' a'] s']|]; [|discriminate]; inversion H; subst;
                   cbn [app]; f_equal; apply IH; reflexivity).
  inversion H; subst. reflexivity.
Qed.
Lemma split_gen_none tr : split_gen tr = None -> has is_gen tr = false.
Proof.
  induction tr as [|[e x] tr IH]; intros H; [reflexivity|]. cbn [split_gen] in H.
  destruct e; try discriminate; rewrite has_cons; cbn [fst is_gen orb];
    (destruct (split_gen tr) as [[[p' a'] s']|]; [discriminate | apply IH; reflexivity]).
Qed.

Lemma set_auth_is_drawn c r tr o s0 a0 x :
  renewal_shape c r tr o = true -> In (ESetAuth s0 a0, x) tr -> In s0 (drawn_in tr).
Proof.
  unfold renewal_shape. intros H Hin.
  destruct (split_gen tr) as [[[p a] s]|] eqn:E.
  - pose proof (split_gen_spec _ _ _ _ E) as ->.
    destruct a; try discriminate. destruct s as [|[e1 a1] s]; [discriminate|].
    destruct e1; try discriminate. destruct a1; try discriminate. destruct s; [|discriminate].
    repeat (apply andb_prop in H as [H ?]).
    match goal with X : negb (has _ p) = true |- _ => apply Bool.negb_true_iff in X; rename X into Hp end.
    apply in_app_or in Hin as [Hin|[Hin|[Hin|[]]]].
    + exfalso. unfold has in Hp. rewrite <- Bool.not_true_iff_false in Hp. apply Hp.
      apply existsb_exists. eexists. split; [exact Hin | reflexivity].
    + discriminate Hin.
    + inversion Hin; subst.
      match goal with X : (s0 =? g_sid _) = true |- _ => apply String.eqb_eq in X; subst s0 end.
      unfold drawn_in. apply in_flat_map. eexists. split; [apply in_or_app; right; left; reflexivity | left; reflexivity].
  - apply andb_prop in H as [H _]. apply Bool.negb_true_iff in H. exfalso.
    unfold has in H. rewrite <- Bool.not_true_iff_false in H. apply H.
    apply existsb_exists. eexists. split; [exact Hin | reflexivity].
Qed.

Lemma steps_dom st tr st1 sid :
  steps st tr st1 -> st1 sid <> None ->
  st sid <> None \/ exists ea, In ea tr /\ (match fst ea with ESetTok s _ | ESetAuth s _ => s = sid | _ => False end).
Proof.
  intros H. induction H as [|st ea st1 tr st2 H1 H2 IH]; intros Hn; [left; exact Hn|].
  destruct (IH Hn) as [Hs|[ea' [Hin Hw]]]; [|right; exists ea'; split; [right; exact Hin | exact Hw]].
  inversion H1; subst; try (left; exact Hs).
  all: destruct e; try contradiction; cbn [apply_eff] in Hs.
  all: try match goal with Hs : (match ?s ?k with _ => _ end) _ <> None |- _ => destruct (s k) eqn:E0; [|left; exact Hs] end.
  all: match goal with Hs : upd _ ?k _ ?x <> None |- _ =>
         destruct (String.eqb_spec x k) as [->|Hne]; [| rewrite upd_other in Hs by exact Hne; left; exact Hs] end.
  all: first [ exfalso; rewrite upd_same in Hs; apply Hs; reflexivity
             | right; eexists; split; [left; reflexivity | reflexivity]
             | left; congruence ].
Qed.

Lemma steps_first_getauth st sid a tr st1 :
  steps st ((EGetAuth sid, AAuth (Some (Some a))) :: tr) st1 -> st sid <> None.
Proof.
  intros H. inversion H as [|? ? sta ? ? S1 S2]; subst. inversion S1; subst.
  intros E. match goal with X : auth_of _ _ = Some _ |- _ => unfold auth_of in X; rewrite E in X; discriminate X end.
Qed.

Lemma check_dom c db now r answers o tr rest st st1 sid :
  run (process c db now r) answers = Some (o, tr, rest) -> typed_trace tr = true -> steps st tr st1 ->
  st1 sid <> None -> st sid <> None \/ In sid (drawn_in tr).
Proof.
  intros Hr Ht Hs Hn. destruct (steps_dom _ _ _ _ Hs Hn) as [H|[[e x] [Hin Hw]]]; [left; exact H|].
  cbn [fst] in Hw. destruct e; try contradiction; subst.
  - (* a token write: the presented session existed *)
    left.
    pose proof (in_set_tok_has _ _ _ _ Hin eq_refl) as Hh.
    pose proof (settok_ok c db now r answers o tr rest Hr Ht) as Hsh. unfold settok_shape in Hsh. rewrite Hh in Hsh.
    pose proof (settok_presented_ok c db now r answers o tr rest Hr Ht) as Hp.
    unfold settok_under_presented in Hp. rewrite forallb_forall in Hp. specialize (Hp _ Hin). cbn [fst] in Hp.
    apply andb_prop in Hp as [Hp _]. apply String.eqb_eq in Hp. subst sid.
    revert Hsh.
    repeat match goal with
           | |- match ?x with _ => _ end = true -> _ => is_var x; destruct x; try (intros Hsh; discriminate Hsh)
           | |- (match ?x with _ => _ end) _ = true -> _ => is_var x; destruct x; try (intros Hsh; discriminate Hsh)
           end.
    + intros Hsh. repeat (apply andb_prop in Hsh as [Hsh ?]).
      match goal with X : (?s =? request_sid c r) = true, S : steps _ ((EGetTok ?s, _) :: _) _ |- _ =>
        apply String.eqb_eq in X; subst s; apply steps_first_gettok in S; unfold tok_of in S end.
      intros E. match goal with S : match st (request_sid c r) with _ => _ end = Some _ |- _ => rewrite E in S; discriminate S end.
    + intros Hsh. repeat (apply andb_prop in Hsh as [Hsh ?]).
      match goal with X : (?s =? request_sid c r) = true, S : steps _ ((EGetAuth ?s, _) :: _) _ |- _ =>
        apply String.eqb_eq in X; subst s; apply steps_first_getauth in S end. assumption.
  - right. eapply set_auth_is_drawn; [eapply renewal_ok; eassumption | exact Hin].
Qed.

Theorem only_issued_ids c db os st :
  hrun c db empty_store os st -> forall sid, st sid <> None -> In sid (drawn_ids os).
Proof.
  assert (G : forall st0 os st2, hrun c db st0 os st2 ->
              forall sid, st2 sid <> None -> st0 sid <> None \/ In sid (drawn_ids os)).
  { intros st0 os0 st2 H. induction H as [st0|st0 now r answers o tr rest st1 os0 st2 Hr Ht Hs Hh IH|st0 sid' os0 st2 Hh IH]; intros sid Hn.
    - left. exact Hn.
    - destruct (IH sid Hn) as [H1|H1].
      + destruct (check_dom _ _ _ _ _ _ _ _ _ _ sid Hr Ht Hs H1) as [H0|H0]; [left; exact H0|].
        right. unfold drawn_ids. cbn [flat_map o_tr]. apply in_or_app. left. exact H0.
      + right. unfold drawn_ids. cbn [flat_map]. apply in_or_app. right. exact H1.
    - destruct (IH sid Hn) as [H1|H1]; [|right; exact H1]. left.
      unfold upd in H1. destruct (String.eqb sid sid'); [exfalso; apply H1; reflexivity | exact H1]. }
  intros H sid Hn. destruct (G _ _ _ H sid Hn) as [H0|H0]; [exfalso; apply H0; reflexivity | exact H0].
Qed.
