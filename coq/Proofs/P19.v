(* Proofs/P19.v — C19: after every history of Secret events, every filter's effective client secret is what the
   per-filter reference says: the last delivered value of the Secret it referenced at start-up, else unchanged. *)
From AS Require Import Base.Str Base.StrFacts K8s.Secrets.

Section P.
  Variable cns : string.

  (* indices (offset i0) of the filters that watch key k *)
  Fixpoint idxs_for (k : string) (fs : list source) (i0 : nat) : list nat :=
    match fs with
    | [] => []
    | s :: fs' => match watched cns s with
                  | Some k' => if String.eqb k' k then i0 :: idxs_for k fs' (S i0) else idxs_for k fs' (S i0)
                  | None => idxs_for k fs' (S i0)
                  end
    end.
  Definition entry (k : string) (m : list (string * list nat)) : list nat := match lookup k m with Some l => l | None => [] end.

  Lemma entry_set_same k v m : entry k (set_key k v m) = v.
  Proof. unfold entry. now rewrite lookup_set_same. Qed.
  Lemma entry_set_other k k' v m : k <> k' -> entry k (set_key k' v m) = entry k m.
  Proof. intros N. unfold entry. rewrite lookup_set_other; [reflexivity | apply String.eqb_neq; exact N]. Qed.

  Lemma load_from_entries fs : forall i m m', load_from cns i fs m = Some m' ->
    forall k, entry k m' = (entry k m ++ idxs_for k fs i)%list.
  Proof.
    induction fs as [|s fs IH]; intros i m m' H k; cbn [load_from idxs_for] in *.
    - inversion H; subst. now rewrite app_nil_r.
    - destruct s as [|x|ns name]; cbn [watched]; try (apply IH; exact H).
      destruct (String.eqb name "") eqn:En; [apply IH; exact H|].
      destruct (negb (ns =? "") && negb (ns =? cns)); [discriminate|].
      rewrite (IH _ _ _ H k).
      destruct (String.eqb_spec (key_of cns name) k) as [->|N].
      + rewrite entry_set_same. unfold entry. match goal with |- context[lookup ?x m] => destruct (lookup x m) end; cbn [app]; rewrite <- ?app_assoc; reflexivity.
      + rewrite entry_set_other by congruence. reflexivity.
  Qed.

  Lemma in_idxs_for k fs : forall i0 j, In j (idxs_for k fs i0) <->
    (i0 <= j /\ exists s, nth_error fs (j - i0) = Some s /\ watched cns s = Some k).
  Proof.
    induction fs as [|s fs IH]; intros i0 j; cbn [idxs_for].
    - split; [intros [] | intros [_ [s [H _]]]; destruct (j - i0); discriminate].
    - assert (R : In j (idxs_for k fs (S i0)) <-> (S i0 <= j /\ exists s', nth_error fs (j - S i0) = Some s' /\ watched cns s' = Some k)) by apply IH.
      assert (Step : forall j, S i0 <= j -> nth_error (s :: fs) (j - i0) = nth_error fs (j - S i0)).
      { intros j' Hj. replace (j' - i0) with (S (j' - S i0)) by lia. reflexivity. }
      destruct (watched cns s) as [k'|] eqn:W; [destruct (String.eqb_spec k' k) as [->|N]|].
      + split.
        * intros [<-|Hin]; [split; [lia|]; exists s; rewrite Nat.sub_diag; auto|].
          apply R in Hin as [Hj [s' [Hn Hw]]]. split; [lia|]. exists s'. rewrite Step by exact Hj. auto.
        * intros [Hj [s' [Hn Hw]]]. destruct (Nat.eq_dec i0 j) as [->|Ne]; [left; reflexivity|]. right. apply R.
          split; [lia|]. exists s'. rewrite <- Step by lia. auto.
      + split.
        * intros Hin. apply R in Hin as [Hj [s' [Hn Hw]]]. split; [lia|]. exists s'. rewrite Step by exact Hj. auto.
        * intros [Hj [s' [Hn Hw]]]. apply R. destruct (Nat.eq_dec i0 j) as [->|Ne].
          -- rewrite Nat.sub_diag in Hn. cbn in Hn. inversion Hn; subst. rewrite W in Hw. inversion Hw. contradiction.
          -- split; [lia|]. exists s'. rewrite <- Step by lia. auto.
      + split.
        * intros Hin. apply R in Hin as [Hj [s' [Hn Hw]]]. split; [lia|]. exists s'. rewrite Step by exact Hj. auto.
        * intros [Hj [s' [Hn Hw]]]. apply R. destruct (Nat.eq_dec i0 j) as [->|Ne].
          -- rewrite Nat.sub_diag in Hn. cbn in Hn. inversion Hn; subst. rewrite W in Hw. discriminate.
          -- split; [lia|]. exists s'. rewrite <- Step by lia. auto.
  Qed.

  (* the start-up map is exact: the entry of k lists precisely the filters that reference Secret k *)
  Lemma load_secrets_exact fs m : load_secrets cns fs = Some m ->
    forall k j, In j (entry k m) <-> exists s, nth_error fs j = Some s /\ watched cns s = Some k.
  Proof.
    intros H k j. unfold load_secrets in H. rewrite (load_from_entries _ _ _ _ H k). cbn [entry lookup app].
    rewrite in_idxs_for. rewrite Nat.sub_0_r. split; [intros [_ X]; exact X | intros X; split; [lia | exact X]].
  Qed.

  (* writing a literal at a set of positions *)
  Lemma nth_set_nth n v l j : nth_error (set_nth n v l) j = if Nat.eqb j n then (match nth_error l j with Some _ => Some v | None => None end) else nth_error l j.
  Proof.
    revert n j. induction l as [|x l IH]; intros n j; cbn [set_nth].
    - destruct n; destruct j; cbn [set_nth nth_error]; try reflexivity; destruct (Nat.eqb _ _); reflexivity.
    - destruct n as [|n]; destruct j as [|j]; cbn [nth_error Nat.eqb]; try reflexivity. apply IH.
  Qed.
  Lemma nth_fold_set v idxs : forall l j,
    nth_error (fold_left (fun acc i => set_nth i v acc) idxs l) j =
    if existsb (Nat.eqb j) idxs then (match nth_error l j with Some _ => Some v | None => None end) else nth_error l j.
  Proof.
    induction idxs as [|i idxs IH]; intros l j; cbn [fold_left existsb]; [reflexivity|].
    rewrite IH, nth_set_nth. destruct (Nat.eqb j i); cbn [orb].
    - destruct (existsb (Nat.eqb j) idxs); destruct (nth_error l j); reflexivity.
    - reflexivity.
  Qed.

  Lemma existsb_in j l : existsb (Nat.eqb j) l = true <-> In j l.
  Proof. rewrite existsb_exists. split; [intros [x [H E]]; apply Nat.eqb_eq in E; subst; exact H | intros H; exists j; split; [exact H | apply Nat.eqb_refl]]. Qed.

  (* one reconcile, seen from one filter *)
  Lemma reconcile_nth fs m : load_secrets cns fs = Some m ->
    forall cl ns name cur j s0 sc, nth_error fs j = Some s0 -> nth_error cur j = Some sc ->
    nth_error (reconcile m cl ns name cur) j =
    Some (match watched cns s0 with
          | Some k => match delivers cl (EvResync ns name) k with Some v => SrcLiteral v | None => sc end
          | None => sc
          end).
  Proof.
    intros Hm cl ns name cur j s0 sc H0 Hc. unfold reconcile, delivers.
    set (k := key_of ns name).
    pose proof (load_secrets_exact fs m Hm k j) as Ex. unfold entry in Ex.
    destruct (lookup k m) as [idxs|] eqn:Lm.
    - destruct (lookup k cl) as [o|] eqn:Lc.
      + destruct (so_deleting o) eqn:Dl; [|destruct (so_data o) as [v|] eqn:Dt; [destruct (String.eqb v "") eqn:Ev|]].
        all: try (rewrite Hc; destruct (watched cns s0) as [k0|]; [destruct (String.eqb_spec k k0) as [<-|]; rewrite ?Lc, ?Dl, ?Dt, ?Ev|]; reflexivity).
        rewrite nth_fold_set, Hc.
        destruct (existsb (Nat.eqb j) idxs) eqn:Eb.
        * apply existsb_in in Eb. apply Ex in Eb as [s' [Hs' Hw]]. rewrite H0 in Hs'. inversion Hs'; subst s'.
          rewrite Hw, String.eqb_refl, Lc, Dl, Dt, Ev. reflexivity.
        * destruct (watched cns s0) as [k0|] eqn:W; [|reflexivity].
          destruct (String.eqb_spec k k0) as [<-|]; [|reflexivity].
          exfalso. assert (In j idxs) by (apply Ex; eauto). apply existsb_in in H. congruence.
      + rewrite Hc. destruct (watched cns s0) as [k0|]; [destruct (String.eqb_spec k k0) as [<-|]; rewrite ?Lc|]; reflexivity.
    - rewrite Hc. destruct (watched cns s0) as [k0|] eqn:W; [|reflexivity].
      destruct (String.eqb_spec k k0) as [<-|]; [|reflexivity].
      exfalso. assert (In j []) by (apply Ex; eauto). destruct H.
  Qed.

  Lemma reconcile_length m cl ns name cur : length (reconcile m cl ns name cur) = length cur.
  Proof.
    assert (L : forall n v l, length (set_nth n v l) = length l).
    { intros n v l. revert n. induction l as [|x l IH]; intros [|n]; cbn [set_nth length]; auto. }
    assert (F : forall v idxs l, length (fold_left (fun acc i => set_nth i v acc) idxs l) = length l).
    { intros v idxs. induction idxs as [|i idxs IH]; intros l; cbn [fold_left]; [reflexivity|]. rewrite IH. apply L. }
    unfold reconcile. destruct (lookup _ m); [|reflexivity]. destruct (lookup _ cl) as [o|]; [|reflexivity].
    destruct (so_deleting o); [reflexivity|]. destruct (so_data o) as [v|]; [|reflexivity]. destruct (String.eqb v ""); [reflexivity | apply F].
  Qed.

  Theorem tracks_reference fs m : load_secrets cns fs = Some m ->
    forall es cl cur j s0 sc, nth_error fs j = Some s0 -> nth_error cur j = Some sc ->
      map (fun obs => nth j obs "") (run_events m (cl, cur) es) = ref_filter (watched cns s0) sc cl es.
  Proof.
    intros Hm. induction es as [|e es IH]; intros cl cur j s0 sc H0 Hc; cbn [run_events ref_filter map]; [reflexivity|].
    assert (St : exists cur', apply_event m (cl, cur) e = (cluster_after cl e, cur') /\
                 nth_error cur' j = Some (match watched cns s0 with
                                          | Some k => match delivers (cluster_after cl e) e k with Some v => SrcLiteral v | None => sc end
                                          | None => sc end)).
    { destruct e as [ns name [x|]|ns name]; cbn [apply_event cluster_after]; (eexists; split; [reflexivity|]);
        rewrite (reconcile_nth fs m Hm _ ns name cur j s0 sc H0 Hc); reflexivity. }
    destruct St as [cur' [Ea Hn]]. rewrite Ea. cbn [snd]. f_equal.
    - rewrite (nth_error_nth _ _ _ (map_nth_error effective _ _ Hn)) by reflexivity. reflexivity.
    - apply IH; assumption.
  Qed.
End P.

Lemma ref_filter_unwatched sc cl es : ref_filter None sc cl es = map (fun _ => effective sc) es.
Proof. revert cl. induction es as [|e es IH]; intros cl; cbn [ref_filter map]; [reflexivity|]. now rewrite IH. Qed.

Lemma cross_namespace_refused cns fs ns name :
  In (SrcRef ns name) fs -> name <> "" -> ns <> "" -> ns <> cns -> load_secrets cns fs = None.
Proof.
  intros Hin Hn H1 H2. unfold load_secrets. generalize 0. generalize (@nil (string * list nat)).
  induction fs as [|s fs IH]; intros m i; [destruct Hin|].
  destruct Hin as [->|Hin]; cbn [load_from].
  - apply String.eqb_neq in Hn, H1, H2. rewrite Hn, H1, H2. reflexivity.
  - destruct s as [|x|ns' name']; try (apply IH; exact Hin).
    destruct (String.eqb name' ""); [apply IH; exact Hin|].
    destruct (negb (ns' =? "") && negb (ns' =? cns)); [reflexivity | apply IH; exact Hin].
Qed.
