(* Proofs/P10b.v — C10 / C01 at the level of verdicts: the handler model run ON TOP of the abstract session map with a
   liveness rule (the map that both store models are proved to refine: PStore.mem_refines_spec, PRedis.redis_refines_spec).
   An OK verdict is only ever given for a session the map holds and that is alive under the rule at the clock of the
   check; with the two stores' rules this puts every OK inside the absolute and the idle limit. *)
From AS Require Import Base.Str Http.Cookie Oidc.Types Oidc.Prog Oidc.Handler Oidc.Spec Oidc.Monitors Store.Spec Proofs.P01 Proofs.PStore.

(* the handler run against the abstract session map (with a liveness rule) as its store: every store effect is answered
   by the map at the clock of the check; the other effects (provider, keys, generator) by a list of answers *)
Definition eff_op (e : eff) : option sop :=
  match e with
  | EGetTok s => Some (OGetTok s) | ESetTok s t => Some (OSetTok s t)
  | EGetAuth s => Some (OGetAuth s) | ESetAuth s a => Some (OSetAuth s a)
  | EClearAuth s => Some (OClearAuth s) | ERemove s => Some (ORemove s)
  | _ => None
  end.
Definition ans_of (r : sres) : ans :=
  match r with RUnit => AUnit true | RTok t => ATok (Some t) | RAuth a => AAuth (Some a) end.

Fixpoint run_on {R} (alive : asess -> Z -> bool) (p : prog R) (m : amap) (now : Z) (env : list ans)
  : option (R * list (eff * ans) * amap) :=
  match p with
  | Ret r => Some (r, [], m)
  | Do e k =>
      match eff_op e with
      | Some op =>
          let a := ans_of (snd (astep alive m now op)) in
          match run_on alive (k a) (fst (astep alive m now op)) now env with
          | Some (r, tr, m2) => Some (r, (e, a) :: tr, m2)
          | None => None
          end
      | None =>
          match env with
          | [] => None
          | a :: env' =>
              match run_on alive (k a) m now env' with
              | Some (r, tr, m2) => Some (r, (e, a) :: tr, m2)
              | None => None
              end
          end
      end
  end.

Lemma run_on_run {R} alive (p : prog R) : forall m now env r tr m',
  run_on alive p m now env = Some (r, tr, m') -> run p (map snd tr) = Some (r, tr, []).
Proof.
  induction p as [r0|e k IH]; intros m now env r tr m' H; cbn [run_on] in H.
  - inversion H; subst. reflexivity.
  - destruct (eff_op e) as [op|].
    + destruct (run_on alive (k _) _ now env) as [[[r1 tr1] m1]|] eqn:E; [|discriminate].
      inversion H; subst. cbn [map snd run]. now rewrite (IH _ _ _ _ _ _ _ E).
    + destruct env as [|a env']; [discriminate|].
      destruct (run_on alive (k a) m now env') as [[[r1 tr1] m1]|] eqn:E; [|discriminate].
      inversion H; subst. cbn [map snd run]. now rewrite (IH _ _ _ _ _ _ _ E).
Qed.

Lemma run_on_first {R} alive (p : prog R) m now env r e a tr m' op :
  run_on alive p m now env = Some (r, (e, a) :: tr, m') -> eff_op e = Some op -> a = ans_of (snd (astep alive m now op)).
Proof.
  destruct p as [r0|e0 k]; cbn [run_on]; [discriminate|]. intros H Eo.
  destruct (eff_op e0) as [op0|] eqn:E0.
  - destruct (run_on alive (k _) _ now env) as [[[r1 tr1] m1]|]; [|discriminate]. inversion H; subst. congruence.
  - destruct env as [|a0 env']; [discriminate|]. destruct (run_on alive (k a0) m now env') as [[[r1 tr1] m1]|]; [|discriminate].
    inversion H; subst. congruence.
Qed.

(* the handler on top of the abstract map, under ANY liveness rule: an OK verdict is only ever given for a session that
   the map holds and that is alive under the rule at the clock of the check *)
Theorem ok_only_if_alive alive c db now r m env h tr m' :
  run_on alive (process c db now r) m now env = Some (OAllow h, tr, m') ->
  exists s, m (request_sid c r) = Some s /\ alive s now = true.
Proof.
  intros H. pose proof (run_on_run alive _ _ _ _ _ _ _ H) as Hr. apply ok_justified in Hr.
  unfold ok_shape in Hr. apply andb_prop in Hr as [_ Hs].
  destruct tr as [|[e1 a1] tr1]; [discriminate|]. destruct e1; try discriminate.
  destruct a1 as [| [[t|]|] | | | |]; try discriminate.
  assert (Es : sid = request_sid c r).
  { destruct tr1 as [|x tr2]; [|destruct x as [e2 a2]; destruct e2; try discriminate; destruct a2 as [| | | |[| | |b]|]; try discriminate;
      destruct tr2 as [|[e3 a3] tr3]; [discriminate|]; destruct e3; try discriminate; destruct a3 as [| |[oa|]| | |]; try discriminate;
      destruct tr3 as [|[e4 a4] tr4]; [discriminate|]; destruct e4; try discriminate; destruct a4 as [| | | | |[|]]; try discriminate;
      destruct tr4 as [|[e5 a5] tr5]; [discriminate|]; destruct e5; try discriminate; destruct a5 as [[|]| | | | |]; try discriminate;
      destruct tr5; [|discriminate]].
    all: repeat (apply andb_prop in Hs as [Hs ?]); repeat match goal with X : (_ =? _)%string = true |- _ => apply String.eqb_eq in X end; congruence. }
  pose proof (run_on_first alive _ _ _ _ _ _ _ _ _ (OGetTok sid) H eq_refl) as Ea.
  destruct (snd (astep alive m now (OGetTok sid))) as [|[t'|]|a'] eqn:Er; cbn [ans_of] in Ea; try discriminate.
  destruct (honoured_is_alive alive m now (OGetTok sid)) as [s [Hm Ha]]; [rewrite Er; reflexivity|].
  cbn [sid_of_op] in Hm. exists s. rewrite <- Es. auto.
Qed.

(* with the two stores' rules (PStore: band lemmas): an OK verdict lies inside both limits of the session *)
Corollary ok_within_timeouts_memory abs idle c db now r m env h tr m' :
  run_on (alive_mem abs idle) (process c db now r) m now env = Some (OAllow h, tr, m') ->
  exists s, m (request_sid c r) = Some s /\
    ((0 < abs)%Z -> (now <= s_added s + abs)%Z) /\ ((0 < idle)%Z -> (now <= s_last s + idle)%Z).
Proof.
  intros H. destruct (ok_only_if_alive _ _ _ _ _ _ _ _ _ _ H) as [s [Hm Ha]]. exists s. split; [exact Hm|].
  apply alive_mem_late. exact Ha.
Qed.
Corollary ok_within_timeouts_redis abs idle c db now r m env h tr m' :
  (0 <= abs)%Z -> (0 <= idle)%Z ->
  run_on (alive_redis abs idle) (process c db now r) m now env = Some (OAllow h, tr, m') ->
  exists s, m (request_sid c r) = Some s /\
    ((0 < abs)%Z -> (now < s_added s + abs)%Z) /\ ((0 < idle)%Z -> (now < s_last_data s + idle)%Z).
Proof.
  intros A I H. destruct (ok_only_if_alive _ _ _ _ _ _ _ _ _ _ H) as [s [Hm Ha]]. exists s. split; [exact Hm|].
  apply alive_redis_late; assumption.
Qed.
