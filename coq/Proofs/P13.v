(* Proofs/P13.v — C13: redirect answers. *)
From AS Require Import Base.Str Base.StrFacts Http.PathSplit Http.Cookie Url.Escape Oidc.Types Oidc.Prog Oidc.Handler Oidc.Spec
  Oidc.Monitors Oidc.Store Proofs.ProgFacts Proofs.SymExec Proofs.RunSpecs Proofs.PHandler.

Definition no_cache (hs : list (string * string)) : bool :=
  match lookup "cache-control" hs, lookup "pragma" hs with
  | Some a, Some b => String.eqb a "no-cache" && String.eqb b "no-cache"
  | _, _ => false
  end.

(* every 302 carries the no-cache directives; it is either the login redirect (Location = authorization
   request of the tuple drawn in this check, login state stored = new_auth(request) i.e. with the requested
   URL scheme://host/path[?query] byte for byte), or the logout redirect, or the post-login redirect whose
   Location is - byte for byte - the URL stored with the login state read in this check *)
Definition redirect_shape (c : cfg) (r : request) (tr : list (eff * ans)) (o : outcome) : bool :=
  match o with
  | ODeny d =>
      if Nat.eqb (d_status d) 302 then
        no_cache (d_headers d) &&
        match lookup "location" (d_headers d) with
        | None => false
        | Some loc =>
            match split_gen tr with
            | Some (_, AGen g, [(ESetAuth _ a, AUnit true)]) =>
                String.eqb loc (authorization_url c g) && String.eqb (a_url a) (requested_url r)
            | Some _ => false
            | None =>
                match tr with
                | (EGetAuth _, AAuth (Some (Some a))) :: _ => String.eqb loc (a_url a) && has is_set_tok tr
                | _ => String.eqb loc (match logout c with Some l => lo_redirect l | None => "" end) && matches_logout c r
                end
            end
        end
      else true
  | _ => true
  end.

Theorem redirect_shape_ok c db now r answers o tr rest :
  run (process c db now r) answers = Some (o, tr, rest) -> typed_trace tr = true ->
  redirect_shape c r tr o = true.
Proof.
  intros H T. apply run_process in H. inversion H; subst; inv_specs; try typed_contra;
    unfold redirect_shape, got; vtr_cases; cbn [app]; try reflexivity;
    try (rm_cases (request_sid c r)); try (rm_cases ""); cbn [app]; try congruence;
    unfold login_redirect, logout_redirect, redirect, deny, session_error, allow, back_to, oops, std_headers, no_cache;
    try (match goal with ok : bool |- _ => destruct ok end);
    cbn [split_gen];
    repeat match goal with
           | H : only_reads ?sid ?l = true |- context[split_gen (?l ++ ?m)] => rewrite (split_gen_only_reads sid l m H)
           end;
    cbn -[has]; has_simpl; finish.
Qed.
