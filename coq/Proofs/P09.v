(* Proofs/P09.v — C09, all schedules: once the removal of a logout has taken place, no check with that
   session's cookie that performs an effect afterwards is answered OK - provided no check that had already
   performed an effect before the removal writes under the session id after it (a "stale write"); and the
   full statement without that proviso is refuted by a concrete schedule. *)
From AS Require Import Base.Str Base.StrFacts Http.PathSplit Http.Cookie Url.Escape Oidc.Types Oidc.Prog Oidc.Handler Oidc.Spec
  Oidc.Monitors Oidc.Store Oidc.History Oidc.Conc Proofs.ProgFacts Proofs.SymExec Proofs.RunSpecs Proofs.P01 Proofs.PHandler Proofs.PHist.

Definition data_read (sid : string) (ea : eff * ans) : bool :=
  match ea with
  | (EGetTok s, ATok (Some (Some _))) | (EGetAuth s, AAuth (Some (Some _))) => String.eqb s sid
  | _ => false
  end.

Lemma proj_app i a b : proj i (a ++ b) = (proj i a ++ proj i b)%list.
Proof. unfold proj. rewrite filter_app, map_app. reflexivity. Qed.
Lemma proj_not_in i m : thread_in i m = false -> proj i m = [].
Proof.
  unfold thread_in, proj. induction m as [|x m IH]; cbn [existsb filter map]; [reflexivity|].
  intros H. apply Bool.orb_false_iff in H as [H1 H2]. rewrite H1. apply IH. exact H2.
Qed.
Lemma in_proj i ea m : In ea (proj i m) -> In (i, ea) m.
Proof.
  unfold proj. intros H. apply in_map_iff in H as [[j x] [E Hin]]. cbn in E. subst x.
  apply filter_In in Hin as [Hin Hj]. cbn in Hj. apply Nat.eqb_eq in Hj. subst j. exact Hin.
Qed.
Lemma proj_cons_same i ea m : proj i ((i, ea) :: m) = ea :: proj i m.
Proof. unfold proj. cbn [filter fst]. rewrite Nat.eqb_refl. reflexivity. Qed.
Lemma thread_in_proj i m : thread_in i m = true -> proj i m <> [].
Proof.
  unfold thread_in, proj. induction m as [|x m IH]; cbn [existsb filter map]; [discriminate|].
  destruct (Nat.eqb (fst x) i); cbn [orb map]; [discriminate | exact IH].
Qed.

(* while nothing is stored under sid, no read of sid returns data and only a write under sid changes that *)
Lemma step1_no_data st ea st' sid : st sid = None -> step1 st ea st' -> data_read sid ea = false.
Proof.
  intros Hn H. destruct H; try reflexivity; try (destruct e; reflexivity).
  - cbn. destruct (String.eqb_spec sid0 sid) as [->|]; [|destruct (tok_of st sid0); reflexivity].
    unfold tok_of. rewrite Hn. reflexivity.
  - cbn. destruct (String.eqb_spec sid0 sid) as [->|]; [|destruct (auth_of st sid0); reflexivity].
    unfold auth_of. rewrite Hn. reflexivity.
Qed.
Lemma step1_keeps_none st ea st' sid :
  st sid = None -> step1 st ea st' -> writes_under sid (fst ea) = false -> st' sid = None.
Proof.
  intros Hn H W. destruct H; try exact Hn.
  all: destruct e; try contradiction; cbn [fst writes_under] in W; cbn [apply_eff].
  all: try (destruct (String.eqb_spec sid0 sid) as [->|N]; [try discriminate W; try (apply upd_same) | rewrite upd_other by congruence; exact Hn]).
  all: try (destruct (st sid0) eqn:E0; [|exact Hn]; destruct (String.eqb_spec sid sid0) as [->|N]; [congruence | rewrite upd_other by exact N; exact Hn]).
Qed.

(* from the proved trace shapes: a token write is the fifth effect of its check and the first one is a
   read, with data, of the very session it writes *)
Lemma settok_needs_data_read c db now r tr a b s t x :
  settok_shape c db now r tr = true -> tr = (a ++ (ESetTok s t, x) :: b)%list ->
  exists r1 a', a = r1 :: a' /\ data_read s r1 = true.
Proof.
  unfold settok_shape. intros H E.
  assert (Hh : has is_set_tok tr = true).
  { subst tr. rewrite has_app, has_cons. cbn. apply Bool.orb_true_r. }
  rewrite Hh in H. revert H.
  repeat match goal with
         | |- match ?y with _ => _ end = true -> _ => is_var y; destruct y; try (intros H; discriminate H)
         | |- (match ?y with _ => _ end) _ = true -> _ => is_var y; destruct y; try (intros H; discriminate H)
         end.
  all: intros H; repeat (apply andb_prop in H as [H ?]).
  all: repeat match goal with X : (_ =? _) = true |- _ => apply String.eqb_eq in X end; subst.
  all: destruct a as [|r1 a]; cbn [app] in E; [discriminate E|]; inversion E; subst.
  all: repeat (match goal with X : ?l = (?a0 ++ _ :: _)%list |- _ => destruct a0; cbn [app] in X; inversion X; subst; clear X end).
  all: try (eexists; eexists; split; [reflexivity|]; cbn; apply String.eqb_refl).
  all: try (match goal with X : [] = (_ ++ _ :: _)%list |- _ => destruct (app_cons_not_nil _ _ _ X) end).
Qed.

Section Final.
  Variable c : cfg.
  Variable db : tokdb.

  Theorem logout_final_concurrent ts pre l sid post st0 st1 :
    cexec c db ts (pre ++ (l, (ERemove sid, AUnit true)) :: post) st0 st1 ->
    (forall j, thread_in j (pre ++ (l, (ERemove sid, AUnit true)) :: post) = true -> j < length ts) ->
    (* the generator never hands out sid again *)
    (forall j g, In (j, (EGen, AGen g)) (pre ++ (l, (ERemove sid, AUnit true)) :: post) -> g_sid g <> sid) ->
    (* no stale write *)
    (forall j e a, In (j, (e, a)) post -> writes_under sid e = true -> thread_in j pre = false /\ j <> l) ->
    forall j t, nth_error ts j = Some t -> request_sid c (ct_req t) = sid -> thread_in j post = true ->
    is_allow (ct_out t) = false.
  Proof.
    intros [Hv Hp Hs] Hlen Hfresh Hstale.
    set (m := (pre ++ (l, (ERemove sid, AUnit true)) :: post)%list) in *.
    (* the store right after the removal *)
    unfold m in Hs. rewrite map_app in Hs. apply steps_app in Hs as [sa [Hs1 Hs2]].
    cbn [map snd] in Hs2. inversion Hs2 as [|? ? sb ? ? Hrm Hs3]; subst.
    assert (Nb : sb sid = None).
    { inversion Hrm; subst. cbn [apply_eff]. apply upd_same. }
    (* Q: no data read of sid anywhere after the removal *)
    assert (Q : forall x, In x post -> data_read sid (snd x) = false).
    { assert (G : forall p2 p1 sx, post = (p1 ++ p2)%list -> steps sx (map snd p2) st1 -> sx sid = None ->
                  (forall x, In x p1 -> data_read sid (snd x) = false) ->
                  forall x, In x p2 -> data_read sid (snd x) = false).
      { induction p2 as [|[j [e a]] p2 IH]; intros p1 sx Ep Hst Hn Hp1 x Hin; [destruct Hin|].
        cbn [map snd] in Hst. inversion Hst as [|? ? sy ? ? H1 H2]; subst.
        assert (D : data_read sid (e, a) = false) by (eapply step1_no_data; eassumption).
        destruct Hin as [<-|Hin]; [exact D|].
        apply (IH (p1 ++ [(j, (e, a))])%list sy); try assumption.
        - rewrite <- app_assoc. reflexivity.
        - (* the store keeps nothing under sid *)
          destruct (writes_under sid e) eqn:W; [|eapply step1_keeps_none; eassumption].
          exfalso.
          assert (Hin_post : In (j, (e, a)) (p1 ++ (j, (e, a)) :: p2)) by (apply in_or_app; right; left; reflexivity).
          destruct (Hstale j e a Hin_post W) as [Hpre Hjl].
          assert (Hj : j < length ts).
          { apply Hlen. unfold m, thread_in. rewrite existsb_app. cbn [existsb]. rewrite existsb_app. cbn [existsb fst].
            rewrite Nat.eqb_refl. rewrite !Bool.orb_true_r. reflexivity. }
          destruct (nth_error ts j) as [tj|] eqn:Ej; [|apply nth_error_None in Ej; lia].
          pose proof (Hp j tj Ej) as Pj. unfold m in Pj.
          rewrite proj_app, (proj_not_in j pre Hpre) in Pj. cbn [app] in Pj.
          assert (Prm : proj j ((l, (ERemove sid, AUnit true)) :: p1 ++ (j, (e, a)) :: p2) = proj j (p1 ++ (j, (e, a)) :: p2)).
          { unfold proj. cbn [filter fst]. destruct (Nat.eqb_spec l j); [congruence | reflexivity]. }
          rewrite Prm, proj_app, proj_cons_same in Pj.
          destruct (Hv j tj Ej) as [answers [rest [Hrun Htyped]]].
          destruct e; cbn [writes_under] in W; try discriminate W; apply String.eqb_eq in W; subst.
          + (* token write: its check read data under sid earlier, after the removal *)
            pose proof (settok_ok c db _ _ _ _ _ _ Hrun Htyped) as Hsh.
            destruct (settok_needs_data_read _ _ _ _ _ _ _ _ _ _ Hsh (eq_sym Pj)) as [r1 [a' [Ea Hd]]].
            assert (In r1 (proj j p1)) by (rewrite Ea; left; reflexivity).
            apply in_proj in H. specialize (Hp1 _ H). cbn [snd] in Hp1. congruence.
          + (* login-state write: under an id drawn in the same check, which is never sid *)
            pose proof (renewal_ok c db _ _ _ _ _ _ Hrun Htyped) as Hsh.
            assert (Hin_tr : In (ESetAuth sid a0, a) (ct_tr tj)) by (rewrite <- Pj; apply in_or_app; right; left; reflexivity).
            pose proof (set_auth_is_drawn _ _ _ _ _ _ _ Hsh Hin_tr) as Hd.
            unfold drawn_in in Hd. apply in_flat_map in Hd as [[e' a'] [Hin' Hg]].
            assert (X : exists g, (e', a') = (EGen, AGen g) /\ g_sid g = sid).
            { destruct e'; try contradiction. destruct a'; try contradiction. destruct Hg as [Hg|[]]. eauto. }
            destruct X as [g [Eg Hg']]. inversion Eg; subst e' a'.
            rewrite <- (Hp j tj Ej) in Hin'. apply in_proj in Hin'. apply (Hfresh j g Hin'). exact Hg'.
        - intros y Hy. apply in_app_or in Hy as [Hy|[<-|[]]]; [apply Hp1; exact Hy | exact D]. }
      apply (G post [] sb); try assumption; [reflexivity | intros x []]. }
    (* the theorem *)
    intros j t Ej Hsid Hpost.
    destruct (ct_out t) as [h| | |] eqn:Eo; try reflexivity. exfalso.
    destruct (Hv j t Ej) as [answers [rest [Hrun Htyped]]]. rewrite Eo in Hrun.
    pose proof (ok_justified _ _ _ _ _ _ _ _ Hrun) as Hok.
    pose proof (Hp j t Ej) as Pj. unfold m in Pj. rewrite proj_app in Pj.
    change ((l, (ERemove sid, AUnit true)) :: post) with ([(l, (ERemove sid, AUnit true))] ++ post)%list in Pj.
    rewrite proj_app in Pj.
    unfold ok_shape in Hok. rewrite Hsid in Hok. apply andb_prop in Hok as [_ Hok].
    pose proof (thread_in_proj j post Hpost) as Hne.
    destruct (ct_tr t) as [|[e1 a1] tr] eqn:Et; [discriminate|].
    destruct e1; try discriminate. destruct a1 as [|[[t0|]|]| | | |]; try discriminate.
    destruct tr as [|[e2 a2] tr].
    - (* fresh-tokens shape: the single read is after the removal and returned data *)
      apply andb_prop in Hok as [Hok _]. apply andb_prop in Hok as [Hok _]. apply String.eqb_eq in Hok. subst sid0.
      assert (Hl : proj j post = [(EGetTok sid, ATok (Some (Some t0)))]).
      { destruct (proj j pre) as [|x xs]; destruct (proj j [(l, (ERemove sid, AUnit true))]) as [|y ys]; cbn [app] in Pj.
        - exact Pj.
        - inversion Pj as [[E1 E2]]. destruct ys; destruct (proj j post); try discriminate; congruence.
        - inversion Pj as [[E1 E2]]. destruct xs; destruct (proj j post); try discriminate; congruence.
        - inversion Pj as [[E1 E2]]. destruct xs; try discriminate. }
      assert (Hin : In (EGetTok sid, ATok (Some (Some t0))) (proj j post)) by (rewrite Hl; left; reflexivity).
      apply in_proj in Hin. specialize (Q _ Hin). cbn in Q. rewrite String.eqb_refl in Q. discriminate.
    - (* refresh shape: its last effect, a token write under sid, is after the removal: the check is then entirely after it *)
      destruct e2; try discriminate. destruct a2 as [| | | |[| | |b]|]; try discriminate.
      destruct tr as [|[e3 a3] tr]; [discriminate|]. destruct e3; try discriminate. destruct a3 as [| |[oa|]| | |]; try discriminate.
      destruct tr as [|[e4 a4] tr]; [discriminate|]. destruct e4; try discriminate. destruct a4 as [| | | | |[|]]; try discriminate.
      destruct tr as [|[e5 a5] tr]; [discriminate|]. destruct e5; try discriminate. destruct a5 as [[|]| | | | |]; try discriminate.
      destruct tr; [|discriminate].
      repeat (apply andb_prop in Hok as [Hok ?]).
      repeat match goal with X : (_ =? _) = true |- _ => apply String.eqb_eq in X end; subst.
      (* the write is the last element of proj j post *)
      assert (Hw : In (j, (ESetTok (request_sid c (ct_req t)) t1, AUnit true)) post).
      { apply in_proj.
        destruct (exists_last Hne) as [ini [lst Hlst]]. rewrite Hlst in Pj |- *.
        assert (lst = (ESetTok (request_sid c (ct_req t)) t1, AUnit true)).
        { rewrite !app_assoc in Pj. 
          apply (f_equal (@rev _)) in Pj. rewrite rev_app_distr in Pj. cbn [rev app] in Pj. inversion Pj. reflexivity. }
        subst lst. apply in_or_app. right. left. reflexivity. }
      destruct (Hstale _ _ _ Hw) as [Hpre Hjl]; [cbn; apply String.eqb_refl|].
      rewrite (proj_not_in j pre Hpre) in Pj. cbn [app] in Pj.
      assert (Prm : proj j [(l, (ERemove (request_sid c (ct_req t)), AUnit true))] = []).
      { unfold proj. cbn [filter fst]. destruct (Nat.eqb_spec l j); [congruence | reflexivity]. }
      rewrite Prm in Pj. cbn [app] in Pj.
      assert (Hin : In (EGetTok (request_sid c (ct_req t)), ATok (Some (Some t0))) (proj j post)) by (rewrite Pj; left; reflexivity).
      apply in_proj in Hin. specialize (Q _ Hin). cbn in Q. rewrite String.eqb_refl in Q. discriminate.
  Qed.
End Final.

(* ---- the full statement (without the stale-write proviso) is false of the model: a refresh in flight ---- *)
From AS Require Import Proofs.Examples.

Definition rf_store : store := upd empty_store "S1" (Some {| ss_auth := None; ss_tok := Some ex_old |}).
Definition rf_merged_tokens : tokens := merged_tokens ex_db 3000 ex_old ex_body.
Definition rf_check : cthread :=
  {| ct_now := 3000; ct_req := ex_req "/app" (ex_cookie "S1"); ct_out := allow ex_c rf_merged_tokens;
     ct_tr := [(EGetTok "S1", ATok (Some (Some ex_old))); (EIdp (refresh_request ex_c "RT1"), AIdp (IdpBody ex_body));
               (EGetAuth "S1", AAuth (Some None)); (EJwks, AJwks true); (ESetTok "S1" rf_merged_tokens, AUnit true)] |}.
Definition rf_logout : cthread :=
  {| ct_now := 3000; ct_req := ex_req "/logout" (ex_cookie "S1"); ct_out := logout_redirect ex_c;
     ct_tr := [(ERemove "S1", AUnit true)] |}.
(* the check reads the tokens and calls the provider; the logout removes the session and is answered; the check
   then reads the login state, verifies and WRITES the refreshed tokens, re-creating the session, and is answered OK *)
Definition rf_pre : list (nat * (eff * ans)) :=
  [(0, (EGetTok "S1", ATok (Some (Some ex_old)))); (0, (EIdp (refresh_request ex_c "RT1"), AIdp (IdpBody ex_body)))].
Definition rf_post : list (nat * (eff * ans)) :=
  [(0, (EGetAuth "S1", AAuth (Some None))); (0, (EJwks, AJwks true)); (0, (ESetTok "S1" rf_merged_tokens, AUnit true))].

Theorem logout_final_concurrent_refuted :
  exists st1,
    cexec ex_c ex_db [rf_check; rf_logout] (rf_pre ++ (1, (ERemove "S1", AUnit true)) :: rf_post) rf_store st1 /\
    ct_out rf_logout = logout_redirect ex_c /\                       (* the logout was answered as successful *)
    request_sid ex_c (ct_req rf_check) = "S1" /\ thread_in 0 rf_post = true /\
    is_allow (ct_out rf_check) = true /\                             (* ... and the in-flight check is answered OK after it *)
    tok_of st1 "S1" = Some rf_merged_tokens.                         (* ... and the session exists again *)
Proof.
  eexists. split; [|repeat split; try reflexivity].
  - constructor.
    + intros i t Hi. destruct i as [|[|i]]; cbn in Hi; inversion Hi; subst.
      * exists [ATok (Some (Some ex_old)); AIdp (IdpBody ex_body); AAuth (Some None); AJwks true; AUnit true], [].
        split; vm_compute; reflexivity.
      * exists [AUnit true], []. split; vm_compute; reflexivity.
      * destruct i; discriminate.
    + intros i t Hi. destruct i as [|[|i]]; cbn in Hi; inversion Hi; subst; try reflexivity. destruct i; discriminate.
    + cbn [map snd app rf_pre rf_post].
      eapply steps_cons; [exact (S_get_tok rf_store "S1")|].
      eapply steps_cons; [apply S_idp|].
      eapply steps_cons; [apply S_write_ok; exact I|].
      eapply steps_cons; [exact (S_get_auth (apply_eff rf_store (ERemove "S1")) "S1")|].
      eapply steps_cons; [apply S_jwks|].
      eapply steps_cons; [apply S_write_ok; exact I|].
      apply steps_nil.
  - vm_compute. reflexivity.
Qed.
