(* Proofs/P07.v — trigger rules decide on the path component alone. *)
From AS Require Import Base.Str Base.StrFacts Http.PathSplit Server.Trigger.

(* ---- GetPathQueryFragment ---- *)
Lemma path_no_q full : has_char c_q (path_of full) = false.
Proof. unfold path_of, path_query_fragment; simpl. apply before_no_char. Qed.

Lemma path_no_hash full : has_char c_hash (path_of full) = false.
Proof.
  unfold path_of, path_query_fragment; simpl.
  apply has_char_before_other. apply before_no_char.
Qed.

(* the three parts recompose to the target: path ["?" query] ["#" fragment] *)
Definition recompose (full : string) : string :=
  let h := before c_hash full in
  path_of full
  ++ (match after c_q h with Some q => String c_q q | None => "" end)
  ++ (match after c_hash full with Some f => String c_hash f | None => "" end).

Lemma path_split_recompose full : recompose full = full.
Proof.
  unfold recompose, path_of, path_query_fragment; simpl.
  rewrite <- append_assoc. rewrite <- (before_after c_q (before c_hash full)).
  symmetry. apply before_after.
Qed.

Lemma query_no_hash full : has_char c_hash (query_of full) = false.
Proof.
  unfold query_of, path_query_fragment; simpl.
  pose proof (before_no_char c_hash full) as H.
  rewrite (before_after c_q (before c_hash full)) in H.
  rewrite has_char_app in H. apply orb_false_iff in H. destruct H as [_ H].
  destruct (after c_q (before c_hash full)) as [q|]; simpl in *; [|reflexivity].
  exact H.
Qed.

Lemma path_of_clean p : has_char c_q p = false -> has_char c_hash p = false -> path_of p = p.
Proof.
  intros Hq Hh. unfold path_of, path_query_fragment; simpl.
  rewrite (before_absent c_hash p Hh). now apply before_absent.
Qed.

Lemma path_of_query p q :
  has_char c_q p = false -> has_char c_hash p = false -> path_of (p ++ String c_q q) = p.
Proof.
  intros Hq Hh. unfold path_of, path_query_fragment; simpl.
  (* before '#' of (p ++ "?" ++ q) starts with p ++ "?" whatever q holds *)
  assert (H: forall s, before c_q (before c_hash (p ++ String c_q s)) = p).
  { intros s. induction p as [|a p IH]; simpl.
    - reflexivity.
    - simpl in Hq, Hh. destruct (Ascii.eqb a c_hash) eqn:E1; [discriminate|].
      destruct (Ascii.eqb a c_q) eqn:E2; [discriminate|]. simpl. rewrite E2.
      now rewrite IH. }
  apply H.
Qed.

Lemma path_of_fragment p f :
  has_char c_q p = false -> has_char c_hash p = false -> path_of (p ++ String c_hash f) = p.
Proof.
  intros Hq Hh. unfold path_of, path_query_fragment; simpl.
  rewrite (before_app_char c_hash p f Hh). now apply before_absent.
Qed.

Section WithRegex.
  Variable rx : string -> string -> bool.

  Lemma any_match_spec ms p :
    any_match rx ms p = true <-> exists m, In m ms /\ string_match rx m p = true.
  Proof.
    induction ms as [|m ms IH]; simpl.
    - split; [discriminate|intros [m [[] _]]].
    - destruct (string_match rx m p) eqn:E.
      + split; [intros _; exists m; auto|reflexivity].
      + rewrite IH. split.
        * intros [m' [Hin Hm]]. exists m'. auto.
        * intros [m' [[Heq|Hin] Hm]]; [subst; congruence|exists m'; auto].
  Qed.

  Lemma any_match_false ms p :
    any_match rx ms p = false <-> forall m, In m ms -> string_match rx m p = false.
  Proof.
    split.
    - intros H m Hin. destruct (string_match rx m p) eqn:E; [|reflexivity].
      assert (any_match rx ms p = true) by (apply any_match_spec; exists m; auto). congruence.
    - intros H. destruct (any_match rx ms p) eqn:E; [|reflexivity].
      apply any_match_spec in E. destruct E as [m [Hin Hm]]. rewrite (H m Hin) in Hm. discriminate.
  Qed.

  Lemma match_rule_spec r p : match_rule rx r p = true <-> rule_fires rx r p.
  Proof.
    unfold match_rule, rule_fires.
    destruct (any_match rx (excluded r) p) eqn:E.
    - split; [discriminate|]. intros [H _]. apply (proj2 (any_match_false _ _)) in H. congruence.
    - pose proof (proj1 (any_match_false _ _) E) as E'. clear E. rename E' into E. destruct (included r) as [|i inc] eqn:Ei.
      + split; [intros _; split; [exact E|left; reflexivity]|reflexivity].
      + rewrite any_match_spec. split.
        * intros H. split; [exact E|right; exact H].
        * intros [_ [H|H]]; [discriminate|exact H].
  Qed.

  Lemma any_rule_spec rs p :
    any_rule rx rs p = true <-> exists r, In r rs /\ rule_fires rx r p.
  Proof.
    induction rs as [|r rs IH]; simpl.
    - split; [discriminate|intros [r [[] _]]].
    - destruct (match_rule rx r p) eqn:E.
      + apply match_rule_spec in E. split; [intros _; exists r; auto|reflexivity].
      + rewrite IH. split.
        * intros [r' [Hin Hf]]. exists r'; auto.
        * intros [r' [[Heq|Hin] Hf]]; [|exists r'; auto].
          subst r'. apply match_rule_spec in Hf. congruence.
  Qed.

  Theorem must_trigger_spec rules target :
    must_trigger rx rules target = true <-> trigger_spec rx rules (path_of target).
  Proof.
    unfold must_trigger, trigger_spec.
    destruct rules as [|r rs].
    - split; [intros _; left; reflexivity|reflexivity].
    - destruct (String.eqb (path_of target) "") eqn:E.
      + apply String.eqb_eq in E. split; [intros _; right; left; exact E|reflexivity].
      + rewrite any_rule_spec. split.
        * intros H. right; right. exact H.
        * intros [H|[H|H]]; [discriminate| |exact H].
          rewrite H in E. discriminate.
  Qed.

  (* the decision is a function of the path component only *)
  Theorem must_trigger_path_only rules t1 t2 :
    path_of t1 = path_of t2 -> must_trigger rx rules t1 = must_trigger rx rules t2.
  Proof. intros H. unfold must_trigger. now rewrite H. Qed.

  Theorem query_fragment_irrelevant rules p q f :
    has_char c_q p = false -> has_char c_hash p = false ->
    must_trigger rx rules (p ++ String c_q q) = must_trigger rx rules p /\
    must_trigger rx rules (p ++ String c_hash f) = must_trigger rx rules p /\
    must_trigger rx rules (p ++ String c_q (q ++ String c_hash f)) = must_trigger rx rules p.
  Proof.
    intros Hq Hh. repeat split; apply must_trigger_path_only;
      rewrite (path_of_clean p Hq Hh);
      [apply path_of_query|apply path_of_fragment|apply path_of_query]; assumption.
  Qed.
End WithRegex.
