(* Proofs/P03.v — C03: login completes in one pass.  The three checks of a login (first visit, callback,
   return to the original URL) executed against the abstract session map, whose answers to reads are
   COMPUTED from the map, with a provider answer that is compliant in the sense of the hypotheses. *)
From AS Require Import Base.Str Base.StrFacts Http.PathSplit Http.Cookie Url.Escape Oidc.Types Oidc.Prog Oidc.Handler Oidc.Spec
  Oidc.Monitors Oidc.Store Oidc.History Proofs.ProgFacts Proofs.SymExec Proofs.RunSpecs Proofs.PHandler Proofs.PHist.

Section Login.
  Variable c : cfg.
  Variable db : tokdb.

  (* the three requests of the browser *)
  Variables r0 r1 r2 : request.
  Variables now0 now1 now2 : Z.
  Variable g : gen_out.          (* what the generator hands out at the first visit *)
  Variable b : idp_body.         (* what the provider answers to the code exchange *)

  Let sid := g_sid g.
  Let t := login_tokens_of now1 b.

  (* first visit: an ordinary request without session cookie *)
  Hypothesis H0_http : r_has_http r0 = true.
  Hypothesis H0_nologout : matches_logout c r0 = false.
  Hypothesis H0_nocookie : request_sid c r0 = "".
  (* callback: the provider sent the browser back with the state it was given; the browser presents the cookie it was set *)
  Hypothesis H1_http : r_has_http r1 = true.
  Hypothesis H1_nologout : matches_logout c r1 = false.
  Hypothesis H1_cookie : request_sid c r1 = sid.
  Hypothesis Hsid : sid <> "".
  Hypothesis H1_callback : matches_callback c r1 = true.
  Hypothesis H1_query : cb_query_ok r1 = true.
  Hypothesis H1_state : cb_state r1 = g_state g.
  (* the provider is compliant: Bearer (any capitalisation), non-negative or absent expires_in, an access token
     when forwarding is configured, and an ID token for this client, signed by a configured key, carrying the nonce *)
  Hypothesis Hb_valid : valid_new_tokens c b = true.
  Hypothesis Hb_idtoken : validated c db (b_id b) (g_nonce g) true = true.
  (* afterwards: any request that is neither callback nor logout, inside the lifetime of the tokens *)
  Hypothesis H2_http : r_has_http r2 = true.
  Hypothesis H2_nologout : matches_logout c r2 = false.
  Hypothesis H2_cookie : request_sid c r2 = sid.
  Hypothesis H2_nocallback : matches_callback c r2 = false.
  Hypothesis H2_live : tokens_expired c db now2 t = Some false.

  Definition tr1 : list (eff * ans) := [(EGen, AGen g); (ESetAuth sid (new_auth r0 g), AUnit true)].
  Definition tr2 : list (eff * ans) :=
    [(EGetAuth sid, AAuth (Some (Some (new_auth r0 g)))); (EIdp (code_request c (cb_code r1) (g_verifier g)), AIdp (IdpBody b));
     (EJwks, AJwks true); (EClearAuth sid, AUnit true); (ESetTok sid t, AUnit true)].
  Definition tr3 : list (eff * ans) := [(EGetTok sid, ATok (Some (Some t)))].

  Theorem login_completes (st : store) :
    let st1 := apply_eff st (ESetAuth sid (new_auth r0 g)) in
    let st2 := apply_eff (apply_eff st1 (EClearAuth sid)) (ESetTok sid t) in
    (* 1: redirect to the provider, new session cookie *)
    run (process c db now0 r0) [AGen g; AUnit true] = Some (login_redirect c g, tr1, []) /\ steps st tr1 st1 /\
    (* 2: the callback, answered from the map: exactly one exchange, with this session's verifier; back to the first URL *)
    run (process c db now1 r1) [AAuth (Some (auth_of st1 sid)); AIdp (IdpBody b); AJwks true; AUnit true; AUnit true]
      = Some (back_to (requested_url r0), tr2, []) /\ steps st1 tr2 st2 /\
    (* 3: the original URL (or any other), answered from the map: OK with the provider's tokens, no provider call *)
    run (process c db now2 r2) [ATok (Some (tok_of st2 sid))] = Some (allow c t, tr3, []) /\ steps st2 tr3 st2 /\
    has is_idp tr3 = false.
  Proof.
    cbv zeta.
    assert (A1 : auth_of (apply_eff st (ESetAuth sid (new_auth r0 g))) sid = Some (new_auth r0 g)).
    { cbn [apply_eff]. rewrite auth_of_upd, String.eqb_refl. reflexivity. }
    assert (T2 : tok_of (apply_eff (apply_eff (apply_eff st (ESetAuth sid (new_auth r0 g))) (EClearAuth sid)) (ESetTok sid t)) sid = Some t).
    { rewrite tok_of_apply, String.eqb_refl. reflexivity. }
    assert (S0 : String.eqb sid "" = false) by (apply String.eqb_neq; exact Hsid).
    repeat split.
    - unfold process. fold (request_sid c r0). rewrite H0_http, H0_nologout, H0_nocookie. cbn [negb String.eqb].
      unfold redirect_to_idp, do_unit, perform. cbn [String.eqb bind run]. reflexivity.
    - unfold tr1. econstructor; [apply S_gen|]. econstructor; [apply S_write_ok; exact I|]. constructor.
    - rewrite A1. unfold process. fold (request_sid c r1). rewrite H1_http, H1_nologout, H1_cookie, S0, H1_callback. cbn [negb].
      unfold retrieve_tokens.
      pose proof H1_query as Q. unfold cb_query_ok in Q.
      apply andb_prop in Q as [Q Q4]. apply andb_prop in Q as [Q Q3]. apply andb_prop in Q as [Q1 Q2].
      unfold cb_state, cb_code, cb_params in *.
      destruct (parse_query (query_of (r_path r1))) as [params perr] eqn:EP. cbn [fst snd] in *.
      apply Bool.negb_true_iff in Q1, Q3, Q4. rewrite Q1. destruct params as [|kv params']; [discriminate|].
      rewrite Q3, Q4. cbn [orb].
      unfold do_get_auth, do_unit, perform. cbn [bind run]. cbn [a_state new_auth].
      rewrite H1_state, String.eqb_refl. cbn [negb bind run a_verifier a_nonce new_auth].
      rewrite Hb_valid. cbn [negb].
      rewrite is_valid_unfold.
      pose proof Hb_idtoken as V. unfold validated in V.
      apply andb_prop in V as [V V4]. apply andb_prop in V as [V V3]. apply andb_prop in V as [V1 V2].
      rewrite V1, V2, V3. cbn [negb]. unfold jw, perform. cbn [bind run]. rewrite V4. cbn [bind run a_url new_auth app].
      unfold tr2, back_to, cb_code, cb_params. rewrite EP. reflexivity.
    - unfold tr2.
      pose proof (S_get_auth (apply_eff st (ESetAuth sid (new_auth r0 g))) sid) as X. rewrite A1 in X.
      econstructor; [exact X|].
      econstructor; [apply S_idp|]. econstructor; [apply S_jwks|].
      econstructor; [apply S_write_ok; exact I|]. econstructor; [apply S_write_ok; exact I|]. constructor.
    - rewrite T2. unfold process. fold (request_sid c r2). rewrite H2_http, H2_nologout, H2_cookie, S0, H2_nocallback. cbn [negb].
      unfold do_get_tok, perform. cbn [bind run]. rewrite H2_live. reflexivity.
    - unfold tr3.
      pose proof (S_get_tok (apply_eff (apply_eff (apply_eff st (ESetAuth sid (new_auth r0 g))) (EClearAuth sid)) (ESetTok sid t)) sid) as X.
      rewrite T2 in X. econstructor; [exact X|]. constructor.
  Qed.
End Login.

(* what "inside the lifetime of the tokens" means *)
Lemma live_spec c db now t :
  tokens_expired c db now t = Some false <->
  d_parses (db (t_id t)) = true /\ (now <= d_exp (db (t_id t)))%Z /\
  (access_token c = None \/ t_access t = "" \/ t_expiry t = 0%Z \/ (now <= t_expiry t)%Z).
Proof.
  unfold tokens_expired. destruct (d_parses (db (t_id t))); cbn [negb].
  2:{ split; [discriminate | intros [H _]; discriminate]. }
  destruct (Z.ltb_spec (d_exp (db (t_id t))) now) as [L|L].
  { split; [discriminate | intros [_ [H _]]; lia]. }
  destruct (access_token c) as [at_|].
  2:{ split; [intros _; repeat split; auto; lia | reflexivity]. }
  destruct (String.eqb_spec (t_access t) "") as [E|E]; cbn [negb andb].
  { split; [intros _; repeat split; auto; lia | reflexivity]. }
  destruct (Z.eqb_spec (t_expiry t) 0) as [Z0|Z0]; cbn [negb andb].
  { split; [intros _; repeat split; auto; lia | reflexivity]. }
  destruct (Z.ltb_spec (t_expiry t) now) as [L2|L2].
  - split; [discriminate|]. intros [_ [_ [H|[H|[H|H]]]]]; try discriminate; try contradiction; lia.
  - split; [intros _; repeat split; auto; lia | reflexivity].
Qed.
