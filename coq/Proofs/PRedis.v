(* Proofs/PRedis.v — C12 / C10: the Redis store (its command sequences over the model of the server, Store/Redis.v)
   refines the abstract session map under the Redis liveness rule, for every operation sequence with non-decreasing
   positive clock readings and the values the handler stores (an ID token that parses, login states with all four
   members).  (Before fix 33d4a84 there was one exception, clearing the login state of a session that is not alive
   reported an error; the theorem then carried that exception explicitly.)  The relation ties a key's hash to the abstract session and its EXPIREAT second to the floor of the
   abstract deadline; keys that Redis has already dropped correspond to abstract sessions that are dead from now on. *)
From AS Require Import Base.Str Base.StrFacts Oidc.Types Store.Spec Store.Memory Store.Redis.
From Coq Require Import ZifyBool.
Ltac Zify.zify_post_hook ::= Z.div_mod_to_equations.

Section RedisRefines.
  Variables abs idle : Z.
  Variable parses : string -> bool.

  (* values the handler stores: an ID token that is non-empty and parses, login states with all four members *)
  Definition wf_op (o : sop) : Prop :=
    match o with
    | OSetTok _ t => t_id t <> "" /\ parses (t_id t) = true
    | OSetAuth _ a => a_state a <> "" /\ a_nonce a <> "" /\ a_url a <> "" /\ a_verifier a <> ""
    | _ => True
    end.

  Definition ne (s : string) : option string := if String.eqb s "" then None else Some s.
  Definition hrel (h : rhash) (s : asess) : Prop :=
    h_added h = Some (s_added s) /\ s_added s <> 0%Z /\
    match s_tok s with
    | Some t => h_id h = Some (t_id t) /\ h_access h = ne (t_access t) /\ h_refresh h = ne (t_refresh t) /\
                h_access_exp h = (if (t_expiry t =? 0)%Z then None else Some (t_expiry t)) /\
                t_id t <> "" /\ parses (t_id t) = true
    | None => h_id h = None
    end /\
    match s_auth s with
    | Some a => h_state h = Some (a_state a) /\ h_nonce h = Some (a_nonce a) /\ h_url h = Some (a_url a) /\ h_verifier h = Some (a_verifier a) /\
                a_state a <> "" /\ a_nonce a <> "" /\ a_url a <> "" /\ a_verifier a <> ""
    | None => h_state h = None /\ h_nonce h = None /\ h_url h = None
    end.

  Definition erel (t0 : Z) (ok : option rkey) (os : option asess) : Prop :=
    match ok, os with
    | Some k, Some s => hrel (k_hash k) s /\ k_expire_s k = option_map (fun d => (d / second)%Z) (redis_deadline abs idle s)
    | None, None => True
    | None, Some s => forall now', (t0 <= now')%Z -> alive_redis abs idle s now' = false
    | Some k, None => exists e, k_expire_s k = Some e /\ (e * second <= t0)%Z
    end.
  Definition rrel (t0 : Z) (db : rdb) (a : amap) : Prop := forall sid, erel t0 (lookup sid db) (a sid).

  Lemma erel_mono t0 t1 ok os : (t0 <= t1)%Z -> erel t0 ok os -> erel t1 ok os.
  Proof.
    intros L. destruct ok as [k|], os as [s|]; cbn; auto.
    - intros [e [E1 E2]]. exists e. split; [exact E1|lia].
    - intros H now' Hn. apply H. lia.
  Qed.

  (* the live key and the live view agree *)
  Lemma live_view t0 db a sid now :
    rrel t0 db a -> (t0 <= now)%Z ->
    match rlive db sid now, view (alive_redis abs idle) a sid now with
    | Some k, Some s => lookup sid db = Some k /\ a sid = Some s /\ hrel (k_hash k) s /\
                        k_expire_s k = option_map (fun d => (d / second)%Z) (redis_deadline abs idle s)
    | None, None => match lookup sid db with None => True | Some k => exists e, k_expire_s k = Some e /\ (e * second <= now)%Z end
    | _, _ => False
    end.
  Proof.
    intros R L. specialize (R sid). unfold rlive, view, erel in *.
    destruct (lookup sid db) as [k|], (a sid) as [s|]; auto.
    - destruct R as [H E]. unfold alive_redis. rewrite E. destruct (redis_deadline abs idle s) as [d|] eqn:D; cbn [option_map].
      + destruct (Z.leb_spec (d / second * second) now), (Z.ltb_spec now (d / second * second)); try lia; auto.
        * eexists; split; [reflexivity|assumption].
        * split; [reflexivity|split; [reflexivity|split; [exact H|rewrite D; exact E]]].
      + split; [reflexivity|split; [reflexivity|split; [exact H|rewrite D; exact E]]].
    - destruct R as [e [E1 E2]]. rewrite E1. destruct (Z.leb_spec (e * second) now); [|lia]. exists e. split; [reflexivity|lia].
    - rewrite (R now L). exact I.
  Qed.

  (* refreshExpiration on a live key whose hash carries the creation time *)
  Lemma refresh_ok db1 sid now tparam h x s' :
    lookup sid db1 = Some {| k_hash := h; k_expire_s := x |} ->
    match x with Some e => (now < e * second)%Z | None => True end ->
    ((abs =? 0)%Z && (idle =? 0)%Z = true -> x = None) ->
    hrel h s' -> s_last_data s' = now -> (tparam = 0%Z \/ tparam = s_added s') ->
    exists db2, refresh_expiration abs idle db1 sid now tparam = (db2, true) /\
                erel now (lookup sid db2) (Some s') /\ forall k, k <> sid -> lookup k db2 = lookup k db1.
  Proof.
    intros L X Z0 H LD TP. pose proof H as [HA [NZ _]].
    assert (RL : rlive db1 sid now = Some {| k_hash := h; k_expire_s := x |}).
    { unfold rlive. rewrite L. cbn [k_expire_s]. destruct x as [e|]; [|reflexivity]. destruct (Z.leb_spec (e * second) now); [lia|reflexivity]. }
    unfold refresh_expiration, rhget. rewrite RL. cbn [k_hash]. rewrite HA.
    assert (TA : (if (tparam =? 0)%Z then s_added s' else tparam) = s_added s').
    { destruct TP as [->| ->]; [reflexivity|]. destruct (Z.eqb_spec (s_added s') 0); [contradiction|reflexivity]. }
    rewrite TA. destruct (Z.eqb_spec (s_added s') 0) as [|_]; [contradiction|].
    destruct ((abs =? 0)%Z && (idle =? 0)%Z) eqn:Z00.
    - exists db1. split; [reflexivity|]. split; [|reflexivity]. rewrite L. cbn [erel k_hash k_expire_s].
      split; [exact H|]. rewrite (Z0 eq_refl). unfold redis_deadline. now rewrite Z00.
    - set (ea := if (abs =? 0)%Z then (now + idle)%Z else if (idle =? 0)%Z then (s_added s' + abs)%Z else Z.min (s_added s' + abs) (now + idle)).
      assert (D : redis_deadline abs idle s' = Some ea).
      { unfold redis_deadline, ea. rewrite Z00, LD. destruct (abs =? 0)%Z; [reflexivity|]. destruct (idle =? 0)%Z; reflexivity. }
      unfold rexpireat. rewrite RL. cbn [k_hash].
      destruct (Z.leb_spec (ea / second * second) now) as [Le|Gt].
      + eexists. split; [reflexivity|]. split.
        * rewrite lookup_remove_same. cbn [erel]. intros now' Hn. unfold alive_redis. rewrite D.
          destruct (Z.ltb_spec now' (ea / second * second)); [lia|reflexivity].
        * intros k N. apply lookup_remove_other. apply String.eqb_neq. exact N.
      + eexists. split; [reflexivity|]. split.
        * rewrite lookup_set_same. cbn [erel k_hash k_expire_s]. split; [exact H|]. now rewrite D.
        * intros k N. apply lookup_set_other. apply String.eqb_neq. exact N.
  Qed.

  Lemma his_empty_state h : h_state h <> None -> his_empty h = false.
  Proof. destruct h as [x1 x2 x3 x4 x5 x6 x7 x8 x9]; destruct x1, x2, x3, x4, x5; cbn; congruence. Qed.
  Lemma his_empty_added h : h_added h <> None -> his_empty h = false.
  Proof. destruct h as [x1 x2 x3 x4 x5 x6 x7 x8 x9]; destruct x1, x2, x3, x4, x5, x6, x7, x8, x9; cbn; congruence. Qed.

  Lemma ne_round x : opt_nonempty (ne x) = x.
  Proof. unfold ne. destruct (String.eqb_spec x ""); subst; reflexivity. Qed.

  (* after [rput] of a non-empty hash the key is live, with the expiry it had (none for a new key) *)
  Lemma rput_live db sid now h :
    his_empty h = false ->
    let x := match rlive db sid now with Some k => k_expire_s k | None => None end in
    lookup sid (rput db sid now h) = Some {| k_hash := h; k_expire_s := x |} /\
    (forall k, k <> sid -> lookup k (rput db sid now h) = lookup k db) /\
    match x with Some e => (now < e * second)%Z | None => True end.
  Proof.
    intros NE. unfold rput. rewrite NE. split; [apply lookup_set_same|]. split.
    - intros k N. apply lookup_set_other. apply String.eqb_neq. exact N.
    - unfold rlive. destruct (lookup sid db) as [k|]; [|exact I]. destruct (k_expire_s k) as [e|] eqn:E; [|rewrite E; exact I].
      destruct (Z.leb_spec (e * second) now); [exact I|]. rewrite E. lia.
  Qed.

  Lemma rrel_update t0 db a now db' sid os :
    rrel t0 db a -> (t0 <= now)%Z -> (forall k, k <> sid -> lookup k db' = lookup k db) ->
    erel now (lookup sid db') os -> rrel now db' (aupd a sid os).
  Proof.
    intros R L O E k. unfold aupd. destruct (String.eqb_spec k sid) as [->|N]; [exact E|].
    rewrite (O k N). apply (erel_mono t0 now); [exact L|apply R].
  Qed.

  Lemma no_timeouts_no_expiry s : (abs =? 0)%Z && (idle =? 0)%Z = true -> redis_deadline abs idle s = None.
  Proof. intros H. unfold redis_deadline. now rewrite H. Qed.

  Lemma rlive_some db sid now k :
    rlive db sid now = Some k -> lookup sid db = Some k /\ match k_expire_s k with Some e => (now < e * second)%Z | None => True end.
  Proof.
    unfold rlive. destruct (lookup sid db) as [k'|]; [|discriminate]. destruct (k_expire_s k') as [e|] eqn:E.
    - destruct (Z.leb_spec (e * second) now) as [Le|Gt]; [discriminate|]. intros Hk; inversion Hk; subst. rewrite E. split; [reflexivity|lia].
    - intros Hk; inversion Hk; subst. rewrite E. split; [reflexivity|exact I].
  Qed.

  (* a read that finds data: refreshExpiration(time_added of the hash) on the live key *)
  Lemma read_ok t0 db a sid now k s s1 :
    rrel t0 db a -> (t0 <= now)%Z -> rlive db sid now = Some k ->
    hrel (k_hash k) s -> k_expire_s k = option_map (fun d => (d / second)%Z) (redis_deadline abs idle s) ->
    hrel (k_hash k) s1 -> s_last_data s1 = now -> s_added s1 = s_added s ->
    exists db2, refresh_expiration abs idle db sid now (s_added s) = (db2, true) /\ rrel now db2 (aupd a sid (Some s1)).
  Proof.
    intros R L RL H E H1 LD SA. destruct (rlive_some _ _ _ _ RL) as [Lk X]. destruct k as [h x]. cbn [k_hash k_expire_s] in *.
    assert (Z0 : (abs =? 0)%Z && (idle =? 0)%Z = true -> x = None).
    { intros Z00. rewrite E, (no_timeouts_no_expiry s Z00). reflexivity. }
    destruct (refresh_ok db sid now (s_added s) h x s1 Lk X Z0 H1 LD (or_intror (eq_sym SA))) as [db2 [E2 [Er O]]].
    exists db2. split; [exact E2|]. apply (rrel_update t0 db a now db2 sid); auto.
  Qed.

  (* a write of a non-empty hash followed by refreshExpiration(zero time) *)
  Lemma write_ok t0 db a sid now h1 s1 :
    rrel t0 db a -> (t0 <= now)%Z -> his_empty h1 = false -> hrel h1 s1 -> s_last_data s1 = now ->
    exists db2, refresh_expiration abs idle (rput db sid now h1) sid now 0 = (db2, true) /\ rrel now db2 (aupd a sid (Some s1)).
  Proof.
    intros R L NE H LD. pose proof (live_view t0 db a sid now R L) as LV.
    destruct (rput_live db sid now h1 NE) as [L1 [L2 L3]].
    set (x := match rlive db sid now with Some k => k_expire_s k | None => None end) in *.
    assert (Z0 : (abs =? 0)%Z && (idle =? 0)%Z = true -> x = None).
    { intros Z00. unfold x. destruct (rlive db sid now) as [k|]; [|reflexivity].
      destruct (view (alive_redis abs idle) a sid now) as [s|]; [|contradiction].
      destruct LV as [_ [_ [_ E]]]. rewrite E, (no_timeouts_no_expiry s Z00). reflexivity. }
    destruct (refresh_ok _ sid now 0%Z h1 x s1 L1 L3 Z0 H LD (or_introl eq_refl)) as [db2 [E [Er O]]].
    exists db2. split; [exact E|]. apply (rrel_update t0 db a now db2 sid); auto.
    intros k N. rewrite (O k N). apply L2. exact N.
  Qed.

  Lemma rstep_refines t0 db a now o :
    rrel t0 db a -> (t0 <= now)%Z -> (0 < now)%Z -> wf_op o ->
    rrel now (fst (rstep abs idle parses db now o)) (fst (astep (alive_redis abs idle) a now o)) /\
    snd (rstep abs idle parses db now o) = ROk (snd (astep (alive_redis abs idle) a now o)).
  Proof.
    intros R L P W. pose proof (fun sid => live_view t0 db a sid now R L) as LV.
    destruct o as [sid t|sid|sid au|sid|sid|sid]; cbn [rstep astep]; specialize (LV sid).
    - (* SetTok *)
      cbn [wf_op] in W. destruct W as [W1 W2].
      match goal with |- context [rput db sid now ?h] => set (h1 := h) end.
      match goal with |- context [aupd a sid (Some ?s)] => set (s1 := s) end.
      assert (H : hrel h1 s1).
      { unfold hrel, h1, s1, rhget. cbn [h_added h_id h_access h_refresh h_access_exp h_state h_nonce h_url h_verifier s_added s_tok s_auth].
        destruct (rlive db sid now) as [k|], (view (alive_redis abs idle) a sid now) as [s|]; try contradiction.
        - destruct LV as [_ [_ [[HA [NZ [_ HU]]] _]]]. rewrite HA. repeat split; auto.
        - cbn [hempty fresh h_added s_added s_auth h_state h_nonce h_url]. repeat split; auto. lia. }
      destruct (write_ok t0 db a sid now h1 s1 R L eq_refl H eq_refl) as [db2 [E RR]].
      rewrite E. cbn [fst snd]. split; [exact RR|reflexivity].
    - (* GetTok *)
      unfold rhget. destruct (rlive db sid now) as [k|] eqn:RL, (view (alive_redis abs idle) a sid now) as [s|] eqn:V; try contradiction.
      + destruct LV as [Lk [As [H E]]]. pose proof H as [HA [NZ [HT HU]]]. rewrite HA.
        destruct (s_tok s) as [t|] eqn:ST.
        * destruct HT as [I1 [I2 [I3 [I4 [I5 I6]]]]]. rewrite I1.
          destruct (String.eqb_spec (t_id t) ""); [contradiction|]. rewrite I6. cbn [orb negb].
          match goal with |- context [aupd a sid (Some ?x)] => set (s1 := x) end.
          assert (H1 : hrel (k_hash k) s1).
          { unfold hrel, s1. cbn [s_added s_tok s_auth]. rewrite ?ST. repeat split; auto. }
          destruct (read_ok t0 db a sid now k s s1 R L RL H E H1 eq_refl eq_refl) as [db2 [E2 RR]].
          rewrite E2. cbn [fst snd]. split; [exact RR|]. f_equal. f_equal. f_equal.
          rewrite I2, I3, I4, !ne_round. destruct t as [ti ta tr te]; cbn. f_equal.
          destruct (Z.eqb_spec te 0); subst; reflexivity.
        * rewrite HT. cbn [fst snd]. split; [|reflexivity].
          apply (rrel_update t0 db a now db sid); auto. rewrite Lk. cbn [erel]. split.
          -- unfold hrel. cbn [s_added s_tok s_auth]. rewrite ?ST. repeat split; auto.
          -- rewrite E. unfold redis_deadline. reflexivity.
      + cbn [hempty h_id fst snd]. split; [|reflexivity].
        apply (rrel_update t0 db a now db sid); auto; destruct (lookup sid db); cbn [erel]; auto.
    - (* SetAuth *)
      cbn [wf_op] in W. destruct W as [W1 [W2 [W3 W4]]].
      match goal with |- context [rput db sid now ?h] => set (h1 := h) end.
      match goal with |- context [aupd a sid (Some ?s)] => set (s1 := s) end.
      assert (H : hrel h1 s1).
      { unfold hrel, h1, s1, rhget. cbn [h_added h_id h_access h_refresh h_access_exp h_state h_nonce h_url h_verifier s_added s_tok s_auth].
        destruct (rlive db sid now) as [k|], (view (alive_redis abs idle) a sid now) as [s|]; try contradiction.
        - destruct LV as [_ [_ [[HA [NZ [HT _]]] _]]]. rewrite HA. repeat split; auto.
        - cbn [hempty fresh h_added s_added s_tok h_id]. repeat split; auto. lia. }
      assert (NE : his_empty h1 = false) by (apply his_empty_state; unfold h1; cbn [h_state]; discriminate).
      destruct (write_ok t0 db a sid now h1 s1 R L NE H eq_refl) as [db2 [E RR]].
      rewrite E. cbn [fst snd]. split; [exact RR|reflexivity].
    - (* GetAuth *)
      unfold rhget. destruct (rlive db sid now) as [k|] eqn:RL, (view (alive_redis abs idle) a sid now) as [s|] eqn:V; try contradiction.
      + destruct LV as [Lk [As [H E]]]. pose proof H as [HA [NZ [HT HU]]]. rewrite HA.
        destruct (s_auth s) as [au|] eqn:SA.
        * destruct HU as [I1 [I2 [I3 [I4 [N1 [N2 [N3 N4]]]]]]]. rewrite I1, I2, I3, I4. cbn [opt_nonempty].
          destruct (String.eqb_spec (a_state au) ""); [contradiction|]. destruct (String.eqb_spec (a_nonce au) ""); [contradiction|].
          destruct (String.eqb_spec (a_url au) ""); [contradiction|]. destruct (String.eqb_spec (a_verifier au) ""); [contradiction|]. cbn [orb].
          match goal with |- context [aupd a sid (Some ?x)] => set (s1 := x) end.
          assert (H1 : hrel (k_hash k) s1).
          { unfold hrel, s1. cbn [s_added s_tok s_auth]. rewrite ?SA. repeat split; auto. }
          destruct (read_ok t0 db a sid now k s s1 R L RL H E H1 eq_refl eq_refl) as [db2 [E2 RR]].
          rewrite E2. cbn [fst snd]. split; [exact RR|]. destruct au; reflexivity.
        * destruct HU as [I1 [I2 I3]]. rewrite I1. cbn [opt_nonempty String.eqb orb fst snd]. split; [|reflexivity].
          apply (rrel_update t0 db a now db sid); auto. rewrite Lk. cbn [erel]. split.
          -- unfold hrel. cbn [s_added s_tok s_auth]. rewrite ?SA. repeat split; auto.
          -- rewrite E. unfold redis_deadline. reflexivity.
      + cbn [hempty h_state opt_nonempty String.eqb orb fst snd]. split; [|reflexivity].
        apply (rrel_update t0 db a now db sid); auto; destruct (lookup sid db); cbn [erel]; auto.
    - (* ClearAuth *)
      destruct (rlive db sid now) as [k|] eqn:RL, (view (alive_redis abs idle) a sid now) as [s|] eqn:V; try contradiction.
      + match goal with |- context [rput db sid now ?h] => set (h1 := h) end.
        match goal with |- context [aupd a sid (Some ?x)] => set (s1 := x) end.
        destruct LV as [Lk [As [H E]]]. pose proof H as [HA [NZ [HT HU]]].
        assert (HG : rhget db sid now = k_hash k) by (unfold rhget; now rewrite RL).
        assert (H1 : hrel h1 s1).
        { unfold hrel, h1, s1. rewrite HG. cbn [h_added h_id h_access h_refresh h_access_exp h_state h_nonce h_url h_verifier s_added s_tok s_auth].
          repeat split; auto. }
        assert (NE : his_empty h1 = false) by (apply his_empty_added; unfold h1; cbn [h_added]; rewrite HG, HA; discriminate).
        destruct (write_ok t0 db a sid now h1 s1 R L NE H1 eq_refl) as [db2 [E2 RR]].
        rewrite E2. cbn [fst snd]. split; [exact RR|reflexivity].
      + cbn [fst snd]. split; [|reflexivity].
        apply (rrel_update t0 db a now db sid); auto; destruct (lookup sid db); cbn [erel]; auto.
    - (* Remove *)
      cbn [fst snd]. split; [|reflexivity].
      apply (rrel_update t0 db a now (rdel db sid) sid); auto.
      + intros k N. apply lookup_remove_other. apply String.eqb_neq. exact N.
      + unfold rdel. rewrite lookup_remove_same. exact I.
  Qed.

  (* non-decreasing, positive clock readings *)
  Fixpoint clock_ok (t0 : Z) (h : list (Z * sop)) : Prop :=
    match h with [] => True | (now, o) :: h' => (t0 <= now)%Z /\ (0 < now)%Z /\ wf_op o /\ clock_ok now h' end.
  Theorem redis_refines_spec h : forall t0 db a, rrel t0 db a -> clock_ok t0 h ->
    snd (rrun abs idle parses db h) = map ROk (snd (arun (alive_redis abs idle) a h)).
  Proof.
    induction h as [|[now o] h IH]; intros t0 db a R C; [reflexivity|].
    cbn [clock_ok] in C. destruct C as [L [P [W C]]].
    cbn [rrun arun]. destruct (rstep_refines t0 db a now o R L P W) as [R1 A1].
    destruct (rstep abs idle parses db now o) as [db1 r1]. destruct (astep (alive_redis abs idle) a now o) as [a1 q1].
    cbn [fst snd] in *. specialize (IH now db1 a1 R1 C).
    destruct (rrun abs idle parses db1 h) as [db2 rs]. destruct (arun (alive_redis abs idle) a1 h) as [a2 qs].
    cbn [snd map] in *. now rewrite A1, IH.
  Qed.

  Lemma rrel_empty t0 : rrel t0 [] aempty.
  Proof. intros sid. exact I. Qed.

  (* from the empty store: every answer of the Redis store is the abstract map's under the Redis liveness rule *)
  Corollary redis_refines_spec_from_empty h t0 : clock_ok t0 h ->
    snd (rrun abs idle parses [] h) = map ROk (snd (arun (alive_redis abs idle) aempty h)).
  Proof. apply redis_refines_spec, rrel_empty. Qed.
End RedisRefines.
