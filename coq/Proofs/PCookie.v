(* Proofs/PCookie.v — the session cookie read back: by an independent RFC 6265 reading of the Set-Cookie
   value (Http/SetCookie.v) and by the service's own Cookie-header decoder. *)
From AS Require Import Base.Str Base.StrFacts Http.Cookie Http.SetCookie.
From Coq Require Import ZifyBool ZifyNat.

(* bytes that may appear in a cookie name part / id without changing how either parser splits:
   printable ASCII except ';' and '=' and space *)
Definition safe_char (a : ascii) : bool :=
  let n := nat_of_ascii a in ((33 <=? n) && (n <=? 126) && negb (Nat.eqb n 59) && negb (Nat.eqb n 61))%nat.
Fixpoint cookie_safe (s : string) : bool :=
  match s with EmptyString => true | String a s' => safe_char a && cookie_safe s' end.

Lemma safe_char_facts a : safe_char a = true ->
  Ascii.eqb a ";"%char = false /\ Ascii.eqb a "="%char = false /\ is_space a = false /\ (nat_of_ascii a < 128)%nat.
Proof.
  unfold safe_char, is_space. intros H.
  repeat (apply andb_prop in H as [H ?]).
  apply Nat.leb_le in H. apply Nat.leb_le in H2.
  apply Bool.negb_true_iff in H0, H1. apply Nat.eqb_neq in H0, H1.
  repeat split.
  - apply Ascii.eqb_neq. intros ->. apply H1. reflexivity.
  - apply Ascii.eqb_neq. intros ->. apply H0. reflexivity.
  - apply Bool.orb_false_iff. split.
    + apply Bool.andb_false_iff. right. apply Nat.leb_gt. lia.
    + apply Nat.eqb_neq. lia.
  - lia.
Qed.

(* no white-space byte and no byte that could start or continue a multi-byte space *)
Definition no_space (s : string) : Prop := forall a, In a (list_of_str s) -> is_space a = false /\ (nat_of_ascii a < 128)%nat.

Lemma safe_no_char s : cookie_safe s = true ->
  has_char ";"%char s = false /\ has_char "="%char s = false /\ no_space s.
Proof.
  induction s as [|a s IH]; cbn [cookie_safe has_char]; intros H.
  - split; [reflexivity|]. split; [reflexivity|]. intros x [].
  - apply andb_prop in H as [Ha Hs]. destruct (safe_char_facts a Ha) as [H1 [H2 [H3 H4]]].
    destruct (IH Hs) as [I1 [I2 I3]]. rewrite H1, H2. split; [assumption|]. split; [assumption|].
    intros b [<-|Hb]; [split; assumption | apply I3; exact Hb].
Qed.

(* trimming a string without space bytes at either end *)
Lemma string_rev_acc_spec s acc : list_of_str (string_rev_acc s acc) = (rev (list_of_str s) ++ list_of_str acc)%list.
Proof.
  revert acc. induction s as [|a s IH]; intros acc; cbn [string_rev_acc list_of_str rev]; [reflexivity|].
  rewrite IH. cbn [list_of_str]. rewrite <- app_assoc. reflexivity.
Qed.
Lemma list_of_str_inj s t : list_of_str s = list_of_str t -> s = t.
Proof.
  revert t. induction s as [|a s IH]; intros [|b t] H; cbn [list_of_str] in H; try discriminate; [reflexivity|].
  inversion H; subst. f_equal. apply IH. assumption.
Qed.
Lemma string_rev_list s : list_of_str (string_rev s) = rev (list_of_str s).
Proof. unfold string_rev. rewrite string_rev_acc_spec. cbn [list_of_str]. apply app_nil_r. Qed.
Lemma string_rev_involutive s : string_rev (string_rev s) = s.
Proof. apply list_of_str_inj. rewrite !string_rev_list. apply rev_involutive. Qed.

Lemma space2_low a b : (nat_of_ascii a < 128)%nat -> space2 a b = false.
Proof. unfold space2. intros H. lia. Qed.
Lemma space2_low_r a b : (nat_of_ascii b < 128)%nat -> space2 a b = false.
Proof. unfold space2. intros H. lia. Qed.
Lemma space3_low a b c : (nat_of_ascii a < 128)%nat -> space3 a b c = false.
Proof. unfold space3. intros H. lia. Qed.
Lemma space3_low_r a b c : (nat_of_ascii c < 128)%nat -> space3 a b c = false.
Proof. unfold space3. intros H. lia. Qed.

Lemma trim_left_no_space s : no_space s -> trim_left s = s.
Proof.
  destruct s as [|a s]; [reflexivity|]. intros H. destruct (H a (or_introl eq_refl)) as [H1 H2].
  cbn [trim_left]. rewrite H1. destruct s as [|b s]; [reflexivity|]. rewrite (space2_low a b H2).
  destruct s as [|c s]; [reflexivity|]. rewrite (space3_low a b c H2). reflexivity.
Qed.
Lemma trim_left_rev_no_space s : no_space s -> trim_left_rev s = s.
Proof.
  destruct s as [|a s]; [reflexivity|]. intros H. destruct (H a (or_introl eq_refl)) as [H1 H2].
  cbn [trim_left_rev]. rewrite H1. destruct s as [|b s]; [reflexivity|]. rewrite (space2_low_r b a H2).
  destruct s as [|c s]; [reflexivity|]. rewrite (space3_low_r c b a H2). reflexivity.
Qed.
Lemma no_space_rev s : no_space s -> no_space (string_rev s).
Proof. intros H a Ha. rewrite string_rev_list in Ha. apply in_rev in Ha. apply H. exact Ha. Qed.
Lemma trim_space_no_space s : no_space s -> trim_space s = s.
Proof.
  intros H. unfold trim_space. rewrite (trim_left_no_space s H).
  rewrite (trim_left_rev_no_space _ (no_space_rev s H)). apply string_rev_involutive.
Qed.

Lemma list_of_str_app s t : list_of_str (s ++ t) = (list_of_str s ++ list_of_str t)%list.
Proof. induction s as [|a s IH]; cbn [append list_of_str app]; [reflexivity | now rewrite IH]. Qed.
Lemma no_space_app s t : no_space s -> no_space t -> no_space (s ++ t).
Proof. intros Hs Ht a Ha. rewrite list_of_str_app in Ha. apply in_app_or in Ha as [Ha|Ha]; auto. Qed.

Lemma cookie_safe_app s t : cookie_safe (s ++ t) = cookie_safe s && cookie_safe t.
Proof. induction s as [|a s IH]; cbn [append cookie_safe]; [reflexivity | now rewrite IH, Bool.andb_assoc]. Qed.

(* the cookie name is safe when the prefix is, is never empty and starts with __Host- *)
Lemma cookie_name_safe prefix : cookie_safe prefix = true -> cookie_safe (cookie_name prefix) = true.
Proof.
  intros H. unfold cookie_name. destruct (String.eqb prefix ""); [reflexivity|].
  change ("__Host-" ++ prefix ++ cookie_suffix) with ("__Host-" ++ (prefix ++ cookie_suffix)).
  rewrite cookie_safe_app, cookie_safe_app, H. reflexivity.
Qed.
Lemma cookie_name_host prefix : prefixb "__Host-" (cookie_name prefix) = true.
Proof. unfold cookie_name. destruct (String.eqb prefix ""); reflexivity. Qed.
Lemma cookie_name_nonempty prefix : String.eqb (cookie_name prefix) "" = false.
Proof. unfold cookie_name. destruct (String.eqb prefix ""); reflexivity. Qed.

Lemma parse_emitted prefix value attrs :
  cookie_safe prefix = true -> cookie_safe value = true ->
  parse_set_cookie (cookie_name prefix ++ "=" ++ value ++ String ";"%char attrs) =
  Some {| pc_name := cookie_name prefix; pc_value := value; pc_attrs := map parse_attr (split_on ";"%char attrs) |}.
Proof.
  intros Hp Hv.
  pose proof (cookie_name_safe prefix Hp) as Hn.
  destruct (safe_no_char _ Hn) as [N1 [N2 N3]]. destruct (safe_no_char _ Hv) as [V1 [V2 V3]].
  unfold parse_set_cookie, split_first.
  assert (E : cookie_name prefix ++ "=" ++ value ++ String ";"%char attrs =
              (cookie_name prefix ++ "=" ++ value) ++ String ";"%char attrs).
  { rewrite !append_assoc. reflexivity. }
  rewrite E.
  assert (NS : has_char ";"%char (cookie_name prefix ++ "=" ++ value) = false).
  { rewrite !has_char_app, N1, V1. reflexivity. }
  rewrite (before_app_char _ _ _ NS), (after_app_char _ _ _ NS).
  change (cookie_name prefix ++ "=" ++ value) with (cookie_name prefix ++ String "="%char value).
  rewrite (after_app_char _ _ _ N2), (before_app_char _ _ _ N2).
  rewrite (trim_space_no_space _ N3), (trim_space_no_space _ V3), cookie_name_nonempty. reflexivity.
Qed.

Theorem cookie_attrs prefix sid :
  cookie_safe prefix = true -> cookie_safe sid = true ->
  (exists p, parse_set_cookie (set_cookie_header prefix sid SessionCookie) = Some p /\
             pc_name p = cookie_name prefix /\ pc_value p = sid /\
             host_locked_and_protected p = true /\ expires_now p = false) /\
  (exists p, parse_set_cookie (set_cookie_header prefix "deleted" MaxAge0) = Some p /\
             pc_name p = cookie_name prefix /\ host_locked_and_protected p = true /\ expires_now p = true).
Proof.
  intros Hp Hs. split.
  - eexists. split.
    + unfold set_cookie_header, encode_cookie. cbn [cookie_directives app encode_directives].
      change ("; " ++ "HttpOnly" ++ "; " ++ "Secure" ++ "; " ++ "SameSite=Lax" ++ "; " ++ "Path=/" ++ "")
        with (String ";"%char " HttpOnly; Secure; SameSite=Lax; Path=/").
      apply parse_emitted; assumption.
    + cbn [pc_name pc_value]. repeat split.
      unfold host_locked_and_protected. cbn [pc_name]. rewrite cookie_name_host. reflexivity.
  - eexists. split.
    + unfold set_cookie_header, encode_cookie. cbn [cookie_directives app encode_directives].
      change ("; " ++ "HttpOnly" ++ "; " ++ "Secure" ++ "; " ++ "SameSite=Lax" ++ "; " ++ "Path=/" ++ "; " ++ "Max-Age=0" ++ "")
        with (String ";"%char " HttpOnly; Secure; SameSite=Lax; Path=/; Max-Age=0").
      apply parse_emitted; [assumption | reflexivity].
    + cbn [pc_name]. repeat split.
      unfold host_locked_and_protected. cbn [pc_name]. rewrite cookie_name_host. reflexivity.
Qed.

(* ---- the service's own decoder on the cookie it set ---- *)
Lemma split_on_absent c s : has_char c s = false -> split_on c s = [s].
Proof.
  induction s as [|a s IH]; cbn [has_char split_on]; [reflexivity|].
  destruct (Ascii.eqb a c); [discriminate|]. intros H. rewrite (IH H). reflexivity.
Qed.
Lemma split_on_app_char c s t : has_char c s = false -> split_on c (s ++ String c t) = s :: split_on c t.
Proof.
  induction s as [|a s IH]; cbn [has_char append split_on]; intros H.
  - rewrite ascii_eqb_refl. reflexivity.
  - destruct (Ascii.eqb a c); [discriminate|]. rewrite (IH H). reflexivity.
Qed.

Theorem cookie_roundtrip prefix sid :
  cookie_safe prefix = true -> cookie_safe sid = true -> sid <> "" ->
  session_id_from_cookie prefix (cookie_name prefix ++ "=" ++ sid) = sid.
Proof.
  intros Hp Hs Hne.
  pose proof (cookie_name_safe prefix Hp) as Hn.
  destruct (safe_no_char _ Hn) as [N1 [N2 N3]]. destruct (safe_no_char _ Hs) as [V1 [V2 V3]].
  unfold session_id_from_cookie.
  assert (NE : String.eqb (cookie_name prefix ++ "=" ++ sid) "" = false).
  { unfold cookie_name. destruct (String.eqb prefix ""); reflexivity. }
  rewrite NE. unfold decode_cookies.
  assert (S1 : has_char ";"%char (cookie_name prefix ++ "=" ++ sid) = false)
    by (rewrite !has_char_app, N1, V1; reflexivity).
  rewrite (split_on_absent _ _ S1). cbn [decode_pieces]. unfold cookie_piece.
  assert (NS : no_space (cookie_name prefix ++ "=" ++ sid)).
  { apply no_space_app; [exact N3|]. apply no_space_app; [|exact V3]. intros a [<-|[]]. split; [reflexivity | cbn; lia]. }
  rewrite (trim_space_no_space _ NS).
  change (cookie_name prefix ++ "=" ++ sid) with (cookie_name prefix ++ String "="%char sid).
  rewrite (split_on_app_char _ _ _ N2), (split_on_absent _ _ V2).
  rewrite lookup_set_same. reflexivity.
Qed.
