(* Proofs/P08.v — the chain loop equals the reference evaluator. *)
From AS Require Import Base.Str Base.StrFacts Server.Chain.

Section WithFilters.
  Variable run_filter : nat -> fres.

  Lemma run_filters_ref fs seen :
    run_filters run_filter fs seen =
    match first_refusal run_filter fs with
    | None => (VAllowChain, (seen ++ fs)%list)
    | Some f => (match run_filter f with FError => VErrorBy f | _ => VDeniedBy f end,
                 (seen ++ allowed_prefix run_filter fs ++ [f])%list)
    end.
  Proof.
    revert seen; induction fs as [|f fs IH]; intros seen; simpl.
    - now rewrite app_nil_r.
    - unfold first_refusal; simpl. destruct (run_filter f) eqn:E; simpl.
      + rewrite IH. unfold first_refusal.
        destruct (find _ fs); rewrite <- app_assoc; reflexivity.
      + rewrite E. reflexivity.
      + rewrite E. reflexivity.
  Qed.

  Theorem check_eq_ref triggered cs au h :
    check run_filter triggered cs au h = ref_eval run_filter triggered cs au h.
  Proof.
    unfold check, ref_eval. destruct triggered; simpl; [|reflexivity].
    unfold first_matching. induction cs as [|c cs IH]; cbn [run_chains find]; [reflexivity|].
    destruct (matches (c_match c) h); [|exact IH].
    destruct (c_filters c) as [|f fs] eqn:Ef; [reflexivity|].
    rewrite (run_filters_ref (f :: fs) []). reflexivity.
  Qed.

  (* corollaries in the property's words *)

  (* chains before the first matching one have no influence *)
  Corollary first_match_wins pre c post au h :
    (forall c', In c' pre -> matches (c_match c') h = false) ->
    matches (c_match c) h = true ->
    check run_filter true (pre ++ c :: post) au h = check run_filter true [c] au h.
  Proof.
    intros Hpre Hc. unfold check. induction pre as [|p pre IH]; simpl.
    - now rewrite Hc.
    - rewrite (Hpre p (or_introl eq_refl)). apply IH. intros c' Hin. apply Hpre. now right.
  Qed.

  (* allowed only if every filter of the judging chain allows *)
  Corollary allowed_only_if_all_allow c au h post :
    matches (c_match c) h = true -> c_filters c <> [] ->
    fst (check run_filter true (c :: post) au h) = VAllowChain ->
    forall f, In f (c_filters c) -> run_filter f = FOk.
  Proof.
    intros Hm Hne. rewrite check_eq_ref. unfold ref_eval, first_matching. cbn [negb find]. rewrite Hm.
    destruct (c_filters c) as [|f0 fs] eqn:Ef; [congruence|].
    destruct (first_refusal run_filter (f0 :: fs)) as [f|] eqn:Er.
    - cbn [fst]. destruct (run_filter f); intros HH; discriminate HH.
    - intros _ f Hin. unfold first_refusal in Er.
      pose proof (find_none _ _ Er f Hin) as H. simpl in H.
      destruct (run_filter f); [reflexivity|discriminate|discriminate].
  Qed.

  (* evaluation stops at the first denial: nothing after it is evaluated *)
  Lemma run_filters_stop pre f rest seen :
    (forall g, In g pre -> run_filter g = FOk) -> run_filter f <> FOk ->
    snd (run_filters run_filter (pre ++ f :: rest) seen) = (seen ++ pre ++ [f])%list.
  Proof.
    intros Hpre Hne. revert seen. induction pre as [|g pre IH]; intros seen; simpl.
    - destruct (run_filter f); [congruence|reflexivity|reflexivity].
    - rewrite (Hpre g (or_introl eq_refl)). rewrite IH.
      + now rewrite <- app_assoc.
      + intros g' Hin. apply Hpre. now right.
  Qed.

  Corollary stops_at_first_refusal c au h post f pre rest :
    matches (c_match c) h = true ->
    c_filters c = (pre ++ f :: rest)%list ->
    (forall g, In g pre -> run_filter g = FOk) -> run_filter f <> FOk ->
    snd (check run_filter true (c :: post) au h) = (pre ++ [f])%list.
  Proof.
    intros Hm Hf Hpre Hne. unfold check. cbn [run_chains]. rewrite Hm, Hf.
    destruct (pre ++ f :: rest)%list eqn:E.
    - destruct pre; discriminate.
    - rewrite <- E. apply (run_filters_stop pre f rest [] Hpre Hne).
  Qed.

  (* no chain matches: denied unless explicitly allowed *)
  Corollary unmatched_default cs au h :
    (forall c, In c cs -> matches (c_match c) h = false) ->
    check run_filter true cs au h = (if au then VAllowBare else VNoChain, []).
  Proof.
    intros H. unfold check. induction cs as [|c cs IH]; simpl; [reflexivity|].
    rewrite (H c (or_introl eq_refl)). apply IH. intros c' Hin. apply H. now right.
  Qed.
End WithFilters.

(* header criterion: a chain without criterion matches everything; equality / prefix of the
   named header, whose name is looked up lower-cased (Envoy sends lower-case names) *)
Lemma matches_none h : matches None h = true.
Proof. reflexivity. Qed.
Lemma matches_eq hd v h : v <> "" ->
  matches (Some {| m_header := hd; m_crit := CritEq v |}) h = String.eqb (hget h (to_lower hd)) v.
Proof. intros Hv. unfold matches; simpl. destruct (String.eqb v "") eqn:E; [|reflexivity].
  apply String.eqb_eq in E. contradiction. Qed.
Lemma matches_prefix hd v h :
  matches (Some {| m_header := hd; m_crit := CritPrefix v |}) h = prefixb v (hget h (to_lower hd)).
Proof. reflexivity. Qed.
