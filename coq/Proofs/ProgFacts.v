(* Proofs/ProgFacts.v — laws of program trees. *)
From AS Require Import Base.Str Oidc.Types Oidc.Prog.

Lemma run_bind {A B} (p : prog A) (f : A -> prog B) answers :
  run (bind p f) answers =
  match run p answers with
  | Some (a, tr1, rest) =>
      match run (f a) rest with
      | Some (b, tr2, rest') => Some (b, (tr1 ++ tr2)%list, rest')
      | None => None
      end
  | None => None
  end.
Proof.
  revert answers. induction p as [a|e k IH]; intros answers; simpl.
  - destruct (run (f a) answers) as [[[b tr2] rest']|]; reflexivity.
  - destruct answers as [|x rest]; [reflexivity|].
    rewrite IH. destruct (run (k x) rest) as [[[a tr1] rest1]|]; [|reflexivity].
    destruct (run (f a) rest1) as [[[b tr2] rest']|]; reflexivity.
Qed.

Lemma run_ret {A} (a : A) answers : run (Ret a) answers = Some (a, [], answers).
Proof. reflexivity. Qed.

Lemma run_perform e answers :
  run (perform e) answers = match answers with [] => None | a :: rest => Some (a, [(e, a)], rest) end.
Proof. destruct answers; reflexivity. Qed.

(* replay of a model-generated trace succeeds with the model's own result: the lock-step check is
   complete for the model itself *)
Lemma eff_eqb_refl e : eff_eqb e e = true.
Proof.
  destruct e; simpl; try reflexivity; try apply String.eqb_refl.
  - rewrite String.eqb_refl. unfold tokens_eqb. rewrite !String.eqb_refl, Z.eqb_refl. reflexivity.
  - rewrite String.eqb_refl. unfold auth_eqb. rewrite !String.eqb_refl. reflexivity.
  - unfold treq_eqb. rewrite !String.eqb_refl. reflexivity.
Qed.

Lemma replay_run {R} (p : prog R) answers r tr rest i :
  run p answers = Some (r, tr, rest) -> replay p tr i = RDone r.
Proof.
  revert answers r tr rest i. induction p as [a|e k IH]; intros answers r tr rest i; simpl.
  - intros H; inversion H; subst. reflexivity.
  - destruct answers as [|x answers']; [discriminate|].
    destruct (run (k x) answers') as [[[r' tr'] rest']|] eqn:E; [|discriminate].
    intros H; inversion H; subst. simpl. rewrite eff_eqb_refl. eapply IH; eassumption.
Qed.
