(* Proofs/PSecrets.v — C14: what an OK adds upstream. *)
From AS Require Import Base.Str Base.StrFacts Http.PathSplit Http.Cookie Url.Escape Oidc.Types Oidc.Prog Oidc.Handler Oidc.Spec
  Oidc.Monitors Oidc.Store Proofs.ProgFacts Proofs.SymExec Proofs.RunSpecs Proofs.P01 Proofs.PHandler.

Lemma in_insert_kv kv x l : In x (insert_kv kv l) -> x = kv \/ In x l.
Proof.
  induction l as [|y l IH]; cbn [insert_kv]; intros H.
  - destruct H as [<-|[]]. left; reflexivity.
  - destruct (str_leb (fst kv) (fst y)).
    + destruct H as [<-|H]; [left; reflexivity | right; exact H].
    + destruct H as [<-|H]; [right; left; reflexivity|]. destruct (IH H) as [->|H']; [left; reflexivity | right; right; exact H'].
Qed.
Lemma in_sort_kv x l : In x (sort_kv l) -> In x l.
Proof.
  induction l as [|y l IH]; cbn [sort_kv fold_right]; intros H; [exact H|].
  apply in_insert_kv in H as [->|H]; [left; reflexivity | right; apply IH; exact H].
Qed.
Lemma in_remove_key {A} k x (l : list (string * A)) : In x (remove_key k l) -> In x l.
Proof.
  induction l as [|[k' v] l IH]; cbn [remove_key]; intros H; [exact H|].
  destruct (String.eqb k k'); [right; apply IH; exact H|]. destruct H as [<-|H]; [left; reflexivity | right; apply IH; exact H].
Qed.

Lemma token_headers_keys c t k v :
  In (k, v) (tokens_to_headers c t) ->
  k = tc_header (id_token c) \/ (exists at_, access_token c = Some at_ /\ k = tc_header at_).
Proof.
  unfold tokens_to_headers. destruct (access_token c) as [at_|].
  - destruct (String.eqb (t_access t) "").
    + intros [H|[]]. inversion H. left; reflexivity.
    + intros H. apply in_sort_kv in H. unfold set_key in H. destruct H as [H|H].
      * inversion H. right. exists at_. split; reflexivity.
      * apply in_remove_key in H. destruct H as [H|[]]. inversion H. left; reflexivity.
  - intros [H|[]]. inversion H. left; reflexivity.
Qed.

Theorem ok_only_token_headers c db now r answers h tr rest :
  run (process c db now r) answers = Some (OAllow h, tr, rest) ->
  forall k v, In (k, v) h ->
    k = tc_header (id_token c) \/ (exists at_, access_token c = Some at_ /\ k = tc_header at_).
Proof.
  intros H k v Hin. apply run_process in H.
  inversion H; subst;
    try match goal with X : redirect_spec _ _ _ (OAllow _) _ |- _ => apply redirect_not_allow in X; discriminate X end;
    try match goal with X : retrieve_spec _ _ _ _ _ (OAllow _) _ |- _ => apply retrieve_not_allow in X; discriminate X end.
  - match goal with E : (if ?ok then _ else _) = OAllow _ |- _ => destruct ok; discriminate E end.
  - eapply token_headers_keys; eassumption.
  - match goal with E : (if ?ok then _ else _) = OAllow _ |- _ => destruct ok; [|discriminate E]; unfold allow in E; inversion E; subst end.
    eapply token_headers_keys; eassumption.
Qed.

(* ---- the material a denial is made of does not depend on the secrets ---- *)
Definition with_secret (c : cfg) (s : string) : cfg :=
  {| client_id := client_id c; client_secret := s; callback_uri := callback_uri c; callback := callback c;
     auth_uri := auth_uri c; token_uri := token_uri c; scopes := scopes c; cookie_prefix := cookie_prefix c;
     id_token := id_token c; access_token := access_token c; logout := logout c |}.
Definition with_verifier (g : gen_out) (v : string) : gen_out :=
  {| g_sid := g_sid g; g_nonce := g_nonce g; g_state := g_state g; g_verifier := v; g_challenge := g_challenge g |}.

Theorem public_material_ignores_secrets c s v g :
  authorization_url (with_secret c s) (with_verifier g v) = authorization_url c g /\
  set_cookie_header (cookie_prefix (with_secret c s)) (g_sid (with_verifier g v)) SessionCookie = set_cookie_header (cookie_prefix c) (g_sid g) SessionCookie /\
  logout (with_secret c s) = logout c.
Proof. repeat split; reflexivity. Qed.
