(* Proofs/PStore.v — C12 / C10: the abstract session map, the memory store's refinement of it, and the
   expiry arithmetic of both stores. *)
From AS Require Import Base.Str Base.StrFacts Oidc.Types Store.Spec Store.Memory Store.Redis.
From Coq Require Import ZifyBool.
Ltac Zify.zify_post_hook ::= Z.div_mod_to_equations.

(* ================= the plain map of C12's statement ================= *)
Record psess := { p_tok : option tokens; p_auth : option auth_state }.
Definition pmap := string -> option psess.
Definition pupd (m : pmap) (sid : string) (v : option psess) : pmap := fun k => if String.eqb k sid then v else m k.
Definition pstep (m : pmap) (o : sop) : pmap * sres :=
  match o with
  | OSetTok sid t => (pupd m sid (Some {| p_tok := Some t; p_auth := match m sid with Some s => p_auth s | None => None end |}), RUnit)
  | OSetAuth sid a => (pupd m sid (Some {| p_tok := match m sid with Some s => p_tok s | None => None end; p_auth := Some a |}), RUnit)
  | OGetTok sid => (m, RTok (match m sid with Some s => p_tok s | None => None end))
  | OGetAuth sid => (m, RAuth (match m sid with Some s => p_auth s | None => None end))
  | OClearAuth sid => (match m sid with Some s => pupd m sid (Some {| p_tok := p_tok s; p_auth := None |}) | None => m end, RUnit)
  | ORemove sid => (pupd m sid None, RUnit)
  end.
Fixpoint prun (m : pmap) (h : list (Z * sop)) : pmap * list sres :=
  match h with
  | [] => (m, [])
  | (_, o) :: h' => let '(m1, r) := pstep m o in let '(m2, rs) := prun m1 h' in (m2, r :: rs)
  end.

(* the properties C12 names, as laws of the plain map *)
Lemma plain_read_latest_write m sid t : snd (pstep (fst (pstep m (OSetTok sid t))) (OGetTok sid)) = RTok (Some t).
Proof. cbn. unfold pupd. now rewrite String.eqb_refl. Qed.
Lemma plain_ids_independent m o sid k :
  (match o with OSetTok s _ | OGetTok s | OSetAuth s _ | OGetAuth s | OClearAuth s | ORemove s => s end) = sid ->
  k <> sid -> fst (pstep m o) k = m k.
Proof.
  intros E N. destruct o; cbn in *; subst; unfold pupd; try reflexivity;
    try (destruct (String.eqb_spec k sid); [contradiction | reflexivity]).
  destruct (m sid); [|reflexivity]. unfold pupd. destruct (String.eqb_spec k sid); [contradiction | reflexivity].
Qed.
Lemma plain_remove_erases_all m sid :
  let m' := fst (pstep m (ORemove sid)) in
  snd (pstep m' (OGetTok sid)) = RTok None /\ snd (pstep m' (OGetAuth sid)) = RAuth None.
Proof. cbn. unfold pupd. now rewrite String.eqb_refl. Qed.
Lemma plain_clear_keeps_tokens m sid :
  snd (pstep (fst (pstep m (OClearAuth sid))) (OGetTok sid)) = snd (pstep m (OGetTok sid)) /\
  snd (pstep (fst (pstep m (OClearAuth sid))) (OGetAuth sid)) = RAuth None.
Proof.
  cbn. destruct (m sid) as [s|] eqn:E; cbn; unfold pupd; rewrite ?String.eqb_refl, ?E; auto.
Qed.

(* ================= abstract map with liveness: equals the plain map while nothing dies ================= *)
Definition forget (a : amap) : pmap := fun k => match a k with Some s => Some {| p_tok := s_tok s; p_auth := s_auth s |} | None => None end.

Lemma spec_is_plain_map_without_timeouts h :
  forall a, snd (arun (fun _ _ => true) a h) = snd (prun (forget a) h) /\
            forall k, forget (fst (arun (fun _ _ => true) a h)) k = fst (prun (forget a) h) k.
Proof.
  induction h as [|[now o] h IH]; intros a; [split; reflexivity|].
  cbn [arun prun].
  assert (S : snd (astep (fun _ _ => true) a now o) = snd (pstep (forget a) o) /\
              forall k, forget (fst (astep (fun _ _ => true) a now o)) k = fst (pstep (forget a) o) k).
  { destruct o; cbn [astep pstep fst snd]; unfold view, forget, aupd, pupd;
      destruct (a sid) as [s|] eqn:E; cbn [fst snd fresh s_tok s_auth]; (split; [reflexivity|]); intros k;
      destruct (String.eqb_spec k sid) as [->|N]; rewrite ?E; reflexivity. }
  destruct S as [S1 S2].
  destruct (astep (fun _ _ => true) a now o) as [a1 r1] eqn:EA. destruct (pstep (forget a) o) as [p1 q1] eqn:EP.
  cbn [fst snd] in *. subst q1.
  specialize (IH a1). destruct IH as [I1 I2].
  (* prun depends on the map only pointwise *)
  assert (X : forall h m m', (forall k, m k = m' k) -> snd (prun m h) = snd (prun m' h) /\ forall k, fst (prun m h) k = fst (prun m' h) k).
  { clear. induction h as [|[n o] h IHh]; intros m m' Hm; [split; [reflexivity | exact Hm]|].
    cbn [prun].
    assert (P : snd (pstep m o) = snd (pstep m' o) /\ forall k, fst (pstep m o) k = fst (pstep m' o) k).
    { destruct o; cbn [pstep fst snd]; unfold pupd; rewrite ?(Hm sid); (split; [reflexivity|]); intros k; try apply Hm;
        try (destruct (String.eqb k sid); [reflexivity | apply Hm]).
      destruct (m' sid); [|apply Hm]. unfold pupd. destruct (String.eqb k sid); [reflexivity | apply Hm]. }
    destruct P as [P1 P2]. destruct (pstep m o) as [x1 y1]. destruct (pstep m' o) as [x2 y2]. cbn [fst snd] in *. subst y2.
    destruct (IHh x1 x2 P2) as [J1 J2]. destruct (prun x1 h) as [u1 v1]. destruct (prun x2 h) as [u2 v2]. cbn [fst snd] in *.
    subst. split; [reflexivity | exact J2]. }
  destruct (X h (forget a1) p1 S2) as [X1 X2].
  destruct (arun (fun _ _ => true) a1 h) as [a2 rs]. destruct (prun (forget a1) h) as [p2 qs]. destruct (prun p1 h) as [p3 ts].
  cbn [fst snd] in *. subst. split; [reflexivity|]. intros k. rewrite I2. apply X2.
Qed.

(* ================= C10: the two liveness rules keep to the band ================= *)
(* never alive later than created+abs or last use+idle ... *)
Lemma alive_mem_late abs idle s now :
  alive_mem abs idle s now = true ->
  ((0 < abs)%Z -> (now <= s_added s + abs)%Z) /\ ((0 < idle)%Z -> (now <= s_last s + idle)%Z).
Proof. unfold alive_mem. intros H. split; intros P; lia. Qed.
(* ... and alive while inside both *)
Lemma alive_mem_early abs idle s now :
  ((0 < abs)%Z -> (now <= s_added s + abs)%Z) -> ((0 < idle)%Z -> (now <= s_last s + idle)%Z) ->
  alive_mem abs idle s now = true.
Proof. unfold alive_mem. intros A B. destruct (Z.ltb_spec 0 abs), (Z.ltb_spec 0 idle); cbn; lia. Qed.

Lemma alive_redis_late abs idle s now :
  (0 <= abs)%Z -> (0 <= idle)%Z -> alive_redis abs idle s now = true ->
  ((0 < abs)%Z -> (now < s_added s + abs)%Z) /\ ((0 < idle)%Z -> (now < s_last_data s + idle)%Z).
Proof.
  unfold alive_redis, redis_deadline, second. intros A I H.
  destruct (Z.eqb_spec abs 0), (Z.eqb_spec idle 0); cbn [andb] in H; split; intros P; try lia.
Qed.
(* one second of granularity: alive whenever a whole second remains inside both limits *)
Lemma alive_redis_early abs idle s now :
  (0 <= abs)%Z -> (0 <= idle)%Z ->
  ((0 < abs)%Z -> (now + second <= s_added s + abs)%Z) -> ((0 < idle)%Z -> (now + second <= s_last_data s + idle)%Z) ->
  alive_redis abs idle s now = true.
Proof.
  unfold alive_redis, redis_deadline, second. intros A I P Q.
  destruct (Z.eqb_spec abs 0), (Z.eqb_spec idle 0); cbn [andb]; try reflexivity; lia.
Qed.

(* ================= C10 on the abstract map, for any rule inside the band ================= *)
Section Band.
  Variable alive : asess -> Z -> bool.

  Definition data_of (r : sres) : bool := match r with RTok (Some _) | RAuth (Some _) => true | _ => false end.
  Definition sid_of_op (o : sop) : string :=
    match o with OSetTok s _ | OGetTok s | OSetAuth s _ | OGetAuth s | OClearAuth s | ORemove s => s end.

  (* a read that returns data found a session that is alive under the rule *)
  Lemma honoured_is_alive m now o :
    data_of (snd (astep alive m now o)) = true ->
    exists s, m (sid_of_op o) = Some s /\ alive s now = true.
  Proof.
    destruct o; cbn [astep snd data_of sid_of_op]; try discriminate; unfold view;
      destruct (m sid) as [s|] eqn:E; try discriminate; destruct (alive s now) eqn:A; cbn; try discriminate; eauto.
  Qed.

  (* a live session with data is returned *)
  Lemma live_is_honoured m now sid s :
    m sid = Some s -> alive s now = true ->
    snd (astep alive m now (OGetTok sid)) = RTok (s_tok s) /\ snd (astep alive m now (OGetAuth sid)) = RAuth (s_auth s).
  Proof. intros E A. cbn [astep]. unfold view. rewrite E, A. split; reflexivity. Qed.

  (* the creation time is fixed by the first write: no operation on a live session changes it, and
     activity moves only the last-use stamps *)
  Lemma created_fixed m now o s :
    m (sid_of_op o) = Some s -> alive s now = true -> (match o with ORemove _ => False | _ => True end) ->
    exists s', fst (astep alive m now o) (sid_of_op o) = Some s' /\ s_added s' = s_added s /\ s_last s' = now.
  Proof.
    intros E A NR. destruct o; try contradiction; cbn [sid_of_op] in E; cbn [astep fst sid_of_op]; unfold view; rewrite E, A; cbn [fst];
      unfold aupd; rewrite String.eqb_refl; eexists; repeat split.
  Qed.

  (* operations do not touch other sessions *)
  Lemma other_sessions_untouched m now o k : k <> sid_of_op o -> fst (astep alive m now o) k = m k.
  Proof.
    intros N. destruct o; cbn [astep fst sid_of_op] in *; unfold view;
      try (destruct (m sid) as [s|]; [destruct (alive s now)|]); cbn [fst]; unfold aupd;
      destruct (String.eqb_spec k sid); try contradiction; reflexivity.
  Qed.
End Band.

(* ================= the memory store IS the abstract map under its rule ================= *)
Section MemRefines.
  Variables abs idle : Z.

  Definition mrel (m : mmap) (a : amap) : Prop :=
    forall sid, match lookup sid m, a sid with
                | Some ms, Some s => m_tok ms = s_tok s /\ m_auth ms = s_auth s /\ m_added ms = s_added s /\ m_accessed ms = s_last s
                | None, None => True
                | _, _ => False
                end.

  Lemma mexpired_alive ms s now :
    m_added ms = s_added s -> m_accessed ms = s_last s -> mexpired abs idle ms now = negb (alive_mem abs idle s now).
  Proof.
    intros A B. unfold mexpired, alive_mem. rewrite A, B.
    destruct ((0 <? abs)%Z && (s_added s <? now - abs)%Z), ((0 <? idle)%Z && (s_last s <? now - idle)%Z); reflexivity.
  Qed.

  Lemma mstep_refines m a now o :
    mrel m a ->
    mrel (fst (mstep abs idle m now o)) (fst (astep (alive_mem abs idle) a now o)) /\
    snd (mstep abs idle m now o) = snd (astep (alive_mem abs idle) a now o).
  Proof.
    intros R.
    assert (V : forall sid,
              match mget abs idle m sid now, view (alive_mem abs idle) a sid now with
              | (m1, Some ms), Some s => m1 = m /\ lookup sid m = Some ms /\ a sid = Some s /\
                                         m_tok ms = s_tok s /\ m_auth ms = s_auth s /\ m_added ms = s_added s
              | (m1, None), None => forall k, lookup k m1 = if String.eqb k sid then None else lookup k m
              | _, _ => False
              end).
    { intros sid. unfold mget, view. specialize (R sid).
      destruct (lookup sid m) as [ms|] eqn:L, (a sid) as [s|] eqn:A; try contradiction.
      - destruct R as [R1 [R2 [R3 R4]]]. rewrite (mexpired_alive ms s now R3 R4).
        destruct (alive_mem abs idle s now); cbn [negb].
        + repeat split; assumption.
        + intros k. destruct (String.eqb_spec k sid) as [->|N]; [apply lookup_remove_same | apply lookup_remove_other; apply String.eqb_neq; exact N].
      - intros k. destruct (String.eqb_spec k sid) as [->|N]; [exact L | reflexivity]. }
    destruct o; cbn [mstep astep]; unfold mset; specialize (V sid);
      destruct (mget abs idle m sid now) as [m1 [ms|]]; destruct (view (alive_mem abs idle) a sid now) as [s|]; try contradiction;
      cbn [fst snd].
    all: try (destruct V as [-> [L [A [T1 [T2 T3]]]]]).
    all: (split; [| try reflexivity; try (rewrite T1; reflexivity); try (rewrite T2; reflexivity)]).
    all: intros k; unfold aupd; destruct (String.eqb_spec k sid) as [->|N];
      rewrite ?lookup_set_same, ?lookup_remove_same; cbn [fresh m_tok m_auth m_added m_accessed s_tok s_auth s_added s_last];
      try (repeat split; congruence);
      try (rewrite lookup_set_other by (apply String.eqb_neq; exact N));
      try (rewrite lookup_remove_other by (apply String.eqb_neq; exact N));
      try (rewrite V; destruct (String.eqb_spec k sid); [contradiction|]);
      try exact (R k); try exact I.
    all: try (specialize (R sid); destruct (lookup sid m), (a sid); try contradiction; exact I).
    all: rewrite V, String.eqb_refl; exact I.
  Qed.

  Theorem mem_refines_spec h :
    forall m a, mrel m a -> snd (mrun abs idle m h) = snd (arun (alive_mem abs idle) a h).
  Proof.
    induction h as [|[now o] h IH]; intros m a R; [reflexivity|].
    cbn [mrun arun]. destruct (mstep_refines m a now o R) as [R1 E].
    destruct (mstep abs idle m now o) as [m1 r1]. destruct (astep (alive_mem abs idle) a now o) as [a1 q1].
    cbn [fst snd] in *. subst q1. specialize (IH m1 a1 R1).
    destruct (mrun abs idle m1 h), (arun (alive_mem abs idle) a1 h). cbn [snd] in *. subst. reflexivity.
  Qed.
End MemRefines.
