(* Proofs/P18.v — C18: a session is honoured only by filters that are handed the store it was created in. *)
From AS Require Import Base.Str Http.Cookie Oidc.Types Oidc.Prog Oidc.Handler Oidc.Spec Oidc.Monitors Oidc.Store
  Proofs.ProgFacts Proofs.SymExec Proofs.RunSpecs Proofs.P01 Proofs.PHist Multi.Filters.

(* tokens found in a store after a check were there before it, or the check wrote them *)
Lemma steps_tok_origin st tr st' sid t :
  steps st tr st' -> tok_of st' sid = Some t -> tok_of st sid = Some t \/ exists a, In (ESetTok sid t, a) tr.
Proof.
  intros H. induction H as [|st ea st1 tr st2 H1 H2 IH]; intros Ht; [left; exact Ht|].
  destruct (IH Ht) as [Hb|[a Ha]]; [|right; exists a; right; exact Ha].
  inversion H1; subst; try (left; exact Hb).
  all: rewrite tok_of_apply in Hb; destruct e; try contradiction; try (left; exact Hb).
  all: destruct (String.eqb_spec sid sid0) as [->|]; try (left; exact Hb); try discriminate Hb.
  all: inversion Hb; subst; right; eexists; left; reflexivity.
Qed.

Definition origin_inv (past : list mcheck) (S : stores) : Prop :=
  forall k sid t, tok_of (S k) sid = Some t -> exists m, In m past /\ f_store (m_filter m) = k /\ binds m sid t.

Lemma origin_inv_drop past S k sid : origin_inv past S -> origin_inv past (supd S k (upd (S k) sid None)).
Proof.
  intros I k' sid' t. unfold supd. destruct (skind_eqb_spec k' k) as [->|]; [|apply I].
  rewrite tok_of_upd. destruct (String.eqb sid' sid); [discriminate|apply I].
Qed.
Lemma origin_inv_check past S m st' :
  origin_inv past S -> steps (S (f_store (m_filter m))) (m_tr m) st' ->
  origin_inv (past ++ [m]) (supd S (f_store (m_filter m)) st').
Proof.
  intros I Hs k sid t. unfold supd. destruct (skind_eqb_spec k (f_store (m_filter m))) as [->|].
  - intros Ht. destruct (steps_tok_origin _ _ _ _ _ Hs Ht) as [Hb|Hw].
    + destruct (I _ _ _ Hb) as [m' [Hin [Hk Hbd]]]. exists m'. split; [apply in_or_app; left; exact Hin|]. split; assumption.
    + exists m. split; [apply in_or_app; right; left; reflexivity|]. split; [reflexivity|exact Hw].
  - intros Ht. destruct (I _ _ _ Ht) as [m' [Hin [Hk Hbd]]]. exists m'. split; [apply in_or_app; left; exact Hin|]. split; assumption.
Qed.

(* every OK verdict of any filter, in any history through any number of filters, is for a session whose tokens were
   bound by a check (the same or an earlier one) of a filter that is handed the same store *)
Theorem ok_has_origin db S hs S' :
  mhist db S hs S' -> forall past, origin_inv past S ->
  forall pre m post h, hs = (pre ++ m :: post)%list -> m_out m = OAllow h ->
  exists m' t, In m' (past ++ pre ++ [m]) /\ f_store (m_filter m') = f_store (m_filter m) /\
               binds m' (request_sid (f_cfg (m_filter m)) (m_req m)) t.
Proof.
  intros H. induction H as [S|S m0 answers rest st' hs S' Hrun Hst Hh IH|S k sid hs S' Hh IH]; intros past I pre m post h E Ho.
  - destruct pre; discriminate E.
  - destruct pre as [|p pre]; cbn [app] in E; inversion E; subst.
    + rewrite Ho in Hrun.
      destruct (ok_needs_live_session _ _ _ _ _ _ _ _ _ _ Hrun Hst) as [t [Ht [_ Hcase]]].
      destruct Hcase as [[_ [_ _]]|[_ [_ [b [oa [_ [_ [_ [Ht' _]]]]]]]]].
      * destruct (I _ _ _ Ht) as [m' [Hin [Hk Hb]]]. exists m', t.
        split; [apply in_or_app; left; exact Hin|]. split; assumption.
      * destruct (I _ _ _ Ht) as [m' [Hin [Hk Hb]]]. exists m', t.
        split; [apply in_or_app; left; exact Hin|]. split; assumption.
    + destruct (IH (past ++ [p])%list (origin_inv_check _ _ _ _ I Hst) pre m post h eq_refl Ho) as [m' [t [Hin R]]].
      exists m', t. split; [|exact R]. rewrite <- app_assoc in Hin. exact Hin.
  - apply (IH past (origin_inv_drop _ _ _ _ I) pre m post h E Ho).
Qed.

Lemma origin_inv_empty : origin_inv [] no_sessions.
Proof. intros k sid t H. discriminate H. Qed.

(* ---- the factory ---- *)
Lemma stores_distinct_inj fs : stores_distinct fs = true ->
  forall f g, In f fs -> In g fs -> shares f g = true -> f = g.
Proof.
  induction fs as [|x fs IH]; intros D f g Hf Hg Hs; [contradiction|].
  cbn [stores_distinct] in D. apply andb_prop in D as [Dx D]. apply negb_true_iff in Dx.
  assert (Hn : forall y, In y fs -> shares x y = false).
  { intros y Hy. destruct (shares x y) eqn:E; [|reflexivity].
    assert (existsb (shares x) fs = true) by (apply existsb_exists; exists y; split; assumption). congruence. }
  destruct Hf as [<-|Hf], Hg as [<-|Hg]; try reflexivity.
  - rewrite (Hn _ Hg) in Hs. discriminate.
  - unfold shares in *. destruct (skind_eqb_spec (f_store f) (f_store x)) as [Ee|]; [|discriminate].
    specialize (Hn _ Hf). rewrite Ee in Hn. destruct (skind_eqb_spec (f_store x) (f_store x)); [discriminate|congruence].
  - apply IH; assumption.
Qed.

Lemma first_mem_in fs x : first_mem fs = Some x -> exists g, In g fs /\ f_store g = KMem /\ x = (f_abs g, f_idle g).
Proof.
  induction fs as [|f fs IH]; cbn [first_mem]; [discriminate|].
  destruct (f_store f) eqn:E.
  - intros H; inversion H; subst. exists f. split; [left; reflexivity|]. split; [exact E|reflexivity].
  - intros H. destruct (IH H) as [g [Hg R]]. exists g. split; [right; exact Hg|exact R].
Qed.
Lemma first_mem_some fs f : In f fs -> f_store f = KMem -> first_mem fs <> None.
Proof.
  induction fs as [|x fs IH]; intros Hin E; [contradiction|]. cbn [first_mem].
  destruct (f_store x) eqn:Ex; [discriminate|]. destruct Hin as [<-|Hin]; [congruence|]. apply IH; assumption.
Qed.
Lemma last_redis_in u fs x : last_redis u fs = Some x -> exists g, In g fs /\ f_store g = KRedis u /\ x = (f_abs g, f_idle g).
Proof.
  induction fs as [|f fs IH]; cbn [last_redis]; [discriminate|].
  destruct (last_redis u fs) as [y|] eqn:E.
  - intros H; inversion H; subst. destruct (IH eq_refl) as [g [Hg R]]. exists g. split; [right; exact Hg|exact R].
  - destruct (skind_eqb_spec (f_store f) (KRedis u)) as [Ef|]; [|discriminate].
    intros H; inversion H; subst. exists f. split; [left; reflexivity|]. split; [exact Ef|reflexivity].
Qed.
Lemma last_redis_some u fs f : In f fs -> f_store f = KRedis u -> last_redis u fs <> None.
Proof.
  induction fs as [|x fs IH]; intros Hin E; [contradiction|]. cbn [last_redis].
  destruct (last_redis u fs) eqn:El; [discriminate|].
  destruct Hin as [<-|Hin]; [|exfalso; apply (IH Hin E); reflexivity].
  rewrite E. destruct (skind_eqb_spec (KRedis u) (KRedis u)); [discriminate|congruence].
Qed.

(* with a store of its own, a filter's sessions are governed by its own timeouts *)
Theorem own_timeouts_when_distinct fs f : stores_distinct fs = true -> In f fs -> own_timeouts fs f = true.
Proof.
  intros D Hin. unfold own_timeouts, eff_timeouts. destruct (f_store f) as [|u] eqn:E.
  - destruct (first_mem fs) as [[a i]|] eqn:Ef; [|exfalso; eapply first_mem_some; eauto].
    destruct (first_mem_in _ _ Ef) as [g [Hg [Eg Ex]]]. inversion Ex; subst.
    assert (f = g) by (apply (stores_distinct_inj fs D); [assumption..|unfold shares; rewrite E, Eg; reflexivity]).
    subst. now rewrite !Z.eqb_refl.
  - destruct (last_redis u fs) as [[a i]|] eqn:Ef; [|exfalso; eapply last_redis_some; eauto].
    destruct (last_redis_in _ _ _ Ef) as [g [Hg [Eg Ex]]]. inversion Ex; subst.
    assert (f = g) by (apply (stores_distinct_inj fs D); [assumption..|unfold shares; rewrite E, Eg; cbn; apply String.eqb_refl]).
    subst. now rewrite !Z.eqb_refl.
Qed.

(* "honoured only by that filter", for configurations in which every filter has a store of its own *)
Theorem isolated_when_distinct db fs hs S' :
  stores_distinct fs = true -> (forall m, In m hs -> In (m_filter m) fs) ->
  mhist db no_sessions hs S' ->
  forall pre m post h, hs = (pre ++ m :: post)%list -> m_out m = OAllow h ->
  exists m' t, In m' (pre ++ [m]) /\ m_filter m' = m_filter m /\ binds m' (request_sid (f_cfg (m_filter m)) (m_req m)) t.
Proof.
  intros D Hfs H pre m post h E Ho.
  destruct (ok_has_origin _ _ _ _ H [] origin_inv_empty pre m post h E Ho) as [m' [t [Hin [Hk Hb]]]].
  cbn [app] in Hin. exists m', t. split; [exact Hin|]. split; [|exact Hb].
  apply (stores_distinct_inj fs D).
  - apply Hfs. subst hs. apply in_app_or in Hin as [Hin|[<-|[]]]; apply in_or_app; [left; exact Hin|right; left; reflexivity].
  - apply Hfs. subst hs. apply in_or_app; right; left; reflexivity.
  - unfold shares. rewrite Hk. destruct (skind_eqb_spec (f_store (m_filter m)) (f_store (m_filter m))); congruence.
Qed.
