(* Server/Trigger.v — model of stringMatch / matchTriggerRule / mustTriggerCheck
   (internal/server/authz.go).  The regular-expression engine is a parameter. *)
From AS Require Import Base.Str Http.PathSplit.

Inductive smatch :=
| MExact (s : string) | MPrefix (s : string) | MSuffix (s : string) | MRegex (s : string)
| MUnset.                                     (* StringMatch with no match_type: never matches *)

Record rule := { excluded : list smatch; included : list smatch }.

Section WithRegex.
  Variable rx : string -> string -> bool.      (* regexp.MatchString(pattern, s), false on error *)

  Definition string_match (m : smatch) (p : string) : bool :=
    match m with
    | MExact s => String.eqb s p
    | MPrefix s => prefixb s p
    | MSuffix s => suffixb s p
    | MRegex s => rx s p
    | MUnset => false
    end.

  (* the two [for … { if stringMatch … return }] loops *)
  Fixpoint any_match (ms : list smatch) (p : string) : bool :=
    match ms with
    | [] => false
    | m :: ms' => if string_match m p then true else any_match ms' p
    end.

  Definition match_rule (r : rule) (p : string) : bool :=
    if any_match (excluded r) p then false
    else match included r with
         | [] => true
         | inc => any_match inc p
         end.

  Fixpoint any_rule (rs : list rule) (p : string) : bool :=
    match rs with
    | [] => false
    | r :: rs' => if match_rule r p then true else any_rule rs' p
    end.

  (* mustTriggerCheck on the request target (":path" as Envoy sends it: path[?query][#fragment]) *)
  Definition must_trigger (rules : list rule) (target : string) : bool :=
    let p := path_of target in
    match rules with
    | [] => true
    | _ => if String.eqb p "" then true else any_rule rules p
    end.

  (* The documented decision, as a proposition over the path component. *)
  Definition rule_fires (r : rule) (p : string) : Prop :=
    (forall m, In m (excluded r) -> string_match m p = false) /\
    (included r = [] \/ exists m, In m (included r) /\ string_match m p = true).

  Definition trigger_spec (rules : list rule) (p : string) : Prop :=
    rules = [] \/ p = "" \/ exists r, In r rules /\ rule_fires r p.
End WithRegex.
