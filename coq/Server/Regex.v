(* Server/Regex.v — a Brzozowski-derivative matcher for the RE2 sub-grammar the harness generates
   (literal bytes, '.', concatenation, alternation, star, '^'/'$' at the ends).  TEST-SIDE ONLY:
   it instantiates the [rx] parameter of Server/Trigger.v in the correspondence check; no theorem
   depends on it (they hold for every engine). *)
From AS Require Import Base.Str.

Inductive re :=
| REmpty | REps | RChr (a : ascii) | RDot (* any byte except \n *) | RAnyByte
| RCat (r s : re) | RAlt (r s : re) | RStar (r : re).

Fixpoint nullable (r : re) : bool :=
  match r with
  | REmpty => false | REps => true | RChr _ => false | RDot => false | RAnyByte => false
  | RCat r s => nullable r && nullable s
  | RAlt r s => nullable r || nullable s
  | RStar _ => true
  end.

Definition mk_cat (r s : re) : re :=
  match r, s with
  | REmpty, _ => REmpty | _, REmpty => REmpty
  | REps, _ => s | _, REps => r
  | _, _ => RCat r s
  end.
Definition mk_alt (r s : re) : re :=
  match r, s with
  | REmpty, _ => s | _, REmpty => r
  | _, _ => RAlt r s
  end.

Fixpoint deriv (a : ascii) (r : re) : re :=
  match r with
  | REmpty => REmpty | REps => REmpty
  | RChr b => if Ascii.eqb a b then REps else REmpty
  | RDot => if Ascii.eqb a "010"%char then REmpty else REps
  | RAnyByte => REps
  | RCat r s => if nullable r then mk_alt (mk_cat (deriv a r) s) (deriv a s) else mk_cat (deriv a r) s
  | RAlt r s => mk_alt (deriv a r) (deriv a s)
  | RStar r' => mk_cat (deriv a r') (RStar r')
  end.

Fixpoint re_match (r : re) (s : string) : bool :=
  match s with
  | EmptyString => nullable r
  | String a s' => re_match (deriv a r) s'
  end.

Record regex := { anch_l : bool; body : re; anch_r : bool }.

(* regexp.MatchString: unanchored search *)
Definition re_search (g : regex) (s : string) : bool :=
  re_match (RCat (if anch_l g then REps else RStar RAnyByte)
                 (RCat (body g) (if anch_r g then REps else RStar RAnyByte))) s.

Definition rx_of_table (tbl : list (string * regex)) (pat s : string) : bool :=
  match lookup pat tbl with Some g => re_search g s | None => false end.
