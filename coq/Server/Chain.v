(* Server/Chain.v — model of matches() and the chain/filter loop of ExtAuthZFilter.Check
   (internal/server/authz.go).  Filters are abstract: an environment function gives the
   outcome of evaluating filter [i] (by identity) on the current request. *)
From AS Require Import Base.Str.

Inductive crit := CritNone | CritEq (v : string) | CritPrefix (v : string).
Record cmatch := { m_header : string; m_crit : crit }.

(* request headers: Go map keyed by (Envoy-lower-cased) header name; absent key reads "" *)
Definition headers := list (string * string).
Definition hget (h : headers) (k : string) : string := odflt (lookup k h).

Definition matches (m : option cmatch) (h : headers) : bool :=
  match m with
  | None => true
  | Some m =>
      let hv := hget h (to_lower (m_header m)) in
      match m_crit m with
      | CritEq v => if String.eqb v "" then prefixb "" hv else String.eqb hv v
      | CritPrefix v => prefixb v hv
      | CritNone => prefixb "" hv
      end
  end.

Inductive fres := FOk | FDenied | FError.     (* status OK / any other status / Process or construction error *)

Record chain := { c_match : option cmatch; c_filters : list nat }.   (* filters by identity *)

Inductive verdict :=
| VAllowBare                 (* the shared "allow" answer: not triggered, empty chain, allow_unmatched *)
| VAllowChain                (* every filter of the chain allowed; accumulated response *)
| VDeniedBy (f : nat)        (* response of filter f returned as is *)
| VErrorBy (f : nat)         (* no verdict: error returned to gRPC *)
| VNoChain.                  (* PermissionDenied "no chains matched" *)

Section WithFilters.
  Variable run_filter : nat -> fres.

  (* inner loop: returns verdict and the filters evaluated, in order *)
  Fixpoint run_filters (fs : list nat) (seen : list nat) : verdict * list nat :=
    match fs with
    | [] => (VAllowChain, seen)
    | f :: fs' =>
        match run_filter f with
        | FError => (VErrorBy f, (seen ++ [f])%list)
        | FDenied => (VDeniedBy f, (seen ++ [f])%list)
        | FOk => run_filters fs' ((seen ++ [f])%list)
        end
    end.

  Fixpoint run_chains (cs : list chain) (allow_unmatched : bool) (h : headers) : verdict * list nat :=
    match cs with
    | [] => (if allow_unmatched then VAllowBare else VNoChain, [])
    | c :: cs' =>
        if matches (c_match c) h then
          match c_filters c with
          | [] => (VAllowBare, [])
          | fs => run_filters fs []
          end
        else run_chains cs' allow_unmatched h
    end.

  Definition check (triggered : bool) (cs : list chain) (allow_unmatched : bool) (h : headers)
    : verdict * list nat :=
    if triggered then run_chains cs allow_unmatched h else (VAllowBare, []).

  (* ---- independent reference evaluator (the property's wording) ---- *)
  Definition first_matching (cs : list chain) (h : headers) : option chain :=
    find (fun c => matches (c_match c) h) cs.

  (* filters evaluated = longest prefix of allowing filters plus the first non-allowing one *)
  Fixpoint allowed_prefix (fs : list nat) : list nat :=
    match fs with
    | [] => []
    | f :: fs' => match run_filter f with FOk => f :: allowed_prefix fs' | _ => [] end
    end.
  Definition first_refusal (fs : list nat) : option nat :=
    find (fun f => match run_filter f with FOk => false | _ => true end) fs.

  Definition ref_eval (triggered : bool) (cs : list chain) (allow_unmatched : bool) (h : headers)
    : verdict * list nat :=
    if negb triggered then (VAllowBare, []) else
    match first_matching cs h with
    | None => (if allow_unmatched then VAllowBare else VNoChain, [])
    | Some c =>
        match c_filters c with
        | [] => (VAllowBare, [])
        | fs =>
            match first_refusal fs with
            | None => (VAllowChain, fs)
            | Some f => (match run_filter f with FError => VErrorBy f | _ => VDeniedBy f end,
                         (allowed_prefix fs ++ [f])%list)
            end
        end
    end.
End WithFilters.
