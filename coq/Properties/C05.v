(* Properties/C05.v — C05: session id renewal, cookie protection. *)
From AS Require Import Base.Str Http.Cookie Http.SetCookie Oidc.Types Oidc.Prog Oidc.Handler Oidc.Spec Oidc.Monitors Oidc.Store
  Oidc.History Proofs.RunSpecs Proofs.P01 Proofs.PHandler Proofs.PHist Proofs.PCookie Proofs.Examples.

(* For every run of a check: if new identifiers are drawn, then (i) nothing was written before the
   draw and, when the client presented a session id, that session was removed successfully before it;
   (ii) the draw is followed by exactly one effect, the write of the new login state under the NEW id;
   (iii) when that write succeeds the answer is a 302 whose Set-Cookie is the session cookie with exactly
   the new id and whose Location is the authorization request of the new tuple, otherwise it is not a
   redirect.  If no identifiers are drawn, no login state is written and the only Set-Cookie possible
   is the logout's deletion. *)
Theorem C05_renewal :
  forall c db now r answers o tr rest,
    run (process c db now r) answers = Some (o, tr, rest) -> typed_trace tr = true ->
    renewal_shape c r tr o = true.
Proof. exact renewal_ok. Qed.
Print Assumptions C05_renewal.

(* tokens are only ever written under the (non-empty) id the client presented ... *)
Theorem C05_tokens_under_presented_id :
  forall c db now r answers o tr rest,
    run (process c db now r) answers = Some (o, tr, rest) -> typed_trace tr = true ->
    settok_under_presented c r tr = true.
Proof. exact settok_presented_ok. Qed.
Print Assumptions C05_tokens_under_presented_id.

(* ... and over histories every id under which the map holds anything was drawn by the service itself
   (so a client-chosen id never names a session) *)
Theorem C05_only_issued_ids :
  forall c db os st,
    hrun c db empty_store os st -> forall sid, st sid <> None -> In sid (drawn_ids os).
Proof. exact only_issued_ids. Qed.
Print Assumptions C05_only_issued_ids.

(* the cookie, read back with an independent RFC 6265 parser: for every prefix and every id that are
   cookie-safe (no ';', '=', whitespace or control bytes), both headers the service ever emits parse to
   the name __Host-[prefix-]authservice-session-id-cookie with Path=/, no Domain, Secure, HttpOnly and
   SameSite=Lax; the login one carries the id and no expiry, the logout one expires at once *)
Theorem C05_cookie_attrs :
  forall prefix sid,
    cookie_safe prefix = true -> cookie_safe sid = true ->
    (exists p, parse_set_cookie (set_cookie_header prefix sid SessionCookie) = Some p /\
               pc_name p = cookie_name prefix /\ pc_value p = sid /\
               host_locked_and_protected p = true /\ expires_now p = false) /\
    (exists p, parse_set_cookie (set_cookie_header prefix "deleted" MaxAge0) = Some p /\
               pc_name p = cookie_name prefix /\ host_locked_and_protected p = true /\ expires_now p = true).
Proof. exact cookie_attrs. Qed.
Print Assumptions C05_cookie_attrs.

(* and the cookie the service sets is the cookie it reads: presenting exactly that cookie yields the id *)
Theorem C05_cookie_roundtrip :
  forall prefix sid,
    cookie_safe prefix = true -> cookie_safe sid = true -> sid <> "" ->
    session_id_from_cookie prefix (cookie_name prefix ++ "=" ++ sid) = sid.
Proof. exact cookie_roundtrip. Qed.
Print Assumptions C05_cookie_roundtrip.

(* outside that guard the property fails on the model exactly as on the code: a prefix with ';' *)
Example C05_cookie_attrs_refuted_nontoken :
  match parse_set_cookie (set_cookie_header "a;Domain=evil.test" "S1" SessionCookie) with
  | Some p => host_locked_and_protected p
  | None => false
  end = false.
Proof. vm_compute. reflexivity. Qed.

Example C05_example_renewal :
  exists o tr, run (process ex_c ex_db 1000 (ex_req "/app" (ex_cookie "attacker-chosen")))
                 [ATok (Some None); AUnit true; AGen ex_g; AUnit true] = Some (o, tr, []) /\
               renewal_shape ex_c (ex_req "/app" (ex_cookie "attacker-chosen")) tr o = true /\
               nth_error tr 1 = Some (ERemove "attacker-chosen", AUnit true).
Proof. eexists. eexists. vm_compute. repeat split; reflexivity. Qed.
