(* Properties/C11.v — C11: refresh keeps the session current or ends it. *)
From AS Require Import Base.Str Http.Cookie Oidc.Types Oidc.Prog Oidc.Handler Oidc.Spec Oidc.Monitors Oidc.Store
  Oidc.History Proofs.RunSpecs Proofs.P01 Proofs.PHandler Proofs.PHist Proofs.Examples.

(* success: an OK after expiry is exactly: read tokens t (expired, refresh token present) - refresh
   exchange with THE STORED refresh token t_refresh t - body valid - merged = Spec.merged_tokens (new
   values replace old, omitted ones kept, rotated refresh token replaces its predecessor, expiry updated
   iff expires_in>0) - merged ID token validated - merged stored under the same id - merged forwarded *)
Theorem C11_refresh_success_shape :
  forall c db now r answers h tr rest,
    run (process c db now r) answers = Some (OAllow h, tr, rest) -> ok_shape c db now r tr h = true.
Proof. exact ok_justified. Qed.
Print Assumptions C11_refresh_success_shape.

(* and the merged result is what the map holds afterwards, i.e. what later checks read *)
Theorem C11_merged_is_stored :
  forall c db now r answers h tr rest st st',
    run (process c db now r) answers = Some (OAllow h, tr, rest) -> steps st tr st' ->
    exists t, tok_of st (request_sid c r) = Some t /\ request_sid c r <> "" /\
      ((tokens_expired c db now t = Some false /\ st' = st /\ h = tokens_to_headers c t) \/
       (tokens_expired c db now t = Some true /\ t_refresh t <> "" /\
        exists b oa, In (EIdp (refresh_request c (t_refresh t)), AIdp (IdpBody b)) tr /\
          valid_refresh_tokens b = true /\
          validated c db (t_id (merged_tokens db now t b)) (nonce_of oa) false = true /\
          tok_of st' (request_sid c r) = Some (merged_tokens db now t b) /\
          h = tokens_to_headers c (merged_tokens db now t b))).
Proof. exact ok_needs_live_session. Qed.
Print Assumptions C11_merged_is_stored.

(* failure: whenever a check reads expired, refreshable tokens, the exchange is attempted with the stored
   refresh token, and if the verdict is not OK then the presented session's removal was attempted
   (redirect to a new login follows it) or the answer is the session-error denial *)
Theorem C11_failure_ends_session :
  forall c db now r answers o tr rest,
    run (process c db now r) answers = Some (o, tr, rest) -> typed_trace tr = true ->
    refresh_failure_shape c db now r tr o = true.
Proof. exact refresh_failure_ok. Qed.
Print Assumptions C11_failure_ends_session.

Example C11_example_rotation :
  let b := {| b_id := ""; b_access := "AT2"; b_refresh := "RT2"; b_expires_in := 60; b_token_type := "Bearer" |} in
  merged_tokens ex_db 3000 ex_old b = {| t_id := "ID1"; t_access := "AT2"; t_refresh := "RT2"; t_expiry := 3000 + 60 * 1000000000 - 5 |}.
Proof. vm_compute. reflexivity. Qed.
Example C11_example_failure :
  exists o tr, run (process ex_c ex_db 3000 (ex_req "/app" (ex_cookie "S1")))
                 [ATok (Some (Some ex_old)); AIdp (IdpStatus 400); AUnit true; AGen ex_g; AUnit true] = Some (o, tr, []) /\
               is_allow o = false /\ has (is_remove_of "S1") tr = true.
Proof. eexists. eexists. vm_compute. repeat split; reflexivity. Qed.
