(* Properties/C10.v — C10: absolute and idle session timeouts. *)
From AS Require Import Base.Str Oidc.Types Store.Spec Store.Memory Store.Redis Proofs.PStore Proofs.PRedis Proofs.P10b Http.Cookie Oidc.Prog Oidc.Handler Oidc.Spec.

(* the memory store's rule: a session is alive exactly while now <= created+abs and now <= last use+idle *)
Theorem C10_memory_rule_band :
  forall abs idle s now,
    (alive_mem abs idle s now = true ->
       ((0 < abs)%Z -> (now <= s_added s + abs)%Z) /\ ((0 < idle)%Z -> (now <= s_last s + idle)%Z)) /\
    (((0 < abs)%Z -> (now <= s_added s + abs)%Z) -> ((0 < idle)%Z -> (now <= s_last s + idle)%Z) -> alive_mem abs idle s now = true).
Proof. intros. split; [apply alive_mem_late | apply alive_mem_early]. Qed.
Print Assumptions C10_memory_rule_band.

(* the Redis store's rule (EXPIREAT in whole seconds): never alive at or after created+abs or last data
   access+idle; alive whenever a whole second remains inside both *)
Theorem C10_redis_rule_band :
  forall abs idle s now, (0 <= abs)%Z -> (0 <= idle)%Z ->
    (alive_redis abs idle s now = true ->
       ((0 < abs)%Z -> (now < s_added s + abs)%Z) /\ ((0 < idle)%Z -> (now < s_last_data s + idle)%Z)) /\
    (((0 < abs)%Z -> (now + second <= s_added s + abs)%Z) -> ((0 < idle)%Z -> (now + second <= s_last_data s + idle)%Z) ->
       alive_redis abs idle s now = true).
Proof. intros abs idle s now A I. split; [apply alive_redis_late; assumption | apply alive_redis_early; assumption]. Qed.
Print Assumptions C10_redis_rule_band.

(* on the abstract map under either rule: data is only ever returned from a session that is alive under
   the rule at that instant ... *)
Theorem C10_honoured_only_if_alive :
  forall alive m now o, data_of (snd (astep alive m now o)) = true ->
    exists s, m (sid_of_op o) = Some s /\ alive s now = true.
Proof. exact honoured_is_alive. Qed.
Print Assumptions C10_honoured_only_if_alive.

(* ... a session that is alive under the rule is returned (not dropped) ... *)
Theorem C10_live_session_is_honoured :
  forall alive m now sid s, m sid = Some s -> alive s now = true ->
    snd (astep alive m now (OGetTok sid)) = RTok (s_tok s) /\ snd (astep alive m now (OGetAuth sid)) = RAuth (s_auth s).
Proof. exact live_is_honoured. Qed.
Print Assumptions C10_live_session_is_honoured.

(* ... and activity moves the last-use stamp only: the creation time of a live session is never changed *)
Theorem C10_created_fixed :
  forall alive m now o s, m (sid_of_op o) = Some s -> alive s now = true -> (match o with ORemove _ => False | _ => True end) ->
    exists s', fst (astep alive m now o) (sid_of_op o) = Some s' /\ s_added s' = s_added s /\ s_last s' = now.
Proof. exact created_fixed. Qed.
Print Assumptions C10_created_fixed.

(* the memory store (every method, incl. its expiry on access) returns exactly what the abstract map under
   the memory rule returns, for every operation sequence with arbitrary clock readings *)
Theorem C10_memory_store_follows_its_rule :
  forall abs idle h, snd (mrun abs idle [] h) = snd (arun (alive_mem abs idle) aempty h).
Proof. intros. apply mem_refines_spec. intros sid. exact I. Qed.
Print Assumptions C10_memory_store_follows_its_rule.

(* and so does the Redis store under ITS rule (EXPIREAT in whole seconds), for every operation sequence with
   non-decreasing positive clock readings and the values the handler stores *)
Theorem C10_redis_store_follows_its_rule :
  forall abs idle parses h t0, clock_ok parses t0 h ->
    snd (rrun abs idle parses [] h) = map ROk (snd (arun (alive_redis abs idle) aempty h)).
Proof. intros. eapply redis_refines_spec_from_empty; eassumption. Qed.
Print Assumptions C10_redis_store_follows_its_rule.

(* the same at the level of VERDICTS: the handler run on top of the abstract map (which both store models refine) gives
   an OK only for a session that the map holds and that is alive under the store's rule at the clock of the check -
   hence inside the absolute and the idle limit *)
Theorem C10_ok_only_if_alive :
  forall alive c db now r m env h tr m',
    run_on alive (process c db now r) m now env = Some (OAllow h, tr, m') ->
    exists s, m (request_sid c r) = Some s /\ alive s now = true.
Proof. exact ok_only_if_alive. Qed.
Print Assumptions C10_ok_only_if_alive.

Theorem C10_ok_within_timeouts :
  forall abs idle c db now r m env h tr m',
    (run_on (alive_mem abs idle) (process c db now r) m now env = Some (OAllow h, tr, m') ->
     exists s, m (request_sid c r) = Some s /\
       ((0 < abs)%Z -> (now <= s_added s + abs)%Z) /\ ((0 < idle)%Z -> (now <= s_last s + idle)%Z)) /\
    ((0 <= abs)%Z -> (0 <= idle)%Z ->
     run_on (alive_redis abs idle) (process c db now r) m now env = Some (OAllow h, tr, m') ->
     exists s, m (request_sid c r) = Some s /\
       ((0 < abs)%Z -> (now < s_added s + abs)%Z) /\ ((0 < idle)%Z -> (now < s_last_data s + idle)%Z)).
Proof. intros. split; [apply ok_within_timeouts_memory | apply ok_within_timeouts_redis]. Qed.
Print Assumptions C10_ok_within_timeouts.

Example C10_example_absolute_not_extended_by_activity :
  let t := {| t_id := "j"; t_access := ""; t_refresh := ""; t_expiry := 0 |} in
  snd (mrun (10 * second) 0 [] [(1 * second, OSetTok "s" t); (9 * second, OGetTok "s"); (11 * second, OGetTok "s"); (12 * second, OGetTok "s")])%Z
  = [RUnit; RTok (Some t); RTok (Some t); RTok None].
Proof. vm_compute. reflexivity. Qed.
