(* Properties/C12.v — C12: both stores implement one abstract session map. *)
From AS Require Import Base.Str Oidc.Types Store.Spec Store.Memory Store.Redis Proofs.PStore Proofs.PRedis.
From Coq Require Import Lia.

(* the abstract map with liveness is, while no session dies, literally the plain map of the property *)
Theorem C12_spec_is_plain_map :
  forall h a, snd (arun (fun _ _ => true) a h) = snd (prun (forget a) h).
Proof. intros h a. apply spec_is_plain_map_without_timeouts. Qed.
Print Assumptions C12_spec_is_plain_map.

Theorem C12_read_latest_write : forall m sid t, snd (pstep (fst (pstep m (OSetTok sid t))) (OGetTok sid)) = RTok (Some t).
Proof. exact plain_read_latest_write. Qed.
Print Assumptions C12_read_latest_write.

Theorem C12_ids_independent :
  forall alive m now o k, k <> sid_of_op o -> fst (astep alive m now o) k = m k.
Proof. exact other_sessions_untouched. Qed.
Print Assumptions C12_ids_independent.

Theorem C12_remove_erases_all :
  forall m sid, let m' := fst (pstep m (ORemove sid)) in
    snd (pstep m' (OGetTok sid)) = RTok None /\ snd (pstep m' (OGetAuth sid)) = RAuth None.
Proof. exact plain_remove_erases_all. Qed.
Print Assumptions C12_remove_erases_all.

Theorem C12_clear_keeps_tokens :
  forall m sid,
    snd (pstep (fst (pstep m (OClearAuth sid))) (OGetTok sid)) = snd (pstep m (OGetTok sid)) /\
    snd (pstep (fst (pstep m (OClearAuth sid))) (OGetAuth sid)) = RAuth None.
Proof. exact plain_clear_keeps_tokens. Qed.
Print Assumptions C12_clear_keeps_tokens.

(* the memory store refines the abstract map: for every operation sequence and clock readings the results are equal *)
Theorem C12_memory_refines_spec :
  forall abs idle h, snd (mrun abs idle [] h) = snd (arun (alive_mem abs idle) aempty h).
Proof. intros. apply mem_refines_spec. intros sid. exact I. Qed.
Print Assumptions C12_memory_refines_spec.

Theorem C12_created_fixed :
  forall alive m now o s, m (sid_of_op o) = Some s -> alive s now = true -> (match o with ORemove _ => False | _ => True end) ->
    exists s', fst (astep alive m now o) (sid_of_op o) = Some s' /\ s_added s' = s_added s /\ s_last s' = now.
Proof. exact created_fixed. Qed.
Print Assumptions C12_created_fixed.

(* outside the guard of well-formed values the two stores differ, as the code does: Redis hides an
   unparsable ID token, the memory store returns it *)
Example C12_refuted_unguarded :
  let t := {| t_id := "not-a-jwt"; t_access := "a"; t_refresh := ""; t_expiry := 0 |} in
  snd (mrun 0 0 [] [(1, OSetTok "s" t); (2, OGetTok "s")])%Z = [RUnit; RTok (Some t)] /\
  snd (rrun 0 0 (fun _ => false) [] [(1, OSetTok "s" t); (2, OGetTok "s")])%Z = [ROk RUnit; ROk (RTok None)].
Proof. vm_compute. split; reflexivity. Qed.
(* the Redis store refines the abstract map under its own liveness rule: for every operation sequence with
   non-decreasing positive clock readings and the values the handler stores (an ID token that parses, login states
   with all four members), every answer of the command-level model of the Redis store equals the abstract map's.
   (Before fix 33d4a84 this theorem carried one exception - clearing the login state of a missing session reported
   an error - which was the finding C12/redis-clear-missing.) *)
Theorem C12_redis_refines_spec :
  forall abs idle parses h t0, clock_ok parses t0 h ->
    snd (rrun abs idle parses [] h) = map ROk (snd (arun (alive_redis abs idle) aempty h)).
Proof. intros. eapply redis_refines_spec_from_empty; eassumption. Qed.
Print Assumptions C12_redis_refines_spec.

Example C12_redis_example :
  let t := {| t_id := "j"; t_access := "a"; t_refresh := ""; t_expiry := 0 |} in
  let h := [(1 * second, OSetTok "s" t); (2 * second, OGetTok "s"); (3 * second, OClearAuth "s"); (4 * second, OClearAuth "zz"); (20 * second, OGetTok "s")]%Z in
  clock_ok (fun _ => true) 0 h /\
  snd (rrun (10 * second) 0 (fun _ => true) [] h) = [ROk RUnit; ROk (RTok (Some t)); ROk RUnit; ROk RUnit; ROk (RTok None)].
Proof. split; [cbn; repeat split; try lia; discriminate | vm_compute; reflexivity]. Qed.
