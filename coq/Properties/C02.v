(* Properties/C02.v — C02: only validated, provider-issued tokens are bound and forwarded. *)
From AS Require Import Base.Str Http.Cookie Oidc.Types Oidc.Prog Oidc.Handler Oidc.Spec Oidc.Monitors Oidc.Store
  Oidc.History Proofs.RunSpecs Proofs.P01 Proofs.PHandler Proofs.PHist Proofs.Examples.

(* For every run of a check (every behaviour of the environment): tokens are written to the session
   store in exactly two situations, each with a fully determined trace.  (1) Callback: the login state of
   the PRESENTED session was read, its state equals the request's, the token endpoint was called with
   that session's verifier and answered with a body that passed the response checks, the ID token OF THAT
   ANSWER parses, carries the nonce stored for this session, an audience containing the client id and a
   signature that verifies under the filter's keys; the login state was cleared; then exactly those
   tokens are written under the presented id.  (2) Refresh: the merged tokens (Spec.merged_tokens) whose
   ID token - the answer's if it parses, else the stored one - validated.  Nothing else writes tokens. *)
Theorem C02_bound_implies_validated :
  forall c db now r answers o tr rest,
    run (process c db now r) answers = Some (o, tr, rest) -> typed_trace tr = true ->
    settok_shape c db now r tr = true.
Proof. exact settok_ok. Qed.
Print Assumptions C02_bound_implies_validated.

(* what is forwarded on OK is the header encoding of the tokens read from, or just written to, the
   presented session (second half of ok_shape) *)
Theorem C02_forwarded_eq_bound :
  forall c db now r answers h tr rest,
    run (process c db now r) answers = Some (OAllow h, tr, rest) -> ok_shape c db now r tr h = true.
Proof. exact ok_justified. Qed.
Print Assumptions C02_forwarded_eq_bound.

(* the header encoding: the ID token always, under its header with its preamble; the access token
   exactly when forwarding is configured and one is bound (distinct header names) *)
Theorem C02_header_encoding :
  forall c t,
    match access_token c with
    | None => tokens_to_headers c t = [(tc_header (id_token c), header_value (tc_preamble (id_token c)) (t_id t))]
    | Some at_ =>
        (t_access t = "" -> tokens_to_headers c t = [(tc_header (id_token c), header_value (tc_preamble (id_token c)) (t_id t))]) /\
        (t_access t <> "" -> tc_header at_ <> tc_header (id_token c) ->
         lookup (tc_header (id_token c)) (tokens_to_headers c t) = Some (header_value (tc_preamble (id_token c)) (t_id t)) /\
         lookup (tc_header at_) (tokens_to_headers c t) = Some (header_value (tc_preamble at_) (t_access t)) /\
         length (tokens_to_headers c t) = 2)
    end.
Proof. exact header_encoding. Qed.
Print Assumptions C02_header_encoding.

(* over histories: every ID token held by the abstract session map has a verified signature, an audience
   containing the client id and parses - an invariant of every history from the empty map *)
Theorem C02_store_holds_only_validated :
  forall c db os st,
    hrun c db empty_store os st ->
    forall sid t, tok_of st sid = Some t -> id_token_sound c db (t_id t) = true.
Proof. exact store_only_validated. Qed.
Print Assumptions C02_store_holds_only_validated.

(* the equal-header-name corner: the access token overwrites the ID token (what the code does) *)
Example C02_same_header_drops_id_token :
  let c := {| client_id := "c"; client_secret := "s"; callback_uri := ""; callback := callback ex_c; auth_uri := ""; token_uri := "";
              scopes := []; cookie_prefix := ""; id_token := {| tc_header := "x-tok"; tc_preamble := "ID" |};
              access_token := Some {| tc_header := "x-tok"; tc_preamble := "AT" |}; logout := None |} in
  tokens_to_headers c ex_old = [("x-tok", "AT AT1")].
Proof. vm_compute. reflexivity. Qed.

Example C02_example_forged_refresh_not_bound :
  exists o tr, run (process ex_c ex_db 3000 (ex_req "/app" (ex_cookie "S1")))
                 [ATok (Some (Some ex_old)); AIdp (IdpBody {| b_id := "FORGED"; b_access := "AT2"; b_refresh := ""; b_expires_in := 0; b_token_type := "Bearer" |});
                  AAuth (Some None); AJwks true; AUnit true; AGen ex_g; AUnit true]
               = Some (o, tr, []) /\ is_allow o = false /\ has is_set_tok tr = false.
Proof. eexists. eexists. vm_compute. repeat split; reflexivity. Qed.
