(* Properties/C20.v — C20: IdP TLS trust follows the configuration, including CA rotation (decision and bookkeeping
   logic; X.509 and the handshake are Go's, exercised by the correspondence run). *)
From AS Require Import Base.Str Tls.Pool Proofs.P20 Proofs.P20b.

(* a first load of settings builds: configured inline CA -> system roots + that CA, verification on; else CA file ->
   system roots + the file's content (system roots only when the file is empty), verification on; else the
   requested skip flag (BoolStrValue: bool, or a string read by ParseBool), system roots *)
Theorem C20_trust_matches_config :
  forall pem_ok st s st' i,
    pool_lookup (pool_id s) (pool st) = None -> load pem_ok st s = (st', LObj i) ->
    nth_error (objs st') i = expected st s.
Proof. exact first_load_builds_expected. Qed.
Print Assumptions C20_trust_matches_config.

Theorem C20_skip_only_if_requested_and_no_ca :
  forall st s t, expected st s = Some t -> tc_insecure t = true ->
    ts_ca s = "" /\ ts_file s = "" /\ boolstr (ts_skip s) = true.
Proof. exact skip_only_if_requested_and_no_ca. Qed.
Print Assumptions C20_skip_only_if_requested_and_no_ca.

Theorem C20_identical_settings_share :
  forall pem_ok st s st' i, load pem_ok st s = (st', LObj i) -> load pem_ok st' s = (st', LObj i).
Proof. exact identical_settings_share. Qed.
Print Assumptions C20_identical_settings_share.

Theorem C20_distinct_settings_distinct :
  forall pem_ok st s1 s2 st1 st2 i j,
    pool_wf st -> pool_id s1 <> pool_id s2 ->
    load pem_ok st s1 = (st1, LObj i) -> load pem_ok st1 s2 = (st2, LObj j) ->
    pool_lookup (pool_id s1) (pool st) = None -> pool_lookup (pool_id s2) (pool st) = None -> i <> j.
Proof. exact distinct_settings_distinct. Qed.
Print Assumptions C20_distinct_settings_distinct.

(* the pool key used to be the unseparated concatenation of the fields, under which distinct settings coincide *)
Example C20_old_pool_key_collides :
  let s1 := {| ts_ca := ""; ts_file := "/d/a"; ts_skip := None; ts_interval := 10000000000; ts_interval_str := "10s" |} in
  let s2 := {| ts_ca := ""; ts_file := "/d/a1"; ts_skip := None; ts_interval := 0; ts_interval_str := "0s" |} in
  old_pool_id s1 = old_pool_id s2 /\ pool_id s1 <> pool_id s2.
Proof. split; [vm_compute; reflexivity | discriminate]. Qed.

(* one configuration watching a CA file: after a rewrite, the next tick of its watcher puts the new content into
   the POOLED object (the one every client built from these settings holds) *)
Theorem C20_rotation :
  forall pem_ok fs s c c',
    ts_ca s = "" -> ts_file s <> "" -> (0 < ts_interval s)%Z ->
    lookup (ts_file s) fs = Some c -> c <> "" -> pem_ok c = true -> pem_ok c' = true -> c' <> c ->
    let st1 := fst (load pem_ok (pinit fs) s) in
    snd (load pem_ok (pinit fs) s) = LObj 0 /\
    nth_error (objs st1) 0 = Some {| tc_extra_ca := Some c; tc_insecure := false |} /\
    nth_error (objs (tick pem_ok (rewrite_file st1 (ts_file s) c'))) 0 = Some {| tc_extra_ca := Some c'; tc_insecure := false |}.
Proof. exact rotation_reaches_pooled_config. Qed.
Print Assumptions C20_rotation.

(* rotation, for every history: after ANY sequence of loads (of settings from a list S in which the interval text
   determines the interval), rewrites of any file and ticks, when the CA file of pooled settings that watch it is
   rewritten with usable content, the next tick puts that content into the pooled object of those settings *)
Theorem C20_rotation_all_histories :
  forall pem_ok, pem_ok "" = false ->
  forall S, (forall s1 s2, In s1 S -> In s2 S -> pool_id s1 = pool_id s2 -> ts_interval s1 = ts_interval s2) ->
  forall fs ops s k c',
    loads_from_S S ops -> In s S -> watched s ->
    let st := fold_left (papply pem_ok) ops (pinit fs) in
    pool_lookup (pool_id s) (pool st) = Some k -> pem_ok c' = true ->
    Good (objs (tick pem_ok (rewrite_file st (ts_file s) c'))) k c'.
Proof. intros pem_ok E S C fs ops s k c'. exact (rotation_all_histories pem_ok E S C fs ops s k c'). Qed.
Print Assumptions C20_rotation_all_histories.

(* a watcher is superseded - and then stops - exactly when the same settings register again for the same file (a
   retry after a failed load); registrations of other settings leave it running *)
Theorem C20_superseded_watcher_stops :
  forall id ws w, In w (cancel_watchers id ws) -> w_id w = id -> w_alive w = false.
Proof. exact cancel_stops. Qed.
Print Assumptions C20_superseded_watcher_stops.

Theorem C20_other_settings_do_not_stop_a_watcher :
  forall id ws w, In w ws -> w_id w <> id -> In w (cancel_watchers id ws).
Proof. exact cancel_spares. Qed.
Print Assumptions C20_other_settings_do_not_stop_a_watcher.

(* two different settings on one file: both pooled configurations follow the file (before the watcher was keyed by the
   settings, the later registration stopped the earlier watcher and the first configuration kept the old CA: the
   finding C20/same-file-watcher-superseded) *)
Example C20_two_settings_one_file_both_follow :
  let pem := fun _ : string => true in
  let s1 := {| ts_ca := ""; ts_file := "f"; ts_skip := None; ts_interval := 40; ts_interval_str := "40ns" |} in
  let s2 := {| ts_ca := ""; ts_file := "f"; ts_skip := None; ts_interval := 80; ts_interval_str := "80ns" |} in
  let st := tick pem (rewrite_file (fst (load pem (fst (load pem (pinit [("f", "A")]) s1)) s2)) "f" "B") in
  map tc_extra_ca (objs st) = [Some "B"; Some "B"].
Proof. vm_compute. reflexivity. Qed.
