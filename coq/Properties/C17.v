(* Properties/C17.v — C17: configuration loading. *)
From AS Require Import Base.Str Config.Loader Proofs.P17.

(* loading never panics: for every decoded document the loader model ends in Ok or Error *)
Theorem C17_no_panic : forall k, load k <> Panic.
Proof. exact load_no_panic. Qed.
Print Assumptions C17_no_panic.

(* accepted means safe to run: every chain holds at most one OIDC filter, every filter is a mock or an OIDC
   filter that is fully resolved - scopes contain openid; the callback URI is non-empty, parses and its path is
   not root; a logout block has a non-empty, non-root path different from the callback's; the client id is
   non-empty and colon-free; there is a client-secret source (non-empty literal, or a named reference); an
   ID-token header; and either a discovery URI or authorization URI + token URI + a key source - no override or
   untyped filter is left, the default block is consumed, there is at least one chain *)
Theorem C17_accept_sound :
  forall k k', load k = Ok k' ->
    forallb chain_resolved (chains k') = true /\ default_oidc k' = None /\ threads k' = 1 /\ chains k' <> [].
Proof. exact load_accept_sound. Qed.
Print Assumptions C17_accept_sound.

(* overrides are merged over the default field by field (the definition of merge_oidc IS proto.Merge on
   this message; these are its characteristic laws) *)
Theorem C17_merge_fieldwise :
  forall d s,
    o_client_id (merge_oidc d s) = (if String.eqb (o_client_id s) "" then o_client_id d else o_client_id s) /\
    u_text (o_callback_uri (merge_oidc d s)) = (if String.eqb (u_text (o_callback_uri s)) "" then u_text (o_callback_uri d) else u_text (o_callback_uri s)) /\
    o_scopes (merge_oidc d s) = (o_scopes d ++ o_scopes s)%list /\
    o_secret (merge_oidc d s) = msecret (o_secret d) (o_secret s) /\
    (o_logout s = None -> o_logout (merge_oidc d s) = o_logout d) /\
    (o_id_token s = None -> o_id_token (merge_oidc d s) = o_id_token d).
Proof.
  intros d s. cbn [merge_oidc o_client_id o_callback_uri o_scopes o_secret o_logout o_id_token]. unfold mstr, murl, is_unset.
  repeat split; try reflexivity.
  - destruct (u_text (o_callback_uri s) =? ""); reflexivity.
  - intros ->. destruct (o_logout d); reflexivity.
  - intros ->. destruct (o_id_token d); reflexivity.
Qed.
Print Assumptions C17_merge_fieldwise.

(* the defect that was repaired: a filter without a type used to reach applyOIDCDefaults(nil); it is an error now *)
Example C17_untyped_filter_is_an_error :
  load {| chains := [{| ch_name := "x"; ch_match := None; ch_filters := [FNoType] |}]; listen_address := "0.0.0.0"; listen_ip_ok := true;
          listen_port := 10003; log_level := "info"; threads := 0; default_oidc := None; allow_unmatched := false; health_port := 10004 |} = Error.
Proof. vm_compute. reflexivity. Qed.
Example C17_accepts_something :
  exists k', load {| chains := [{| ch_name := "x"; ch_match := None; ch_filters := [FMock true] |}]; listen_address := "0.0.0.0"; listen_ip_ok := true;
          listen_port := 10003; log_level := "info"; threads := 0; default_oidc := None; allow_unmatched := false; health_port := 10004 |} = Ok k'.
Proof. eexists. vm_compute. reflexivity. Qed.
