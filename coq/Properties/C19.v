(* Properties/C19.v — C19: Kubernetes client-secret changes reach exactly the filters that reference them. *)
From AS Require Import Base.Str K8s.Secrets Proofs.P19.

(* For every configuration the controller accepts at start-up, every initial cluster state and EVERY history of
   Secret events (create / update / delete / being deleted / key-less / empty, in any namespace, referenced or not,
   plus resyncs), and for every filter: after each event the filter's effective client secret is exactly what the
   per-filter reference says - it starts as configured and is replaced by the delivered value whenever an event for the
   Secret it referenced AT START-UP delivers a non-empty client-secret of a Secret that is not being deleted.  In
   particular a second rotation works (the reference is remembered although the oneof has flipped to a literal),
   all filters sharing a Secret follow it, and events of other names or namespaces change nothing. *)
Theorem C19_tracks_reference :
  forall cns fs m, load_secrets cns fs = Some m ->
    forall es cl cur j s0 sc, nth_error fs j = Some s0 -> nth_error cur j = Some sc ->
      map (fun obs => nth j obs "") (run_events m (cl, cur) es) = ref_filter (watched cns s0) sc cl es.
Proof. exact tracks_reference. Qed.
Print Assumptions C19_tracks_reference.

(* a filter that references no Secret (literal secret, no secret, or an empty reference name) is never touched *)
Theorem C19_unreferenced_untouched :
  forall sc cl es, ref_filter None sc cl es = map (fun _ => effective sc) es.
Proof. exact ref_filter_unwatched. Qed.
Print Assumptions C19_unreferenced_untouched.

(* a reference into another namespace is refused at start-up *)
Theorem C19_cross_ns_refused :
  forall cns fs ns name, In (SrcRef ns name) fs -> name <> "" -> ns <> "" -> ns <> cns -> load_secrets cns fs = None.
Proof. exact cross_namespace_refused. Qed.
Print Assumptions C19_cross_ns_refused.

Example C19_example_two_rotations_shared_secret :
  let fs := [SrcRef "" "sec-a"; SrcLiteral "lit"; SrcRef "ns" "sec-a"] in
  match load_secrets "ns" fs with
  | Some m => run_events m ([], fs)
                [EvApply "ns" "sec-a" (Some {| so_deleting := false; so_data := Some "v1" |});
                 EvApply "other" "sec-a" (Some {| so_deleting := false; so_data := Some "foreign" |});
                 EvApply "ns" "sec-a" (Some {| so_deleting := false; so_data := Some "v2" |});
                 EvApply "ns" "sec-a" (Some {| so_deleting := true; so_data := Some "dying" |})]
              = [["v1"; "lit"; "v1"]; ["v1"; "lit"; "v1"]; ["v2"; "lit"; "v2"]; ["v2"; "lit"; "v2"]]
  | None => False
  end.
Proof. vm_compute. reflexivity. Qed.
