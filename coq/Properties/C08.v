(* Properties/C08.v — property theorems only. *)
From AS Require Import Base.Str Server.Chain Proofs.P08.

(* For every chain list, flag, header map and every behaviour of the filters, the Check loop
   computes what the reference evaluator computes: verdict AND the list of filters evaluated. *)
Theorem C08_check_eq_ref :
  forall (run_filter : nat -> fres) triggered cs allow_unmatched h,
    check run_filter triggered cs allow_unmatched h = ref_eval run_filter triggered cs allow_unmatched h.
Proof. exact check_eq_ref. Qed.
Print Assumptions C08_check_eq_ref.

Theorem C08_first_match_wins :
  forall run_filter pre c post au h,
    (forall c', In c' pre -> matches (c_match c') h = false) ->
    matches (c_match c) h = true ->
    check run_filter true (pre ++ c :: post) au h = check run_filter true [c] au h.
Proof. exact first_match_wins. Qed.
Print Assumptions C08_first_match_wins.

Theorem C08_all_filters_must_allow :
  forall run_filter c au h post,
    matches (c_match c) h = true -> c_filters c <> [] ->
    fst (check run_filter true (c :: post) au h) = VAllowChain ->
    forall f, In f (c_filters c) -> run_filter f = FOk.
Proof. exact allowed_only_if_all_allow. Qed.
Print Assumptions C08_all_filters_must_allow.

Theorem C08_stops_at_first_refusal :
  forall run_filter c au h post f pre rest,
    matches (c_match c) h = true ->
    c_filters c = (pre ++ f :: rest)%list ->
    (forall g, In g pre -> run_filter g = FOk) -> run_filter f <> FOk ->
    snd (check run_filter true (c :: post) au h) = (pre ++ [f])%list.
Proof. exact stops_at_first_refusal. Qed.
Print Assumptions C08_stops_at_first_refusal.

Theorem C08_unmatched_default :
  forall run_filter cs au h,
    (forall c, In c cs -> matches (c_match c) h = false) ->
    check run_filter true cs au h = (if au then VAllowBare else VNoChain, []).
Proof. exact unmatched_default. Qed.
Print Assumptions C08_unmatched_default.

Example C08_example :
  let rf := fun f => match f with 2 => FDenied | _ => FOk end in
  let cs := [ {| c_match := Some {| m_header := "X-Tenant"; m_crit := CritEq "a" |}; c_filters := [0] |};
              {| c_match := Some {| m_header := "x-tenant"; m_crit := CritPrefix "b" |}; c_filters := [1; 2; 3] |};
              {| c_match := None; c_filters := [4] |} ] in
  check rf true cs false [("x-tenant", "bc")] = (VDeniedBy 2, [1; 2]) /\
  check rf true cs false [("x-tenant", "a")] = (VAllowChain, [0]) /\
  check rf true cs false [] = (VAllowChain, [4]).
Proof. vm_compute. auto. Qed.
