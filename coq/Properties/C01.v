(* placeholder until the proofs are in *)
From AS Require Import Oidc.Handler.
