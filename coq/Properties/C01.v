(* Properties/C01.v — C01, fail-closed.  Property theorems only. *)
From AS Require Import Base.Str Http.Cookie Oidc.Types Oidc.Prog Oidc.Handler Oidc.Spec Oidc.Monitors Oidc.Store
  Proofs.P01 Proofs.Examples.

(* For every configuration, token universe, clock reading, request and EVERY list of environment
   answers - that is every behaviour of session store, token endpoint, key source and generator, any
   failure at any position included - an OK verdict has one of exactly two shapes: (1) the only effect
   was reading tokens for the presented (non-empty) session id, the store returned tokens, they are
   unexpired now and the forwarded headers are theirs; (2) tokens expired, a refresh token present, the
   refresh exchange was answered with a decodable valid body, the merged ID token validated, the merged
   tokens were stored for the same id successfully, and the forwarded headers are the merged ones. *)
Theorem C01_ok_justified :
  forall c db now r answers h tr rest,
    run (process c db now r) answers = Some (OAllow h, tr, rest) -> ok_shape c db now r tr h = true.
Proof. exact ok_justified. Qed.
Print Assumptions C01_ok_justified.

(* a failed answer anywhere in the check - store call, token endpoint, key lookup - rules out OK *)
Theorem C01_any_failure_denies :
  forall c db now r answers o tr rest,
    run (process c db now r) answers = Some (o, tr, rest) -> all_answers_ok tr = false -> is_allow o = false.
Proof. exact fail_closed. Qed.
Print Assumptions C01_any_failure_denies.

Theorem C01_no_cookie_no_ok :
  forall c db now r answers o tr rest,
    run (process c db now r) answers = Some (o, tr, rest) -> request_sid c r = "" -> is_allow o = false.
Proof. exact no_cookie_no_ok. Qed.
Print Assumptions C01_no_cookie_no_ok.

(* against the abstract session map: OK needs a session that holds tokens when the check starts,
   unexpired - or expired, refreshable and renewed by this very check, the renewed tokens being what the
   map holds afterwards *)
Theorem C01_ok_needs_live_session :
  forall c db now r answers h tr rest st st',
    run (process c db now r) answers = Some (OAllow h, tr, rest) -> steps st tr st' ->
    exists t, tok_of st (request_sid c r) = Some t /\ request_sid c r <> "" /\
      ((tokens_expired c db now t = Some false /\ st' = st /\ h = tokens_to_headers c t) \/
       (tokens_expired c db now t = Some true /\ t_refresh t <> "" /\
        exists b oa, In (EIdp (refresh_request c (t_refresh t)), AIdp (IdpBody b)) tr /\
          valid_refresh_tokens b = true /\
          validated c db (t_id (merged_tokens db now t b)) (nonce_of oa) false = true /\
          tok_of st' (request_sid c r) = Some (merged_tokens db now t b) /\
          h = tokens_to_headers c (merged_tokens db now t b))).
Proof. exact ok_needs_live_session. Qed.
Print Assumptions C01_ok_needs_live_session.

(* non-vacuity: both OK shapes occur in the example world, and a failing store turns OK into a denial *)
Example C01_example_fresh :
  exists h, run (process ex_c ex_db 1000 (ex_req "/app?x=1" (ex_cookie "S1"))) [ATok (Some (Some ex_old))]
            = Some (OAllow h, [(EGetTok "S1", ATok (Some (Some ex_old)))], []).
Proof. eexists. vm_compute. reflexivity. Qed.
Example C01_example_refreshed :
  exists h tr, run (process ex_c ex_db 3000 (ex_req "/app" (ex_cookie "S1")))
                 [ATok (Some (Some ex_old)); AIdp (IdpBody ex_body); AAuth (Some None); AJwks true; AUnit true]
               = Some (OAllow h, tr, []) /\ length tr = 5.
Proof. eexists. eexists. vm_compute. split; reflexivity. Qed.
Example C01_example_store_failure_denies :
  exists d tr, run (process ex_c ex_db 3000 (ex_req "/app" (ex_cookie "S1")))
                 [ATok (Some (Some ex_old)); AIdp (IdpBody ex_body); AAuth (Some None); AJwks true; AUnit false]
               = Some (ODeny d, tr, []).
Proof. eexists. eexists. vm_compute. reflexivity. Qed.
