(* Properties/C14.v — C14: no credential reaches the user agent. *)
From AS Require Import Base.Str Http.Cookie Oidc.Types Oidc.Prog Oidc.Handler Oidc.Spec Oidc.Monitors Oidc.Store
  Proofs.RunSpecs Proofs.P01 Proofs.PHandler Proofs.PSecrets Proofs.Examples.

(* every denial / redirect is assembled from public material only: the fixed no-cache headers, one of
   three fixed bodies, and as Location/Set-Cookie either (authorization request of the tuple drawn in
   this check, session cookie with its id), or (configured logout redirect, deletion cookie), or the URL
   stored with the login state read in this check.  In particular no header or body is computed from the
   client secret, a code verifier, or any token. *)
Theorem C14_denials_are_public :
  forall c db now r answers o tr rest,
    run (process c db now r) answers = Some (o, tr, rest) -> typed_trace tr = true ->
    deny_is_public c tr o = true.
Proof. exact deny_public_ok. Qed.
Print Assumptions C14_denials_are_public.

(* ... and that public material - the authorization request, the session cookie, the logout redirect - is the same
   whatever the client secret and the code verifier are: replacing them changes none of it *)
Theorem C14_public_material_ignores_secrets :
  forall c s v g,
    authorization_url (with_secret c s) (with_verifier g v) = authorization_url c g /\
    set_cookie_header (cookie_prefix (with_secret c s)) (g_sid (with_verifier g v)) SessionCookie = set_cookie_header (cookie_prefix c) (g_sid g) SessionCookie /\
    logout (with_secret c s) = logout c.
Proof. exact public_material_ignores_secrets. Qed.
Print Assumptions C14_public_material_ignores_secrets.

(* an OK adds nothing but the configured token headers *)
Theorem C14_ok_adds_only_tokens :
  forall c db now r answers h tr rest,
    run (process c db now r) answers = Some (OAllow h, tr, rest) ->
    forall k v, In (k, v) h ->
      k = tc_header (id_token c) \/ (exists at_, access_token c = Some at_ /\ k = tc_header at_).
Proof. exact ok_only_token_headers. Qed.
Print Assumptions C14_ok_adds_only_tokens.

Example C14_example_redirect_has_no_verifier :
  exists d tr, run (process ex_c ex_db 1000 (ex_req "/app" "")) [AGen ex_g; AUnit true] = Some (ODeny d, tr, []) /\
            lookup "location" (d_headers d) =
              Some "https://idp.test/auth?tenant=t 1&client_id=client-1&code_challenge=CH1&code_challenge_method=S256&nonce=N1&redirect_uri=https%3A%2F%2Fapp.test%2Fcallback&response_type=code&scope=openid+email&state=T1".
Proof. eexists. eexists. vm_compute. split; reflexivity. Qed.
