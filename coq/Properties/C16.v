(* Properties/C16.v — C16: freedom from data races (PARTIAL: see DESIGN).
   The theorem is the soundness of the lock discipline that the per-run obligation (Corr/C16.v over the summary
   regenerated from the sources) checks location by location: in ANY execution - any number of threads, any
   interleaving, any length - in which the lock is acquired only when free and released only by its holder, two
   accesses to one location by different threads, each made while its thread holds the lock, have between them a
   release of the lock by the first thread followed by an acquisition by the second.  Unlock-before-Lock is a
   synchronises-with edge of the Go memory model, so the accesses are ordered by happens-before: not a data race. *)
From AS Require Import Base.Str Conc.Lockset.

Theorem C16_lockset_sound :
  forall (l : nat) (pre mid post : list ev) (t1 t2 x : nat) (w1 w2 : bool),
    wf l None (pre ++ Acc t1 x w1 :: mid ++ Acc t2 x w2 :: post) ->
    t1 <> t2 ->
    after l None pre = Some t1 ->
    after l None (pre ++ Acc t1 x w1 :: mid) = Some t2 ->
    exists a b c, mid = (a ++ Rel t1 l :: b ++ Acq t2 l :: c)%list.
Proof. exact lockset_sound. Qed.
Print Assumptions C16_lockset_sound.

(* the per-run obligation and the discipline together: whenever the obligation evaluates to true on the regenerated
   summary, two conflicting serving-phase accesses that the summary lists for a location outside the committed list
   are BOTH under the lock, hence - in every execution that performs them under the lock where the summary says so -
   ordered by a release/acquire pair *)
Theorem C16_obligation_sound :
  forall known s l pre mid post t1 t2 x a1 a2,
  obligation known s = true -> In a1 s -> In a2 s -> a_loc a1 = a_loc a2 -> ~ In (a_loc a1) known ->
  a_startup a1 = false -> a_startup a2 = false -> (a_write a1 = true \/ a_write a2 = true) ->
  wf l None (pre ++ Acc t1 x (a_write a1) :: mid ++ Acc t2 x (a_write a2) :: post) -> t1 <> t2 ->
  (a_locked a1 = true -> after l None pre = Some t1) ->
  (a_locked a2 = true -> after l None (pre ++ Acc t1 x (a_write a1) :: mid) = Some t2) ->
  exists a b c, mid = (a ++ Rel t1 l :: b ++ Acq t2 l :: c)%list.
Proof. exact obligation_sound. Qed.
Print Assumptions C16_obligation_sound.

(* the hypotheses are satisfiable, and the conclusion is about a real hand-over: thread 1 writes x under lock 7,
   releases it, thread 2 takes it and reads x *)
Example C16_handover_example :
  let tr := [Acq 1 7; Acc 1 0 true; Rel 1 7; Acq 2 7; Acc 2 0 false; Rel 2 7] in
  wf 7 None tr /\ after 7 None [Acq 1 7] = Some 1 /\ after 7 None [Acq 1 7; Acc 1 0 true; Rel 1 7; Acq 2 7] = Some 2.
Proof. cbn. repeat split; reflexivity. Qed.

(* the obligation distinguishes: a map written under its lock everywhere passes, the same map read outside it fails *)
Example C16_obligation_accepts_locked :
  obligation [] [ {| a_loc := "p.T.m"; a_func := "p.T.set"; a_write := true; a_locked := true; a_startup := false |};
                  {| a_loc := "p.T.m"; a_func := "p.T.get"; a_write := false; a_locked := true; a_startup := false |};
                  {| a_loc := "p.T.m"; a_func := "p.NewT"; a_write := true; a_locked := false; a_startup := true |} ] = true.
Proof. reflexivity. Qed.
Example C16_obligation_rejects_unlocked_read :
  obligation [] [ {| a_loc := "p.T.m"; a_func := "p.T.set"; a_write := true; a_locked := true; a_startup := false |};
                  {| a_loc := "p.T.m"; a_func := "p.T.get"; a_write := false; a_locked := false; a_startup := false |} ] = false.
Proof. reflexivity. Qed.
