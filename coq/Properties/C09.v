(* Properties/C09.v — C09: logout is final. *)
From AS Require Import Base.Str Http.Cookie Oidc.Types Oidc.Prog Oidc.Handler Oidc.Spec Oidc.Monitors Oidc.Store Oidc.History Oidc.Conc
  Proofs.RunSpecs Proofs.PHandler Proofs.PHist Proofs.P09 Proofs.Examples.

(* the logout answer, for every run: no cookie or successful removal -> the logout redirect (302 to the
   end-session URI, cookie deleted); failed removal -> the session-error denial, never the redirect *)
Theorem C09_logout_response :
  forall c db now r answers o tr rest,
    run (process c db now r) answers = Some (o, tr, rest) -> typed_trace tr = true ->
    r_has_http r = true -> matches_logout c r = true ->
    (request_sid c r = "" /\ tr = [] /\ o = logout_redirect c) \/
    (request_sid c r <> "" /\ tr = [(ERemove (request_sid c r), AUnit true)] /\ o = logout_redirect c) \/
    (request_sid c r <> "" /\ tr = [(ERemove (request_sid c r), AUnit false)] /\ o = session_error).
Proof. exact logout_answer. Qed.
Print Assumptions C09_logout_response.

(* sequential histories: from a map that holds no tokens for sid (the state a successful logout leaves),
   no request with that cookie is OK, for as long as no callback for sid stores tokens - whatever else
   happens in between (other sessions, faults, evictions) *)
Theorem C09_sequential_final :
  forall c db sid st os st2,
    hrun c db st os st2 -> tok_of st sid = None ->
    Forall (fun ob => request_sid c (o_req ob) = sid -> matches_callback c (o_req ob) = true -> has is_set_tok (o_tr ob) = false) os ->
    Forall (fun ob => request_sid c (o_req ob) = sid -> is_allow (o_out ob) = false) os.
Proof. exact logout_final_sequential. Qed.
Print Assumptions C09_sequential_final.

(* ALL schedules, at effect granularity, any number of concurrent checks: the full statement "no check with
   the cookie that performs an effect after the logout's removal is answered OK" is FALSE of the model (and
   of the code): a refresh in flight re-creates the session *)
Theorem C09_concurrent_final_refuted :
  exists st1,
    cexec ex_c ex_db [rf_check; rf_logout] (rf_pre ++ (1, (ERemove "S1", AUnit true)) :: rf_post) rf_store st1 /\
    ct_out rf_logout = logout_redirect ex_c /\
    request_sid ex_c (ct_req rf_check) = "S1" /\ thread_in 0 rf_post = true /\
    is_allow (ct_out rf_check) = true /\ tok_of st1 "S1" = Some rf_merged_tokens.
Proof. exact logout_final_concurrent_refuted. Qed.
Print Assumptions C09_concurrent_final_refuted.

(* ... and it holds in every schedule without a stale write: if no check that had already performed an effect
   before the removal writes under the session id after it (and the generator does not hand the id out
   again), then no check with that cookie that performs an effect after the removal is answered OK *)
Theorem C09_concurrent_partial :
  forall c db ts pre l sid post st0 st1,
    cexec c db ts (pre ++ (l, (ERemove sid, AUnit true)) :: post) st0 st1 ->
    (forall j, thread_in j (pre ++ (l, (ERemove sid, AUnit true)) :: post) = true -> j < length ts) ->
    (forall j g, In (j, (EGen, AGen g)) (pre ++ (l, (ERemove sid, AUnit true)) :: post) -> g_sid g <> sid) ->
    (forall j e a, In (j, (e, a)) post -> writes_under sid e = true -> thread_in j pre = false /\ j <> l) ->
    forall j t, nth_error ts j = Some t -> request_sid c (ct_req t) = sid -> thread_in j post = true ->
    is_allow (ct_out t) = false.
Proof. exact logout_final_concurrent. Qed.
Print Assumptions C09_concurrent_partial.
