(* Properties/C07.v — property theorems only. *)
From AS Require Import Base.Str Http.PathSplit Server.Trigger Proofs.P07.

(* Authentication is triggered exactly when the documented rule holds of the PATH COMPONENT,
   for every rule set, every request target and every regular-expression engine. *)
Theorem C07_trigger_spec :
  forall (rx : string -> string -> bool) (rules : list rule) (target : string),
    must_trigger rx rules target = true <-> trigger_spec rx rules (path_of target).
Proof. exact must_trigger_spec. Qed.
Print Assumptions C07_trigger_spec.

(* Nothing appended after '?' or '#' changes the decision. *)
Theorem C07_query_irrelevant :
  forall (rx : string -> string -> bool) (rules : list rule) (p q f : string),
    has_char c_q p = false -> has_char c_hash p = false ->
    must_trigger rx rules (p ++ String c_q q) = must_trigger rx rules p /\
    must_trigger rx rules (p ++ String c_hash f) = must_trigger rx rules p /\
    must_trigger rx rules (p ++ String c_q (q ++ String c_hash f)) = must_trigger rx rules p.
Proof. exact query_fragment_irrelevant. Qed.
Print Assumptions C07_query_irrelevant.

(* The splitter: parts recompose to the target, and the path part holds neither '?' nor '#'. *)
Theorem C07_path_split :
  forall full, recompose full = full /\
               has_char c_q (path_of full) = false /\ has_char c_hash (path_of full) = false.
Proof. intros full. split; [apply path_split_recompose|split; [apply path_no_q|apply path_no_hash]]. Qed.
Print Assumptions C07_path_split.

(* non-vacuity: a protected path with an excluded suffix; the appended query does not bypass it *)
Example C07_example :
  let rules := [ {| excluded := [MSuffix ".css"]; included := [MPrefix "/admin"] |} ] in
  must_trigger (fun _ _ => false) rules "/admin?x=.css" = true /\
  must_trigger (fun _ _ => false) rules "/admin#.css" = true /\
  must_trigger (fun _ _ => false) rules "/admin/a.css" = false.
Proof. vm_compute. auto. Qed.
