(* Properties/C13.v — C13: well-formed redirects, exact restoration of the requested URL. *)
From AS Require Import Base.Str Http.PathSplit Http.Cookie Url.Escape Oidc.Types Oidc.Prog Oidc.Handler Oidc.Spec Oidc.Monitors
  Proofs.RunSpecs Proofs.PHandler Proofs.PUrl Proofs.P13 Proofs.Examples.

(* the codec, for ALL byte strings *)
Theorem C13_escape_roundtrip : forall s, query_unescape (query_escape s) = Some s.
Proof. exact escape_roundtrip. Qed.
Print Assumptions C13_escape_roundtrip.

Theorem C13_encode_parse_roundtrip : forall l, l <> [] -> parse_query (values_encode l) = (sort_kv l, false).
Proof. exact values_encode_parse. Qed.
Print Assumptions C13_encode_parse_roundtrip.

(* the login Location: endpoint kept, and the query decodes to EXACTLY the eight pairs with the exact
   configured / issued values, whatever bytes they contain; no fragment is introduced *)
Theorem C13_location_wellformed :
  forall c g, has_char c_q (auth_uri c) = false ->
    before c_q (authorization_url c g) = auth_uri c /\
    has_char c_hash (odflt (after c_q (authorization_url c g))) = false /\
    parse_query (odflt (after c_q (authorization_url c g))) = (sort_kv (login_pairs c g), false).
Proof. exact location_plain_endpoint. Qed.
Print Assumptions C13_location_wellformed.

(* an endpoint with a query of its own keeps it *)
Theorem C13_location_endpoint_query_retained :
  forall c g base q0, auth_uri c = base ++ String c_q q0 -> has_char c_q base = false ->
    before c_q (authorization_url c g) = base /\
    parse_query (odflt (after c_q (authorization_url c g))) =
      ((fst (parse_query q0) ++ sort_kv (login_pairs c g))%list, snd (parse_query q0)).
Proof. exact location_endpoint_with_query. Qed.
Print Assumptions C13_location_endpoint_query_retained.

(* every 302 of every run: no-cache directives; login redirect = the authorization request above with
   the requested URL stored byte for byte; post-login redirect = the stored URL byte for byte; else logout *)
Theorem C13_redirects :
  forall c db now r answers o tr rest,
    run (process c db now r) answers = Some (o, tr, rest) -> typed_trace tr = true ->
    redirect_shape c r tr o = true.
Proof. exact redirect_shape_ok. Qed.
Print Assumptions C13_redirects.

Example C13_example :
  parse_query (odflt (after c_q (authorization_url ex_c ex_g))) =
  ([("tenant", "t 1"); ("client_id", "client-1"); ("code_challenge", "CH1"); ("code_challenge_method", "S256"); ("nonce", "N1");
    ("redirect_uri", "https://app.test/callback"); ("response_type", "code"); ("scope", "openid email"); ("state", "T1")], false).
Proof. vm_compute. reflexivity. Qed.
Example C13_openid_scope_is_a_loader_duty : scopes ex_c = ["openid"; "email"].
Proof. reflexivity. Qed.
