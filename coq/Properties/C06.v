(* Properties/C06.v — C06: unpredictability of session ids, state and nonce (PARTIAL: see DESIGN). *)
From AS Require Import Base.Str Gen.Generator.

(* what a time-seeded generator means: if the whole tuple is a deterministic function of a seed that lies in a
   window the attacker knows, then from the public part (state, nonce, challenge) alone the attacker computes a list
   of at most |window| candidates that always contains the session id *)
Theorem C06_time_seeded_predictable :
  forall (seed out : Type) (gen : seed -> string * out) (out_eqb : out -> out -> bool),
    (forall x, out_eqb x x = true) ->
    forall window s, In s window ->
      In (fst (gen s)) (attack seed out gen out_eqb window (snd (gen s))) /\
      length (attack seed out gen out_eqb window (snd (gen s))) <= length window.
Proof. exact time_seeded_predictable. Qed.
Print Assumptions C06_time_seeded_predictable.

(* what the obligation [secure summary] buys: when the session id is made from CSPRNG draws of its own (one draw
   sequence per id: rejection sampling) and everything disclosed outside the cookie is a function of the OTHER draws
   and the time, then for every public view any two candidate ids are equally compatible with it (a one-to-one
   correspondence between the entropy values producing (view, id1) and (view, id2)) *)
Theorem C06_csprng_view_independent :
  forall (draws rest : Type) (sid_of : draws -> string) (view : rest -> Z -> string) (d1 d2 : draws),
    exists f : draws * rest -> draws * rest,
      (forall r t, view (snd (f (d1, r))) t = view r t) /\
      (forall r, sid_of (fst (f (d1, r))) = sid_of d2) /\
      (forall r r', f (d1, r) = f (d1, r') -> r = r').
Proof. intros. apply csprng_view_independent. Qed.
Print Assumptions C06_csprng_view_independent.

(* the two verdicts of the per-run obligation, on the two generators the repository has had *)
Example C06_math_rand_seeded_with_the_clock_is_rejected :
  secure [ {| os_name := "session_id"; os_sources := [TimeSeededPrng]; os_stateful_stream := Some "rand" |};
           {| os_name := "nonce"; os_sources := [TimeSeededPrng]; os_stateful_stream := Some "rand" |};
           {| os_name := "state"; os_sources := [TimeSeededPrng]; os_stateful_stream := Some "rand" |};
           {| os_name := "code_verifier"; os_sources := [Csprng]; os_stateful_stream := None |} ] = false.
Proof. reflexivity. Qed.
Example C06_crypto_rand_is_accepted :
  secure [ {| os_name := "session_id"; os_sources := [Csprng]; os_stateful_stream := None |};
           {| os_name := "nonce"; os_sources := [Csprng]; os_stateful_stream := None |};
           {| os_name := "state"; os_sources := [Csprng]; os_stateful_stream := None |};
           {| os_name := "code_verifier"; os_sources := [Csprng]; os_stateful_stream := None |} ] = true.
Proof. reflexivity. Qed.
