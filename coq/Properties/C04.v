(* Properties/C04.v — C04: state, PKCE and client authentication bind the code to its session. *)
From AS Require Import Base.Str Base.Base64 Http.Cookie Url.Escape Oidc.Types Oidc.Prog Oidc.Handler Oidc.Spec Oidc.Monitors Oidc.Store
  Oidc.History Proofs.RunSpecs Proofs.P01 Proofs.PHandler Proofs.PHist Proofs.Examples.

(* For every run of a check: a token-endpoint call occurs at most once and only as the second effect,
   directly after (a) reading the login state of the PRESENTED session - the request being a callback
   with non-empty state and code, its state equal to the stored one - in which case the request sent is
   exactly code_request(code of the request, verifier of that stored login state): grant
   authorization_code, the configured redirect URI, Basic client credentials; or (b) reading expired,
   refreshable tokens of the presented session, in which case it is the refresh request. *)
Theorem C04_exchange_bound :
  forall c db now r answers o tr rest,
    run (process c db now r) answers = Some (o, tr, rest) -> typed_trace tr = true ->
    idp_calls_shape c db now r tr = true.
Proof. exact idp_calls_ok. Qed.
Print Assumptions C04_exchange_bound.

(* the stored login state is the one issued with this session id: a login state is only ever written
   as new_auth(request, g) under g's own session id, g being drawn in the same check, and the redirect of
   that check carries g's state and challenge (renewal_shape; the challenge is S256(verifier) by the
   generator's contract, checked against golang.org/x/oauth2 in the correspondence run) *)
Theorem C04_state_issued_with_session :
  forall c db now r answers o tr rest,
    run (process c db now r) answers = Some (o, tr, rest) -> typed_trace tr = true ->
    renewal_shape c r tr o = true.
Proof. exact renewal_ok. Qed.
Print Assumptions C04_state_issued_with_session.

(* a callback that stores tokens leaves no login state under the session ... *)
Theorem C04_state_consumed :
  forall c db now r answers o tr rest st st1,
    run (process c db now r) answers = Some (o, tr, rest) -> typed_trace tr = true -> steps st tr st1 ->
    matches_callback c r = true -> has is_set_tok tr = true ->
    auth_of st1 (request_sid c r) = None.
Proof. exact callback_consumes_state. Qed.
Print Assumptions C04_state_consumed.

(* ... and a callback arriving for a session without login state (a replay after completion, or any
   session that did not start this login) performs no exchange, stores nothing and is not OK *)
Theorem C04_replay_no_exchange :
  forall c db now r answers o tr rest st st1,
    run (process c db now r) answers = Some (o, tr, rest) -> typed_trace tr = true -> steps st tr st1 ->
    matches_callback c r = true -> r_has_http r = true -> matches_logout c r = false ->
    auth_of st (request_sid c r) = None ->
    has is_idp tr = false /\ has is_set_tok tr = false /\ is_allow o = false.
Proof. exact no_state_no_exchange. Qed.
Print Assumptions C04_replay_no_exchange.

Example C04_example_exchange :
  exists o tr, run (process ex_c ex_db 1000 (ex_req "/callback?code=CODE%201&state=T1" (ex_cookie "S1")))
                 [AAuth (Some (Some (new_auth (ex_req "/app" "") ex_g))); AIdp (IdpBody {| b_id := "ID2"; b_access := "AT2"; b_refresh := "RT"; b_expires_in := 60; b_token_type := "Bearer" |});
                  AJwks true; AUnit true; AUnit true]
               = Some (o, tr, []) /\ has is_set_tok tr = true /\
               nth_error tr 1 = Some (EIdp (code_request ex_c "CODE 1" "V1"), AIdp (IdpBody {| b_id := "ID2"; b_access := "AT2"; b_refresh := "RT"; b_expires_in := 60; b_token_type := "Bearer" |})).
Proof. eexists. eexists. vm_compute. repeat split; reflexivity. Qed.
Example C04_example_wrong_state_no_exchange :
  exists o tr, run (process ex_c ex_db 1000 (ex_req "/callback?code=C&state=T1x" (ex_cookie "S1")))
                 [AAuth (Some (Some (new_auth (ex_req "/app" "") ex_g)))] = Some (o, tr, []) /\ has is_idp tr = false.
Proof. eexists. eexists. vm_compute. split; reflexivity. Qed.
