(* Properties/C15.v — C15: no input can crash a check (model side). *)
From AS Require Import Base.Str Http.Cookie Oidc.Types Oidc.Prog Oidc.Handler Oidc.Spec Oidc.Monitors
  Proofs.RunSpecs Proofs.PHandler Proofs.Examples.

(* the model marks every place where the Go code would panic on the modelled data with the outcome
   OPanic; no run of the model, for any request and any answers, reaches one *)
Theorem C15_never_panics :
  forall c db now r answers o tr rest,
    run (process c db now r) answers = Some (o, tr, rest) -> o <> OPanic.
Proof. exact never_panics_any. Qed.
Print Assumptions C15_never_panics.

(* with answers of the right kinds every check ends in a well-formed verdict *)
Theorem C15_total :
  forall c db now r answers o tr rest,
    run (process c db now r) answers = Some (o, tr, rest) -> typed_trace tr = true -> no_panic o = true.
Proof. exact never_panics. Qed.
Print Assumptions C15_total.

(* non-vacuity / regression witnesses of the two repaired crashes: JSON null, non-string nonce *)
Example C15_null_body_is_a_denial :
  exists d tr, run (process ex_c ex_db 1000 (ex_req "/callback?code=C&state=T1" (ex_cookie "S1")))
              [AAuth (Some (Some (new_auth (ex_req "/app" "") ex_g))); AIdp IdpUndecodable] = Some (ODeny d, tr, []) /\ d_code d = GInternal.
Proof. eexists. eexists. vm_compute. split; reflexivity. Qed.
Example C15_nonstring_nonce_is_a_denial :
  let db := fun _ : string => {| d_parses := true; d_nonce := NOther; d_aud := ["client-1"]; d_exp := 9000; d_sig_ok := true |} in
  exists d tr, run (process ex_c db 1000 (ex_req "/callback?code=C&state=T1" (ex_cookie "S1")))
              [AAuth (Some (Some (new_auth (ex_req "/app" "") ex_g))); AIdp (IdpBody ex_body)] = Some (ODeny d, tr, []) /\ d_code d = GInvalidArgument.
Proof. eexists. eexists. vm_compute. split; reflexivity. Qed.
