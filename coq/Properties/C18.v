(* Properties/C18.v — C18: OIDC filters are isolated from one another.
   As stated the property is FALSE of the code (the C18_refuted theorems below): the store factory hands one in-memory store to every
   filter without Redis and one Redis store to all filters naming the same server, and a store is indexed by session id
   alone.  What holds, for every configuration, history and cookie naming:
     - C18_ok_has_origin: an OK verdict of a filter is always for a session bound by a filter handed the SAME store;
     - C18_isolated_when_stores_distinct / C18_own_timeouts_when_stores_distinct: the property itself, for
       configurations in which every filter has a store of its own. *)
From AS Require Import Base.Str Http.Cookie Oidc.Types Oidc.Prog Oidc.Handler Oidc.Spec Oidc.Monitors Oidc.Store
  Proofs.Examples Multi.Filters Proofs.P18.

Theorem C18_ok_has_origin :
  forall db hs S', mhist db no_sessions hs S' ->
  forall pre m post h, hs = (pre ++ m :: post)%list -> m_out m = OAllow h ->
  exists m' t, In m' (pre ++ [m]) /\ f_store (m_filter m') = f_store (m_filter m) /\
               binds m' (request_sid (f_cfg (m_filter m)) (m_req m)) t.
Proof. intros db hs S' H pre m post h E Ho. exact (ok_has_origin db _ hs S' H [] origin_inv_empty pre m post h E Ho). Qed.
Print Assumptions C18_ok_has_origin.

Theorem C18_isolated_when_stores_distinct :
  forall db fs hs S',
  stores_distinct fs = true -> (forall m, In m hs -> In (m_filter m) fs) ->
  mhist db no_sessions hs S' ->
  forall pre m post h, hs = (pre ++ m :: post)%list -> m_out m = OAllow h ->
  exists m' t, In m' (pre ++ [m]) /\ m_filter m' = m_filter m /\ binds m' (request_sid (f_cfg (m_filter m)) (m_req m)) t.
Proof. exact isolated_when_distinct. Qed.
Print Assumptions C18_isolated_when_stores_distinct.

Theorem C18_own_timeouts_when_stores_distinct :
  forall fs f, stores_distinct fs = true -> In f fs -> own_timeouts fs f = true.
Proof. exact own_timeouts_when_distinct. Qed.
Print Assumptions C18_own_timeouts_when_stores_distinct.

(* ---- the refutation of the property as stated ---- *)
Definition ex_cB : cfg := {| client_id := "client-2"; client_secret := "other-secret";
     callback_uri := "https://app.test/callback";
     callback := {| cb_scheme := "https"; cb_hostname := "app.test"; cb_port := ""; cb_path := "/callback" |};
     auth_uri := "https://idp2.test/auth"; token_uri := "https://idp2.test/token";
     scopes := ["openid"]; cookie_prefix := "other";
     id_token := {| tc_header := "authorization"; tc_preamble := "Bearer" |};
     access_token := None; logout := None |}.
Definition ex_fA (k : skind) : filt := {| f_cfg := ex_c; f_store := k; f_abs := 3600; f_idle := 600 |}.
Definition ex_fB (k : skind) : filt := {| f_cfg := ex_cB; f_store := k; f_abs := 60; f_idle := 30 |}.
Definition mk (f : filt) (now : Z) (r : request) (answers : list ans) : mcheck :=
  match run (process (f_cfg f) ex_db now r) answers with
  | Some (o, tr, _) => {| m_filter := f; m_req := r; m_now := now; m_out := o; m_tr := tr |}
  | None => {| m_filter := f; m_req := r; m_now := now; m_out := OBadAnswer; m_tr := [] |}
  end.
Definition ex_login_tokens : tokens := {| t_id := "ID2"; t_access := "AT2"; t_refresh := "RT"; t_expiry := 60000000995 |}.
Definition ex_answers0 := [AGen ex_g; AUnit true].
Definition ex_answers1 := [AAuth (Some (Some (new_auth (ex_req "/app" "") ex_g)));
   AIdp (IdpBody {| b_id := "ID2"; b_access := "AT2"; b_refresh := "RT"; b_expires_in := 60; b_token_type := "Bearer" |}); AJwks true; AUnit true; AUnit true].
Definition ex_answers2 := [ATok (Some (Some ex_login_tokens))].
(* a browser logs in at filter A (redirect, callback with code exchange at A's provider with A's credentials) and then
   presents the session id to filter B under B's cookie name; both filters use the in-memory store *)
Definition ex_m0 := Eval vm_compute in mk (ex_fA KMem) 1000 (ex_req "/app" "") ex_answers0.
Definition ex_m1 := Eval vm_compute in mk (ex_fA KMem) 1000 (ex_req "/callback?code=CODE%201&state=T1" (ex_cookie "S1")) ex_answers1.
Definition ex_m2 := Eval vm_compute in mk (ex_fB KMem) 1001 (ex_req "/app" (cookie_for (ex_fB KMem) "S1")) ex_answers2.
Definition ex_hist : list mcheck := [ex_m0; ex_m1; ex_m2].

Ltac step_store :=
  eapply steps_cons; [ first [ apply S_gen | apply S_idp | apply S_jwks | apply S_write_ok; exact I
                             | apply S_get_tok | apply S_get_auth ] | ].
Ltac shape := cbn [m_tr m_filter m_req m_now m_out f_store f_cfg ex_m0 ex_m1 ex_m2].

Theorem C18_refuted_shared_store :
  exists db hs S' m' m t,
    mhist db no_sessions hs S' /\ hs = [ex_m0; m'; m] /\
    (* two filters with different cookie prefixes, client ids, credentials and providers *)
    cookie_prefix (f_cfg (m_filter m')) <> cookie_prefix (f_cfg (m_filter m)) /\
    client_id (f_cfg (m_filter m')) <> client_id (f_cfg (m_filter m)) /\
    token_uri (f_cfg (m_filter m')) <> token_uri (f_cfg (m_filter m)) /\
    (* the session was created through the first one ... *)
    binds m' "S1" t /\
    (* ... and is honoured by the second one, which forwards the first one's ID token upstream *)
    request_sid (f_cfg (m_filter m)) (m_req m) = "S1" /\
    m_out m = OAllow [("authorization", ("Bearer " ++ t_id t)%string)].
Proof.
  exists ex_db, ex_hist. eexists. exists ex_m1, ex_m2, ex_login_tokens.
  split.
  { unfold ex_hist.
    eapply mh_check with (answers := ex_answers0); [vm_compute; reflexivity | shape; step_store; step_store; apply steps_nil |].
    eapply mh_check with (answers := ex_answers1); [vm_compute; reflexivity | shape; do 5 step_store; apply steps_nil |].
    eapply mh_check with (answers := ex_answers2); [vm_compute; reflexivity | shape; step_store; apply steps_nil |].
    apply mh_nil. }
  split; [reflexivity|].
  split; [discriminate|]. split; [discriminate|]. split; [discriminate|].
  split; [eexists; right; right; right; right; left; reflexivity|].
  split; vm_compute; reflexivity.
Qed.
Print Assumptions C18_refuted_shared_store.

(* the timeouts of the shared in-memory store are those of the FIRST filter, the ones of a shared Redis store those of
   the LAST filter naming the server: the other filters' sessions are governed by foreign timeouts *)
Theorem C18_refuted_foreign_timeouts :
  own_timeouts [ex_fA KMem; ex_fB KMem] (ex_fB KMem) = false /\
  eff_timeouts [ex_fA KMem; ex_fB KMem] (ex_fB KMem) = Some (3600, 600)%Z /\
  own_timeouts [ex_fA (KRedis "redis://r"); ex_fB (KRedis "redis://r")] (ex_fA (KRedis "redis://r")) = false /\
  eff_timeouts [ex_fA (KRedis "redis://r"); ex_fB (KRedis "redis://r")] (ex_fA (KRedis "redis://r")) = Some (60, 30)%Z.
Proof. repeat split; reflexivity. Qed.
Print Assumptions C18_refuted_foreign_timeouts.

(* with a store each, the same three checks do NOT end in an OK: the hypotheses of the positive theorems are
   satisfiable and their conclusion excludes exactly this *)
Example C18_distinct_stores_example :
  stores_distinct [ex_fA KMem; ex_fB (KRedis "redis://r")] = true /\
  own_timeouts [ex_fA KMem; ex_fB (KRedis "redis://r")] (ex_fB (KRedis "redis://r")) = true /\
  exists d tr, run (process ex_cB ex_db 1001 (ex_req "/app" (cookie_for (ex_fB (KRedis "redis://r")) "S1"))) [ATok (Some None); AUnit true; AGen ex_g; AUnit true]
               = Some (ODeny d, tr, []) /\ d_status d = 302.
Proof. split; [reflexivity|]. split; [reflexivity|]. eexists. eexists. vm_compute. split; reflexivity. Qed.
