(* Properties/C03.v — C03: login completes in one pass through the provider. *)
From AS Require Import Base.Str Http.PathSplit Http.Cookie Url.Escape Oidc.Types Oidc.Prog Oidc.Handler Oidc.Spec Oidc.Monitors Oidc.Store
  Proofs.RunSpecs Proofs.PHandler Proofs.PHist Proofs.P03 Proofs.PCookie Proofs.Examples.

(* For every configuration, every map state, every first request without session cookie (any scheme,
   host, path and query bytes), every tuple the generator hands out and every provider answer that is
   compliant - token_type Bearer in any capitalisation, expires_in absent or non-negative, an access token
   when forwarding is configured, refresh token or not, extra members or not, and an ID token that parses,
   carries this login's nonce, an audience (string or array) containing the client id and a signature
   under a configured key - the three checks of a login run exactly like this, the map's answers being
   computed from the map:
     1. first visit -> the login redirect with a new session cookie; the login state stored under it;
     2. callback (the provider's redirect back, with this login's state) -> ONE code exchange, with this
        session's verifier; tokens stored; 302 to the URL first requested, byte for byte;
     3. any later request that is not callback/logout while the tokens live -> OK with exactly these
        tokens, and no call to the provider. *)
Theorem C03_login_completes :
  forall c db r0 r1 r2 now0 now1 now2 g b,
    r_has_http r0 = true -> matches_logout c r0 = false -> request_sid c r0 = "" ->
    r_has_http r1 = true -> matches_logout c r1 = false -> request_sid c r1 = g_sid g -> g_sid g <> "" ->
    matches_callback c r1 = true -> cb_query_ok r1 = true -> cb_state r1 = g_state g ->
    valid_new_tokens c b = true -> validated c db (b_id b) (g_nonce g) true = true ->
    r_has_http r2 = true -> matches_logout c r2 = false -> request_sid c r2 = g_sid g -> matches_callback c r2 = false ->
    tokens_expired c db now2 (login_tokens_of now1 b) = Some false ->
    forall st,
      let sid := g_sid g in let t := login_tokens_of now1 b in
      let st1 := apply_eff st (ESetAuth sid (new_auth r0 g)) in
      let st2 := apply_eff (apply_eff st1 (EClearAuth sid)) (ESetTok sid t) in
      run (process c db now0 r0) [AGen g; AUnit true] = Some (login_redirect c g, tr1 r0 g, []) /\ steps st (tr1 r0 g) st1 /\
      run (process c db now1 r1) [AAuth (Some (auth_of st1 sid)); AIdp (IdpBody b); AJwks true; AUnit true; AUnit true]
        = Some (back_to (requested_url r0), tr2 c r0 r1 now1 g b, []) /\ steps st1 (tr2 c r0 r1 now1 g b) st2 /\
      run (process c db now2 r2) [ATok (Some (tok_of st2 sid))] = Some (allow c t, tr3 now1 g b, []) /\ steps st2 (tr3 now1 g b) st2 /\
      has is_idp (tr3 now1 g b) = false.
Proof. exact login_completes. Qed.
Print Assumptions C03_login_completes.

(* "while those tokens remain valid": ID token not past its exp, and - only when forwarding is configured, an
   access token is held and its expiry is known - the access token not past its expiry; a provider that
   sends no expires_in leaves the expiry unknown (0), which never expires the session by itself *)
Theorem C03_lifetime :
  forall c db now t,
    tokens_expired c db now t = Some false <->
    d_parses (db (t_id t)) = true /\ (now <= d_exp (db (t_id t)))%Z /\
    (access_token c = None \/ t_access t = "" \/ t_expiry t = 0%Z \/ (now <= t_expiry t)%Z).
Proof. exact live_spec. Qed.
Print Assumptions C03_lifetime.

Example C03_no_expires_in_means_unknown_expiry :
  t_expiry (login_tokens_of 1000 ex_body) = 0%Z /\ tokens_expired ex_c ex_db 5000 (login_tokens_of 1000 ex_body) = Some false.
Proof. vm_compute. split; reflexivity. Qed.
