(* Corr/C03.v — monitor for C03 on browser runs: step 0 = first visit (redirect to the provider),
   step 1 = callback (302 back to the first URL), step 2.. = requests inside the token lifetime. *)
From AS Require Import Base.Str Http.PathSplit Url.Escape Oidc.Types Oidc.Prog Oidc.Handler Corr.Common Corr.Hist Corr.C13.

Fixpoint count_idp (tr : list (eff * ans)) : nat :=
  match tr with [] => 0 | (EIdp _, _) :: tr' => S (count_idp tr') | _ :: tr' => count_idp tr' end.

Fixpoint last_body (tr : list (eff * ans)) : option idp_body :=
  match tr with
  | [] => None
  | (EIdp _, AIdp (IdpBody b)) :: tr' => match last_body tr' with Some b' => Some b' | None => Some b end
  | _ :: tr' => last_body tr'
  end.

(* ghost: step number, first URL, tokens the provider answered with *)
Record g03 := { n03 : nat; url03 : string; body03 : option idp_body }.

Definition expected_headers (c : cfg) (b : idp_body) : list (string * string) :=
  let idh := (tc_header (id_token c), header_value (tc_preamble (id_token c)) (b_id b)) in
  match access_token c with
  | Some at_ => if String.eqb (b_access b) "" then [idh]
                else sort_kv [idh; (tc_header at_, header_value (tc_preamble at_) (b_access b))]
  | None => [idh]
  end.

Definition mon03 (c : cfg) (db : tokdb) (g : g03) (s : step) : g03 * bool :=
  let g' := {| n03 := S (n03 g); url03 := url03 g; body03 := body03 g |} in
  match n03 g with
  | 0 => ({| n03 := 1; url03 := url_of_request (s_req s); body03 := None |},
          match s_resp s with
          | ODeny d => Nat.eqb (d_status d) 302 && Nat.eqb (count_idp (s_trace s)) 0 &&
                       match hdr "location" (d_headers d) with Some l => prefixb (before c_q (auth_uri c)) l | None => false end
          | _ => false
          end)
  | 1 => ({| n03 := 2; url03 := url03 g; body03 := last_body (s_trace s) |},
          match s_resp s with
          | ODeny d => Nat.eqb (d_status d) 302 && Nat.eqb (count_idp (s_trace s)) 1 &&
                       match hdr "location" (d_headers d) with Some l => String.eqb l (url03 g) | None => false end
          | _ => false
          end)
  | _ => (g',
          match s_resp s, body03 g with
          | OAllow hs, Some b => Nat.eqb (count_idp (s_trace s)) 0 && kvs_eqb (sort_kv hs) (expected_headers c b)
          | _, _ => false
          end)
  end.

Definition run (hs : list hist) : list fail :=
  take 20 (run_hists g03 {| n03 := 0; url03 := ""; body03 := None |} mon03 0 hs).
