(* Corr/C18.v — the store factory model and the cross-filter verdicts against the real factory / the real Check. *)
From AS Require Import Base.Str Http.Cookie Oidc.Types Oidc.Spec Multi.Filters Corr.Common.

Record c18case := {
  q_filters : list (string * string * Z * Z);              (* cookie prefix, redis server uri ("" = none), absolute, idle (s) *)
  q_share : list (nat * nat * bool);                       (* factory.Get(cfg i) == factory.Get(cfg j), observed *)
  q_eff : list (nat * Z * Z);                              (* timeouts of the store handed to filter i, observed *)
  q_cross : list (nat * nat * string * string * bool)      (* session sid created at filter i; the cookie header sent to filter j; OK observed *)
}.

Definition dummy_cfg (prefix : string) : cfg :=
  {| client_id := ""; client_secret := ""; callback_uri := "";
     callback := {| cb_scheme := ""; cb_hostname := ""; cb_port := ""; cb_path := "" |};
     auth_uri := ""; token_uri := ""; scopes := []; cookie_prefix := prefix;
     id_token := {| tc_header := ""; tc_preamble := "" |}; access_token := None; logout := None |}.
Definition mkfilt (x : string * string * Z * Z) : filt :=
  let '(p, u, a, i) := x in {| f_cfg := dummy_cfg p; f_store := skind_of_uri u; f_abs := a; f_idle := i |}.

(* code 1: the model of the factory / of the verdict differs from the implementation
   code 2: a session of one filter is honoured by another one
   code 4: the timeouts governing a filter's sessions are not its own *)
Definition run_case (ci : nat) (k : c18case) : list fail :=
  let fs := map mkfilt (q_filters k) in
  let nthf i := nth i fs (mkfilt ("", "", 0, 0)%Z) in
  (flat_map (fun '(idx, (i, j, obs)) =>
      if Bool.eqb (shares (nthf i) (nthf j)) obs then [] else [(ci, idx, 1)])
    (combine (seq 0 (length (q_share k))) (q_share k)) ++
   flat_map (fun '(idx, (i, a, d)) =>
      (match eff_timeouts fs (nthf i) with
       | Some (a', d') => if Z.eqb a a' && Z.eqb d d' then [] else [(ci, 100 + idx, 1)]
       | None => [(ci, 100 + idx, 1)]
       end ++
       if Z.eqb a (f_abs (nthf i)) && Z.eqb d (f_idle (nthf i)) then [] else [(ci, 100 + idx, 4)])%list)
    (combine (seq 0 (length (q_eff k))) (q_eff k)) ++
   flat_map (fun '(idx, (i, j, cookie, sid, obs)) =>
      let pred := shares (nthf i) (nthf j) && String.eqb (request_sid (f_cfg (nthf j)) {| r_has_http := true; r_scheme := ""; r_host := ""; r_path := ""; r_query := ""; r_cookie := cookie |}) sid in
      ((if Bool.eqb pred obs then [] else [(ci, 1000 + idx, 1)]) ++
       (if obs && negb (Nat.eqb i j) then [(ci, 1000 + idx, 2)] else []))%list)
    (combine (seq 0 (length (q_cross k))) (q_cross k)))%list.

Fixpoint run_from (ci : nat) (ks : list c18case) : list fail :=
  match ks with [] => [] | k :: ks' => (run_case ci k ++ run_from (S ci) ks')%list end.
Definition run (ks : list c18case) : list fail := run_from 0 ks.
