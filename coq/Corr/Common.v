(* Corr/Common.v — shared helpers of the correspondence checks (evaluated with vm_compute on files
   written by the harness; nothing here is used by a theorem). *)
From AS Require Import Base.Str.
From AS Require Export Corr.Pack.

Fixpoint words (alpha : list ascii) (n : nat) : list string :=
  match n with
  | 0 => [EmptyString]
  | S n' => flat_map (fun a => map (String a) (words alpha n')) alpha
  end.
Definition words_upto (alpha : list ascii) (n : nat) : list string :=
  flat_map (words alpha) (seq 0 (S n)).

Definition bit_of (a : ascii) : bool := Ascii.eqb a "1"%char.

(* failure codes: 1 = model and implementation differ (correspondence);
                  2 = the property's monitor fails on the implementation's own answer *)
Definition fail := (nat * nat * nat)%type.    (* case index, item index, code *)

Fixpoint take {A} (n : nat) (l : list A) : list A :=
  match n, l with 0, _ => [] | _, [] => [] | S n', x :: l' => x :: take n' l' end.

Definition list_eqb {A} (eqb : A -> A -> bool) :=
  fix go (a b : list A) : bool :=
    match a, b with
    | [], [] => true
    | x :: a', y :: b' => eqb x y && go a' b'
    | _, _ => false
    end.
