(* Corr/C11.v — monitor for C11 on recorded histories against a provider that keeps a ledger. *)
From AS Require Import Base.Str Http.PathSplit Http.Cookie Url.Escape Oidc.Types Oidc.Prog Oidc.Handler Corr.Common Corr.Hist.

(* ghost: per session id, the refresh token the provider issued to it last in an exchange whose result the
   service stored (Some rt), or "cannot be known" (None) after a write that was reported failed *)
Definition g11 := list (string * option string).

Definition form (q : token_request) : list (string * string) := fst (parse_query (q_body q)).

Definition refresh_uses_latest (c : cfg) (g : g11) (s : step) : bool :=
  forallb (fun ea => match fst ea with
                     | EIdp q => if String.eqb (qget "grant_type" (form q)) "refresh_token"
                                 then match lookup (sid_of c s) g with
                                      | Some (Some rt) => String.eqb (qget "refresh_token" (form q)) rt
                                      | Some None => true
                                      | None => false end
                                 else true
                     | _ => true end) (s_trace s).

(* the refresh token the provider handed out in this check, if any *)
Definition issued_rt (tr : list (eff * ans)) : option string :=
  fold_left (fun acc ea => match ea with
                           | (EIdp _, AIdp (IdpBody b)) => if String.eqb (b_refresh b) "" then acc else Some (b_refresh b)
                           | _ => acc end) tr None.

Definition ledger_step (c : cfg) (g : g11) (s : step) : g11 :=
  let new_rt := issued_rt (s_trace s) in
  fold_left (fun g ea => match ea with
                         | (ESetTok s' t, AUnit true) =>
                             (* what the provider issued now, else what the session keeps *)
                             set_key s' (Some (match new_rt with Some rt => rt | None => t_refresh t end)) g
                         | (ESetTok s' _, AUnit false) => set_key s' None g
                         | (ERemove s', AUnit true) => remove_key s' g
                         | (ERemove s', AUnit false) => match lookup s' g with Some _ => set_key s' None g | None => g end
                         | _ => g end) (s_trace s) g.

(* "on success the request is allowed with the merged result": when the check's own trace shows expired, refreshable
   tokens, the refresh exchange with the stored refresh token answered by a valid body whose merged ID token validates
   (against the login state read in this check), then the check must end in OK - unless the key lookup or the write of the
   merged tokens failed *)
Definition refresh_must_succeed (c : cfg) (db : tokdb) (s : step) : bool :=
  match s_trace s with
  | (EGetTok _, ATok (Some (Some t))) :: (EIdp q, AIdp (IdpBody b)) :: (EGetAuth _, AAuth (Some oa)) :: rest =>
      if match tokens_expired c db (s_now s) t with Some true => true | _ => false end &&
         negb (String.eqb (t_refresh t) "") && treq_eqb q (refresh_request c (t_refresh t)) && valid_refresh_tokens b &&
         validated c db (t_id (merged_tokens db (s_now s) t b)) (nonce_of oa) false
      then match rest with
           | (EJwks, AJwks false) :: _ => true
           | _ => is_allow (s_resp s) || existsb (fun ea => match ea with (ESetTok _ _, AUnit false) => true | _ => false end) rest
           end
      else true
  | _ => true
  end.

Definition mon11 (c : cfg) (db : tokdb) (g : g11) (s : step) : g11 * bool :=
  (ledger_step c g s,
   refresh_uses_latest c g s && refresh_must_succeed c db s &&
   refresh_failure_shape c db (s_now s) (s_req s) (s_trace s) (s_resp s) &&
   mon_ok_justified c db (s_now s) (s_req s) (s_trace s) (s_resp s) &&
   settok_shape c db (s_now s) (s_req s) (s_trace s)).

Definition run (hs : list hist) : list fail := take 20 (run_hists g11 [] mon11 0 hs).
