(* Corr/C12.v — correspondence and monitors for the two session stores (C12; C10 reuses it). *)
From AS Require Import Base.Str Oidc.Types Store.Spec Store.Memory Store.Redis Corr.Common.

Record case12 := { k_abs : Z; k_idle : Z; k_ops : list (Z * sop); k_mem : list sres; k_redis : list rres }.

Definition rres_eqb (a b : rres) : bool :=
  match a, b with ROk x, ROk y => sres_eqb x y | RErr, RErr => true | _, _ => false end.

(* well-formed values: what the handler ever writes (C02: a parsing, non-empty ID token; four non-empty
   login-state members) *)
Definition wf_op (parses : string -> bool) (o : sop) : bool :=
  match o with
  | OSetTok _ t => negb (String.eqb (t_id t) "") && parses (t_id t)
  | OSetAuth _ a => negb (String.eqb (a_state a) "") && negb (String.eqb (a_nonce a) "") &&
                    negb (String.eqb (a_url a) "") && negb (String.eqb (a_verifier a) "")
  | _ => true
  end.

Section Case.
  Variable parsing : list string.
  Definition parses (s : string) : bool := existsb (String.eqb s) parsing.

  (* lock-step comparison, threading the model states; codes:
       1 = implementation differs from its model (correspondence)
       2 = implementation differs from the abstract session map under the store's liveness rule (C12)
       5 = Redis ClearAuthorizationState on a session that does not exist reports an error *)
  Fixpoint walk (abs idle : Z) (ci i : nat) (wf : bool)
           (ops : list (Z * sop)) (mem : list sres) (red : list rres)
           (mm : mmap) (am : amap) (rd : rdb) (ar : amap) : list fail :=
    match ops, mem, red with
    | (now, o) :: ops', rm :: mem', rr :: red' =>
        let wf' := wf && wf_op parses o in
        let '(mm1, mres) := mstep abs idle mm now o in
        let '(am1, ames) := astep (alive_mem abs idle) am now o in
        let '(rd1, rres_) := rstep abs idle parses rd now o in
        let missing := match view (alive_redis abs idle) ar (match o with OSetTok s _ | OGetTok s | OSetAuth s _ | OGetAuth s | OClearAuth s | ORemove s => s end) now with
                       | None => true | Some _ => false end in
        let '(ar1, ares) := astep (alive_redis abs idle) ar now o in
        ((if sres_eqb rm mres then [] else [(ci, i, 1)]) ++
         (if rres_eqb rr rres_ then [] else [(ci, i, 1)]) ++
         (if sres_eqb rm ames then [] else [(ci, i, 2)]) ++
         (if wf' then
            match o, missing, rr with
            | OClearAuth _, true, RErr => [(ci, i, 5)]
            | _, _, _ => if rres_eqb rr (ROk ares) then [] else [(ci, i, 2)]
            end
          else []) ++
         walk abs idle ci (S i) wf' ops' mem' red' mm1 am1 rd1 ar1)%list
    | [], [], [] => []
    | _, _, _ => [(ci, i, 1)]
    end.

  Definition run_case (ci : nat) (k : case12) : list fail :=
    walk (k_abs k) (k_idle k) ci 0 true (k_ops k) (k_mem k) (k_redis k) [] aempty [] aempty.
End Case.

Fixpoint run_from (parsing : list string) (ci : nat) (ks : list case12) : list fail :=
  match ks with [] => [] | k :: ks' => (run_case parsing ci k ++ run_from parsing (S ci) ks')%list end.
Definition run (parsing : list string) (ks : list case12) : list fail := take 30 (run_from parsing 0 ks).

(* ---- concurrent histories of the memory store: the witness order found by the harness must be a
        sequential execution of the memory-store model with exactly the observed results, and must respect
        real-time precedence (an operation that responded before another was invoked comes first) ---- *)
Record lin_case := { l_ops : list (nat * nat * sop * sres); l_order : list nat }.

Definition nth_op (ops : list (nat * nat * sop * sres)) (i : nat) : option (nat * nat * sop * sres) := nth_error ops i.

Fixpoint seq_ok (ops : list (nat * nat * sop * sres)) (order : list nat) (m : mmap) : bool :=
  match order with
  | [] => true
  | i :: order' =>
      match nth_op ops i with
      | Some (_, _, o, r) => let '(m1, r') := mstep 0 0 m 0 o in sres_eqb r r' && seq_ok ops order' m1
      | None => false
      end
  end.
Fixpoint is_perm_of_range (order : list nat) (n : nat) : bool :=
  Nat.eqb (length order) n && forallb (fun i => Nat.eqb (count_occ Nat.eq_dec order i) 1) (seq 0 n).
Fixpoint respects_time (ops : list (nat * nat * sop * sres)) (order : list nat) : bool :=
  match order with
  | [] => true
  | i :: order' =>
      (* nothing placed later responded before i was invoked *)
      match nth_op ops i with
      | Some (inv_i, _, _, _) =>
          forallb (fun j => match nth_op ops j with Some (_, resp_j, _, _) => negb (resp_j <? inv_i)%nat | None => false end) order'
          && respects_time ops order'
      | None => false
      end
  end.
Definition lin_ok (k : lin_case) : bool :=
  is_perm_of_range (l_order k) (length (l_ops k)) && respects_time (l_ops k) (l_order k) && seq_ok (l_ops k) (l_order k) [].
Fixpoint run_lin_from (ci : nat) (ks : list lin_case) : list fail :=
  match ks with [] => [] | k :: ks' => ((if lin_ok k then [] else [(ci, 0, 2)]) ++ run_lin_from (S ci) ks')%list end.
Definition run_lin (ks : list lin_case) : list fail := take 30 (run_lin_from 0 ks).
