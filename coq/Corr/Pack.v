(* Corr/Pack.v — compact transport of byte strings in cases files: 7 bytes per primitive 63-bit
   integer (Coq parses a list of machine integers ~16x faster than a string literal).
   Used only by the harness-written cases files, never by a theorem. *)
From Coq Require Import Uint63 String Ascii List.
Import ListNotations.

Definition bitn (w : int) (n : int) : bool := negb (Uint63.eqb (Uint63.land (Uint63.lsr w n) 1%uint63) 0%uint63).
Definition byte_at (w : int) (sh : int) : ascii :=
  let b := Uint63.lsr w sh in
  Ascii (bitn b 0%uint63) (bitn b 1%uint63) (bitn b 2%uint63) (bitn b 3%uint63)
        (bitn b 4%uint63) (bitn b 5%uint63) (bitn b 6%uint63) (bitn b 7%uint63).

Fixpoint unpack_words (ws : list int) : list ascii :=
  match ws with
  | [] => []
  | w :: ws' =>
      byte_at w 48%uint63 :: byte_at w 40%uint63 :: byte_at w 32%uint63 :: byte_at w 24%uint63 ::
      byte_at w 16%uint63 :: byte_at w 8%uint63 :: byte_at w 0%uint63 :: unpack_words ws'
  end.

Fixpoint take_str (n : nat) (l : list ascii) : string :=
  match n, l with
  | S n', a :: l' => String a (take_str n' l')
  | _, _ => EmptyString
  end.

(* us len words: the first len bytes packed in words *)
Definition us (len : nat) (ws : list int) : string := take_str len (unpack_words ws).
