(* Corr/C16.v — the per-run obligation of C16 over the access summary regenerated from the Go sources. *)
From AS Require Import Base.Str Conc.Lockset Corr.Common.

(* Locations that the summary shows to be written while serving with some access outside a lock, and WHY each is
   on this list.  Anything else that becomes unprotected fails the obligation. *)
Definition known_unprotected : list string :=
  [ (* confined to one goroutine: the per-request response object created by Check and handed down by pointer *)
    "envoy.CheckResponse.HttpResponse"; "envoy.CheckResponse.Status";
    "envoy.DeniedHttpResponse.Headers"; "envoy.DeniedHttpResponse.Status";
    (* confined to one goroutine: only the watcher's own ticker goroutine reads and writes the last file content *)
    "internal.watcher.data";
    (* published by close(started); every reader first waits on that channel *)
    "oidc.DefaultJWKSProvider.cache";
    (* the health server's listener, set by Serve before it blocks; read by nothing else while serving *)
    "server.healthServer.l";
    (* written once per configuration object under wellKnownMu, which every handler creation takes before the
       configuration is read (initialisation published by the mutex, since fix 62ac8e2); the reads are not under it *)
    "oidcv1.OIDCConfig.AuthorizationUri"; "oidcv1.OIDCConfig.TokenUri"; "oidcv1.OIDCConfig.JwksConfig";
    (* OPEN FINDINGS (known_findings.json): the client secret of the shared configuration object and the pooled TLS
       configuration are modified in place while requests read them *)
    "oidcv1.OIDCConfig.ClientSecretConfig";
    "tls.Config.RootCAs" ].

(* code 3 = some location outside the list is written while serving and accessed outside its lock *)
Definition run (ss : list race_summary) : list fail :=
  match ss with
  | [s] => if obligation known_unprotected s then (if Nat.ltb 50 (length s) then [] else [(0, 1, 3)]) else [(0, 0, 3)]
  | _ => [(0, 2, 3)]
  end.
