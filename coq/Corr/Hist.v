(* Corr/Hist.v — histories recorded by the harness: per request the clock, the request, every effect
   the real handler performed with the answer it got, and its response.  [replay_step] runs the model
   in lock-step against the recorded effects. *)
From AS Require Import Base.Str Http.Cookie Url.Escape Oidc.Types Oidc.Prog Oidc.Handler Corr.Common.
From AS Require Export Oidc.Spec Oidc.Monitors.

Record step := { s_now : Z; s_req : request; s_trace : list (eff * ans); s_resp : outcome }.
Record hist := { h_cfg : cfg; h_db : list (string * idtok); h_secrets : list string; h_abs : Z; h_idle : Z (* session timeouts of the store, ns; 0 = none *);
                 h_steps : list step }.

Definition db_of (l : list (string * idtok)) : tokdb :=
  fun s => match lookup s l with Some d => d | None => unparsable end.

(* projection under which responses are compared: verdict class, HTTP status, headers (as a
   name-sorted list).  gRPC code and body text are projected out. *)
Definition proj_eqb (a b : outcome) : bool :=
  match a, b with
  | OAllow h1, OAllow h2 => kvs_eqb (sort_kv h1) (sort_kv h2)
  | ODeny d1, ODeny d2 => Nat.eqb (d_status d1) (d_status d2) && kvs_eqb (sort_kv (d_headers d1)) (sort_kv (d_headers d2))
  | OPanic, OPanic => true
  | OBadAnswer, OBadAnswer => true
  | _, _ => false
  end.

(* 0 = agree; 1 = effects differ; 4 = same effects, responses differ under the projection *)
Definition replay_step (c : cfg) (db : tokdb) (s : step) : nat :=
  match replay (process c db (s_now s) (s_req s)) (s_trace s) 0 with
  | RDone o => if proj_eqb o (s_resp s) then 0 else 4
  | _ => 1
  end.

(* per-history driver: [mon] is the property's monitor, threading its own ghost state *)
Section Driver.
  Variable G : Type.
  Variable g0 : G.
  Variable mon : cfg -> tokdb -> G -> step -> (G * bool).   (* new ghost, step satisfies the property *)

  Fixpoint run_steps (c : cfg) (db : tokdb) (g : G) (ci : nat) (ss : list step) (i : nat) : list fail :=
    match ss with
    | [] => []
    | s :: ss' =>
        let '(g', ok) := mon c db g s in
        ((if ok then [] else [(ci, i, 2)]) ++
         (match replay_step c db s with 0 => [] | _ => [(ci, i, 1)] end) ++
         run_steps c db g' ci ss' (S i))%list
    end.

  Fixpoint run_hists (ci : nat) (hs : list hist) : list fail :=
    match hs with
    | [] => []
    | h :: hs' => (run_steps (h_cfg h) (db_of (h_db h)) g0 ci (h_steps h) 0 ++ run_hists (S ci) hs')%list
    end.
End Driver.

(* ---- helpers for monitors ---- *)
Definition sid_of (c : cfg) (s : step) : string := session_id_from_cookie (cookie_prefix c) (r_cookie (s_req s)).

(* ghost session table rebuilt from the PERFORMED effects: for each id, the token states it may be in
   (None = no tokens).  A write or removal that was reported failed may or may not have taken place, so
   it ADDS a possibility; a successful one leaves exactly one; a read narrows to what was read. *)
Definition ghost := list (string * list (option tokens)).
Definition poss (g : ghost) (sid : string) : list (option tokens) :=
  match lookup sid g with Some l => l | None => [None] end.
Definition otok_eqb (a b : option tokens) : bool :=
  match a, b with Some x, Some y => tokens_eqb x y | None, None => true | _, _ => false end.
Definition may_be (g : ghost) (sid : string) (v : option tokens) : bool := existsb (otok_eqb v) (poss g sid).

Definition ghost_eff (g : ghost) (ea : eff * ans) : ghost :=
  match ea with
  | (ESetTok sid t, AUnit true) => set_key sid [Some t] g
  | (ESetTok sid t, AUnit false) => set_key sid (Some t :: poss g sid) g
  | (ERemove sid, AUnit true) => set_key sid [None] g
  | (ERemove sid, AUnit false) => set_key sid (None :: poss g sid) g
  | (EGetTok sid, ATok (Some v)) => if may_be g sid v then set_key sid [v] g else g
  | _ => g
  end.
Definition ghost_step (g : ghost) (s : step) : ghost := fold_left ghost_eff (s_trace s) g.

(* every read of tokens returned a state the performed effects allow (threaded through the trace) *)
Fixpoint reads_bound (g : ghost) (tr : list (eff * ans)) : bool :=
  match tr with
  | [] => true
  | ea :: tr' =>
      match ea with
      | (EGetTok sid, ATok (Some (Some t))) => may_be g sid (Some t)
      | _ => true
      end && reads_bound (ghost_eff g ea) tr'
  end.
