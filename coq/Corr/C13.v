(* Corr/C13.v — monitor for C13 on recorded histories. *)
From AS Require Import Base.Str Http.PathSplit Url.Escape Oidc.Types Oidc.Prog Oidc.Handler Corr.Common Corr.Hist.


Definition no_cache (hs : list (string * string)) : bool :=
  match hdr "cache-control" hs, hdr "pragma" hs with
  | Some a, Some b => String.eqb a "no-cache" && String.eqb b "no-cache"
  | _, _ => false
  end.

(* multiset equality of key/value lists *)
Fixpoint remove_first (x : string * string) (l : list (string * string)) : option (list (string * string)) :=
  match l with
  | [] => None
  | y :: l' => if kv_eqb x y then Some l' else match remove_first x l' with Some r => Some (y :: r) | None => None end
  end.
Fixpoint same_pairs (a b : list (string * string)) : bool :=
  match a with
  | [] => match b with [] => true | _ => false end
  | x :: a' => match remove_first x b with Some b' => same_pairs a' b' | None => false end
  end.

(* the authorization request sent to the browser: endpoint (own query kept) + exactly the 8 pairs *)
Definition login_location_ok (c : cfg) (loc : string) (a : auth_state) (challenge : string) : bool :=
  let base := before c_q loc in
  let q := odflt (after c_q loc) in
  let ep_base := before c_q (auth_uri c) in
  let ep_q := odflt (after c_q (auth_uri c)) in
  let '(got, err) := parse_query q in
  let '(own, _) := parse_query ep_q in
  let scope := concat_with " " (scopes c) in
  negb (has_char c_hash loc) && String.eqb base ep_base && negb err &&
  existsb (String.eqb "openid") (scopes c) &&
  same_pairs got (own ++ [("response_type", "code"); ("client_id", client_id c); ("redirect_uri", callback_uri c);
                          ("scope", scope); ("state", a_state a); ("nonce", a_nonce a);
                          ("code_challenge", challenge); ("code_challenge_method", "S256")])%list.

Definition url_of_request (r : request) : string :=
  r_scheme r ++ "://" ++ r_host r ++ r_path r ++ (if String.eqb (r_query r) "" then "" else "?" ++ r_query r).

(* ghost: session id -> the URL requested when that session's login was started *)
Definition ghost13 := list (string * string).

Fixpoint find_set_auth (tr : list (eff * ans)) : option (string * auth_state) :=
  match tr with
  | [] => None
  | (ESetAuth sid a, AUnit true) :: _ => Some (sid, a)
  | _ :: tr' => find_set_auth tr'
  end.
Fixpoint find_set_tok (tr : list (eff * ans)) : option string :=
  match tr with [] => None | (ESetTok sid _, AUnit true) :: _ => Some sid | _ :: tr' => find_set_tok tr' end.
Fixpoint has_idp_code_exchange (tr : list (eff * ans)) : bool :=
  match tr with
  | [] => false
  | (EIdp r, _) :: tr' => String.eqb (qget "grant_type" (fst (parse_query (q_body r)))) "authorization_code" || has_idp_code_exchange tr'
  | _ :: tr' => has_idp_code_exchange tr'
  end.

Definition mon13 (c : cfg) (db : tokdb) (g : ghost13) (s : step) : ghost13 * bool :=
  match s_resp s with
  | ODeny d =>
      if Nat.eqb (d_status d) 302 then
        let nc := no_cache (d_headers d) in
        match find_set_auth (s_trace s), find_gen (s_trace s), hdr "location" (d_headers d) with
        | Some (sid, a), Some gn, Some loc =>
            (* login redirect *)
            (set_key sid (url_of_request (s_req s)) g,
             nc && login_location_ok c loc a (g_challenge gn) && String.eqb (a_url a) (url_of_request (s_req s)))
        | _, _, Some loc =>
            if has_idp_code_exchange (s_trace s) then
              (* successful callback: back to the URL first requested in this session, byte for byte *)
              match find_set_tok (s_trace s) with
              | Some sid => (g, nc && match lookup sid g with Some u => String.eqb loc u | None => false end)
              | None => (g, false)
              end
            else (g, nc)       (* logout redirect *)
        | _, _, None => (g, false)
        end
      else (g, true)
  | _ => (g, true)
  end.

Definition run (hs : list hist) : list fail := take 20 (run_hists ghost13 [] mon13 0 hs).
