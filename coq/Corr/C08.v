(* Corr/C08.v — correspondence + monitor for C08. *)
From AS Require Import Base.Str Server.Chain Corr.Common.

(* what the harness can observe of an answer *)
Inductive obs :=
| OAllow | ODeniedMock | ODeniedOidc (f : nat) | ONoChain | OError.

Inductive fkind := KMockAllow | KMockDeny | KOidcAllow | KOidcDeny | KOidcErr.

Record case08 := {
  k_kinds : list fkind;                 (* filter id = position *)
  k_chains : list chain;
  k_allow_unmatched : bool;
  k_triggered : bool;
  k_headers : headers;
  k_obs : obs;                          (* implementation: verdict ... *)
  k_seen : list nat                     (* ... and OIDC filters that were evaluated, in order *)
}.

Definition kind_of (ks : list fkind) (f : nat) : fkind := nth f ks KMockDeny.
Definition is_oidc (k : fkind) : bool :=
  match k with KOidcAllow | KOidcDeny | KOidcErr => true | _ => false end.
Definition res_of (k : fkind) : fres :=
  match k with
  | KMockAllow | KOidcAllow => FOk
  | KMockDeny | KOidcDeny => FDenied
  | KOidcErr => FError
  end.

Definition project (ks : list fkind) (v : verdict * list nat) : obs * list nat :=
  let '(vd, seen) := v in
  (match vd with
   | VAllowBare | VAllowChain => OAllow
   | VDeniedBy f => if is_oidc (kind_of ks f) then ODeniedOidc f else ODeniedMock
   | VErrorBy _ => OError
   | VNoChain => ONoChain
   end,
   (* a filter whose construction fails is never asked for its store *)
   filter (fun f => match kind_of ks f with KOidcAllow | KOidcDeny => true | _ => false end) seen).

Definition obs_eqb (a b : obs) : bool :=
  match a, b with
  | OAllow, OAllow | ODeniedMock, ODeniedMock | ONoChain, ONoChain | OError, OError => true
  | ODeniedOidc f, ODeniedOidc g => Nat.eqb f g
  | _, _ => false
  end.
Definition proj_eqb (a b : obs * list nat) : bool :=
  obs_eqb (fst a) (fst b) && list_eqb Nat.eqb (snd a) (snd b).

Definition check_case (ci : nat) (k : case08) : list fail :=
  let rf := fun f => res_of (kind_of (k_kinds k) f) in
  let impl := (k_obs k, k_seen k) in
  let m := project (k_kinds k) (check rf (k_triggered k) (k_chains k) (k_allow_unmatched k) (k_headers k)) in
  let r := project (k_kinds k) (ref_eval rf (k_triggered k) (k_chains k) (k_allow_unmatched k) (k_headers k)) in
  ((if proj_eqb impl r then [] else [(ci, 0, 2)]) ++ (if proj_eqb impl m then [] else [(ci, 0, 1)]))%list.

Fixpoint run_from (ci : nat) (ks : list case08) : list fail :=
  match ks with [] => [] | k :: ks' => (check_case ci k ++ run_from (S ci) ks')%list end.
Definition run (ks : list case08) : list fail := take 20 (run_from 0 ks).
