(* Corr/C02.v — monitor for C02 on recorded histories. *)
From AS Require Import Base.Str Http.Cookie Url.Escape Oidc.Types Oidc.Prog Oidc.Handler Corr.Common Corr.Hist.

(* per check: tokens are written only in the two proved shapes (validated ID token from this check's
   token-endpoint answer / merged refresh result), and what is forwarded on OK is exactly the headers of
   the tokens read or just written (ok_shape).
   across the history (ghost = every ID token the token endpoint ever answered with): the ID token of
   every write came from the token endpoint, and is one the independent verifier of the harness
   accepts (d_sig_ok is computed by crypto/rsa and crypto/ecdsa, not by the library under test). *)
Definition issued_ids (tr : list (eff * ans)) : list string :=
  flat_map (fun ea => match ea with (EIdp _, AIdp (IdpBody b)) => [b_id b] | _ => [] end) tr.

Definition write_ok (c : cfg) (db : tokdb) (seen : list string) (ea : eff * ans) : bool :=
  match fst ea with
  | ESetTok _ t =>
      existsb (String.eqb (t_id t)) seen && d_parses (db (t_id t)) && d_sig_ok (db (t_id t)) &&
      existsb (String.eqb (client_id c)) (d_aud (db (t_id t)))
  | _ => true
  end.

Definition id_header_ok (c : cfg) (s : step) : bool :=
  match s_resp s, s_trace s with
  | OAllow h, (EGetTok _, ATok (Some (Some t))) :: rest =>
      let t' := match last rest (EGen, AUnit false) with (ESetTok _ t2, AUnit true) => t2 | _ => t end in
      (* the ID token always, under its header and preamble (unless the access token is configured
         under the very same header name - a configuration corner, see DESIGN) *)
      match access_token c with
      | Some at_ => if String.eqb (tc_header at_) (tc_header (id_token c)) then true
                    else match lookup (tc_header (id_token c)) h with
                         | Some v => String.eqb v (header_value (tc_preamble (id_token c)) (t_id t'))
                         | None => false end
      | None => match lookup (tc_header (id_token c)) h with
                | Some v => String.eqb v (header_value (tc_preamble (id_token c)) (t_id t')) && Nat.eqb (length h) 1
                | None => false end
      end
  | OAllow _, _ => false
  | _, _ => true
  end.

Definition mon02 (c : cfg) (db : tokdb) (gs : ghost * list string) (s : step) : (ghost * list string) * bool :=
  let '(g, seen) := gs in
  let seen' := (issued_ids (s_trace s) ++ seen)%list in
  ((ghost_step g s, seen'),
   settok_shape c db (s_now s) (s_req s) (s_trace s) &&
   mon_ok_justified c db (s_now s) (s_req s) (s_trace s) (s_resp s) &&
   forallb (write_ok c db seen') (s_trace s) && id_header_ok c s && reads_bound g (s_trace s)).

Definition run (hs : list hist) : list fail := take 20 (run_hists (ghost * list string) ([], []) mon02 0 hs).
