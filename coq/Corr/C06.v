(* Corr/C06.v — the per-run obligation of C06 over the summary regenerated from the Go sources. *)
From AS Require Import Base.Str Gen.Generator Corr.Common.

(* code 3 = the summary does not satisfy the obligation [secure] (the theorem csprng_view_independent does not apply) *)
Fixpoint run_from (ci : nat) (gs : list gen_summary) : list fail :=
  match gs with [] => [] | g :: gs' => ((if secure g then [] else [(ci, 0, 3)]) ++ run_from (S ci) gs')%list end.
Definition run (gs : list gen_summary) : list fail :=
  match gs with [] => [(0, 0, 3)] | _ => run_from 0 gs end.
