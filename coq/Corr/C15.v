(* Corr/C15.v — monitor for C15: a check never panics and its verdict is well-formed. *)
From AS Require Import Base.Str Oidc.Types Oidc.Prog Oidc.Handler Corr.Common Corr.Hist.

Definition wellformed (o : outcome) : bool :=
  match o with
  | OPanic => false
  | OBadAnswer => false          (* the harness maps "OK status with a denied body" and the like here *)
  | _ => true
  end.
Definition mon15 (c : cfg) (db : tokdb) (g : unit) (s : step) : unit * bool := (tt, wellformed (s_resp s)).
Definition run (hs : list hist) : list fail := take 20 (run_hists unit tt mon15 0 hs).
