(* Corr/C15.v — monitor for C15: a check never panics and its verdict is well-formed. *)
From AS Require Import Base.Str Oidc.Types Oidc.Prog Oidc.Handler Corr.Common Corr.Hist.

(* the harness maps a recovered panic to OPanic and an ill-formed verdict (OK status with a denied
   body, no status, error return) to OBadAnswer *)
Definition mon15 (c : cfg) (db : tokdb) (g : unit) (s : step) : unit * bool := (tt, no_panic (s_resp s)).
Definition run (hs : list hist) : list fail := take 20 (run_hists unit tt mon15 0 hs).
