(* Corr/C05.v — monitor for C05 on recorded histories. *)
From AS Require Import Base.Str Http.PathSplit Http.Cookie Http.SetCookie Url.Escape Oidc.Types Oidc.Prog Oidc.Handler Corr.Common Corr.Hist.

(* ghost: ids drawn by the service so far, ids presented by clients so far *)
Record g05 := { issued : list string; presented : list string }.

Definition set_cookies (o : outcome) : list string :=
  match o with
  | ODeny d => flat_map (fun kv => if String.eqb (fst kv) "set-cookie" then [snd kv] else []) (d_headers d)
  | OAllow h => flat_map (fun kv => if String.eqb (fst kv) "set-cookie" then [snd kv] else []) h
  | _ => []
  end.

Definition cookie_ok (c : cfg) (s : step) (new_id : option string) (h : string) : bool :=
  match parse_set_cookie h with
  | None => false
  | Some p =>
      host_locked_and_protected p &&
      String.eqb (pc_name p) (cookie_name (cookie_prefix c)) &&
      match new_id with
      | Some sid => String.eqb (pc_value p) sid && negb (expires_now p)     (* the login redirect: exactly the new id *)
      | None => expires_now p                                             (* anything else must be the logout's deletion *)
      end
  end.

Definition mon05 (c : cfg) (db : tokdb) (g : g05) (s : step) : g05 * bool :=
  let tr := s_trace s in
  let sid := sid_of c s in
  let pres := if String.eqb sid "" then presented g else sid :: presented g in
  let drawn := flat_map (fun ea => match ea with (EGen, AGen gn) => [g_sid gn] | _ => [] end) tr in
  let new_id := match split_gen tr with
                | Some (_, AGen gn, [(ESetAuth _ _, AUnit true)]) => Some (g_sid gn)
                | _ => None end in
  ({| issued := (drawn ++ issued g)%list; presented := pres |},
   renewal_shape c (s_req s) tr (s_resp s) &&
   settok_under_presented c (s_req s) tr &&
   (* a drawn id differs from everything a client has presented so far, and from earlier draws *)
   forallb (fun d => negb (existsb (String.eqb d) pres) && negb (existsb (String.eqb d) (issued g))) drawn &&
   (* tokens and login states are only ever stored under ids the service drew itself *)
   forallb (fun ea => match fst ea with
                      | ESetTok s' _ => existsb (String.eqb s') (issued g)
                      | ESetAuth s' _ => existsb (String.eqb s') drawn
                      | _ => true end) tr &&
   forallb (cookie_ok c s new_id) (set_cookies (s_resp s)) &&
   (* the logout answer carries the deletion *)
   (if matches_logout c (s_req s) && r_has_http (s_req s)
    then match s_resp s with
         | ODeny d => if Nat.eqb (d_status d) 302 then Nat.eqb (length (set_cookies (s_resp s))) 1 else true
         | _ => false end
    else true)).

Definition run (hs : list hist) : list fail := take 20 (run_hists g05 {| issued := []; presented := [] |} mon05 0 hs).
