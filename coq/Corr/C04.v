(* Corr/C04.v — monitor for C04 on recorded histories (several browsers and an attacker). *)
From AS Require Import Base.Str Base.Base64 Http.PathSplit Http.Cookie Url.Escape Oidc.Types Oidc.Prog Oidc.Handler Corr.Common Corr.Hist.

(* ghost ledger: for every session id the service issued, what it issued with it (state, nonce,
   verifier, the challenge it put into the redirect) and whether that login state was consumed by a
   successful exchange since *)
Record issue := { i_gen : gen_out; i_consumed : bool }.
Definition ledger := list (string * issue).

Fixpoint find_gen_auth (tr : list (eff * ans)) : option (gen_out * string) :=
  match tr with
  | (EGen, AGen g) :: (ESetAuth sid _, AUnit _) :: _ => Some (g, sid)
  | _ :: tr' => find_gen_auth tr'
  | [] => None
  end.

Definition form (q : token_request) : list (string * string) := fst (parse_query (q_body q)).

(* the strict RFC 6749 / 7636 view of one code exchange *)
Definition exchange_ok (c : cfg) (l : ledger) (s : step) (q : token_request) : bool :=
  let sid := sid_of c s in
  let f := form q in
  match lookup sid l with
  | Some i =>
      negb (i_consumed i) &&
      String.eqb (cb_state (s_req s)) (g_state (i_gen i)) &&
      String.eqb (qget "code_verifier" f) (g_verifier (i_gen i)) &&
      String.eqb (qget "code" f) (cb_code (s_req s)) &&
      String.eqb (qget "redirect_uri" f) (callback_uri c) &&
      String.eqb (qget "grant_type" f) "authorization_code" &&
      String.eqb (q_auth q) (basic_auth (client_id c) (client_secret c)) &&
      String.eqb (q_uri q) (token_uri c) && Nat.eqb (length f) 4
  | None => false
  end.

Definition challenge_in_location (o : outcome) : string :=
  match o with
  | ODeny d => match lookup "location" (d_headers d) with
               | Some loc => qget "code_challenge" (fst (parse_query (odflt (after c_q loc))))
               | None => ""
               end
  | _ => ""
  end.

Definition mon04 (c : cfg) (db : tokdb) (l : ledger) (s : step) : ledger * bool :=
  let tr := s_trace s in
  let exchanges := flat_map (fun ea => match fst ea with EIdp q => if is_code_exchange q then [q] else [] | _ => [] end) tr in
  let ok_exch := forallb (exchange_ok c l s) exchanges in
  (* a stored set of tokens after a code exchange consumes the login state of that session *)
  let l1 := match exchanges, has is_set_tok tr with
            | _ :: _, true => match lookup (sid_of c s) l with
                              | Some i => set_key (sid_of c s) {| i_gen := i_gen i; i_consumed := true |} l
                              | None => l end
            | _, _ => l end in
  (* a new redirect issues a new tuple; the challenge sent must be the one belonging to the verifier *)
  match find_gen_auth tr with
  | Some (g, sid) =>
      (set_key sid {| i_gen := g; i_consumed := false |} l1,
       ok_exch && idp_calls_shape c db (s_now s) (s_req s) tr &&
       (if is_allow (s_resp s) then true
        else match s_resp s with
             | ODeny d => if Nat.eqb (d_status d) 302 then String.eqb (challenge_in_location (s_resp s)) (g_challenge g) else true
             | _ => true end))
  | None => (l1, ok_exch && idp_calls_shape c db (s_now s) (s_req s) tr)
  end.

Definition run (hs : list hist) : list fail := take 20 (run_hists ledger [] mon04 0 hs).
