(* Corr/C09.v — monitor for C09 on controlled concurrent runs and on sequential histories. *)
From AS Require Import Base.Str Http.PathSplit Http.Cookie Url.Escape Oidc.Types Oidc.Prog Oidc.Handler Corr.Common Corr.Hist.

(* a concurrent run: a sequential prefix, the checks that ran concurrently (each with its own recorded
   effects), the global order in which their effects took place (thread index per effect), and a
   sequential suffix *)
Record crun := { cr_cfg : cfg; cr_db : list (string * idtok); cr_pre : list step; cr_threads : list step;
                 cr_order : list nat; cr_post : list step }.

(* the effects in global order, each tagged with its thread; None when the order does not fit the traces *)
Fixpoint merge (order : list nat) (rest : list (list (eff * ans))) : option (list (nat * (eff * ans))) :=
  match order with
  | [] => if forallb (fun l => match l with [] => true | _ => false end) rest then Some [] else None
  | t :: order' =>
      match nth_error rest t with
      | Some (ea :: l) =>
          let rest' := (firstn t rest ++ l :: skipn (S t) rest)%list in
          match merge order' rest' with Some m => Some ((t, ea) :: m) | None => None end
      | _ => None
      end
  end.

Definition logout_done (c : cfg) (s : step) : option string :=
  (* the session id a logout was ANSWERED for (302, cookie deletion), i.e. whose removal succeeded *)
  if r_has_http (s_req s) && matches_logout c (s_req s) then
    match s_resp s, s_trace s with
    | ODeny d, [(ERemove sid, AUnit true)] => if Nat.eqb (d_status d) 302 then Some sid else None
    | ODeny d, [] =>
        (* answered as a successful logout although the request carried a session cookie and nothing was removed *)
        if Nat.eqb (d_status d) 302 && negb (String.eqb (sid_of c s) "") then Some (sid_of c s) else None
    | _, _ => None
    end
  else None.

(* the logout answer: successful removal (or no cookie) => 302 to the end-session URI with the cookie deleted;
   failed removal => the session-error denial, not a redirect *)
Definition logout_answer_ok (c : cfg) (s : step) : bool :=
  if r_has_http (s_req s) && matches_logout c (s_req s) then
    match s_resp s with
    | ODeny d =>
        let redirected :=
          Nat.eqb (d_status d) 302 &&
          match lookup "location" (d_headers d) with Some l => String.eqb l (match logout c with Some x => lo_redirect x | None => "" end) | None => false end &&
          match lookup "set-cookie" (d_headers d) with Some sc => String.eqb sc (set_cookie_header (cookie_prefix c) "deleted" MaxAge0) | None => false end in
        match s_trace s with
        | [] => redirected && String.eqb (sid_of c s) ""      (* nothing to remove only when no session cookie was presented *)
        | [(ERemove _, AUnit true)] => redirected
        | [(ERemove _, AUnit false)] => negb (Nat.eqb (d_status d) 302) && session_error_resp (s_resp s)
        | _ => false
        end
    | _ => false
    end
  else true.

Definition writes_tokens_under (sid : string) (ea : eff * ans) : bool :=
  match fst ea with ESetTok s _ => String.eqb s sid | _ => false end.

Fixpoint index_of_removal (sid : string) (tid : nat) (m : list (nat * (eff * ans))) (i : nat) : option nat :=
  match m with
  | [] => None
  | (t, (ERemove s, AUnit true)) :: m' => if Nat.eqb t tid && String.eqb s sid then Some i else index_of_removal sid tid m' (S i)
  | _ :: m' => index_of_removal sid tid m' (S i)
  end.

Definition positions_of (tid : nat) (m : list (nat * (eff * ans))) : list nat :=
  map fst (filter (fun x => Nat.eqb (fst (snd x)) tid) (combine (seq 0 (length m)) m)).

(* codes: 1 correspondence; 3 the global effect order is not one the session map can produce;
          4 wrong logout answer; 2 logout not final (unclassified);
          11 logout not final because a check that had read the session BEFORE the logout wrote refreshed tokens AFTER it;
          12 the same with the callback's token write (session authenticated after its logout) *)
Definition finality (c : cfg) (threads : list step) (m : list (nat * (eff * ans))) (post : list step) : list nat :=
  flat_map (fun lt =>
    let '(ltid, ls) := lt in
    match logout_done c ls with
    | None => []
    | Some sid =>
        match index_of_removal sid ltid m 0 with
        | None => [2]
        | Some p =>
            (* threads that read before p and write tokens for sid after p *)
            let stale_writers :=
              filter (fun ts => let '(tid, s) := ts in
                        existsb (fun q => (q <? p)%nat) (positions_of tid m) &&
                        existsb (fun x => let '(q, (t, ea)) := x in Nat.eqb t tid && (p <? q)%nat && writes_tokens_under sid ea)
                                (combine (seq 0 (length m)) m))
                     (combine (seq 0 (length threads)) threads) in
            (* the two known ways: the stale writer is a callback that exchanged a code, or a check that ran a
               refresh exchange; a stale write of any other origin is not classified *)
            let has_grant (g : string) (s : step) :=
              existsb (fun ea => match fst ea with
                                 | EIdp q => String.eqb (qget "grant_type" (fst (parse_query (q_body q)))) g
                                 | _ => false end) (s_trace s) in
            let classify := match stale_writers with
                            | [] => 2
                            | (_, s) :: _ => if matches_callback c (s_req s) && has_grant "authorization_code" s then 12
                                             else if has_grant "refresh_token" s then 11 else 2
                            end in
            (* concurrent checks answered OK after the removal *)
            (flat_map (fun ts => let '(tid, s) := ts in
                        if negb (Nat.eqb tid ltid) && String.eqb (sid_of c s) sid && is_allow (s_resp s) &&
                           existsb (fun q => (p <? q)%nat) (positions_of tid m)
                        then [classify] else [])
                     (combine (seq 0 (length threads)) threads) ++
            (* later sequential requests with the logged-out cookie *)
            flat_map (fun s => if String.eqb (sid_of c s) sid && is_allow (s_resp s) then [classify] else []) post)%list
        end
    end) (combine (seq 0 (length threads)) threads).

Definition run_one (ci : nat) (k : crun) : list fail :=
  let c := cr_cfg k in let db := db_of (cr_db k) in
  let rp (i0 : nat) (ss : list step) := flat_map (fun x => match replay_step c db (snd x) with 0 => [] | _ => [(ci, fst x, 1)] end)
                                                 (combine (seq i0 (length ss)) ss) in
  let np := length (cr_pre k) in let nt := length (cr_threads k) in
  let g0 := fold_left ghost_step (cr_pre k) [] in
  (rp 0 (cr_pre k) ++ rp np (cr_threads k) ++ rp (np + nt) (cr_post k) ++
   match merge (cr_order k) (map s_trace (cr_threads k)) with
   | None => [(ci, np, 1)]
   | Some m =>
       (if reads_bound g0 (map snd m) then [] else [(ci, np, 3)]) ++
       map (fun code => (ci, np, code)) (finality c (cr_threads k) m (cr_post k))
   end ++
   flat_map (fun x => if logout_answer_ok c (snd x) then [] else [(ci, fst x, 4)])
            (combine (seq 0 (np + nt + length (cr_post k))) (cr_pre k ++ cr_threads k ++ cr_post k)))%list.

Fixpoint run_conc_from (ci : nat) (ks : list crun) : list fail :=
  match ks with [] => [] | k :: ks' => (run_one ci k ++ run_conc_from (S ci) ks')%list end.
Definition run_conc (ks : list crun) : list fail := take 30 (run_conc_from 0 ks).

(* sequential histories: ghost = session ids logged out so far (removed from it again only by a callback that
   stores tokens under the id, which needs a new login) *)
Definition mon09 (c : cfg) (db : tokdb) (g : list string) (s : step) : list string * bool :=
  let sid := sid_of c s in
  let g1 := match logout_done c s with Some x => x :: g | None => g end in
  (g1, logout_answer_ok c s && negb (is_allow (s_resp s) && existsb (String.eqb sid) g)).
Definition run_seq (hs : list hist) : list fail := take 20 (run_hists (list string) [] mon09 0 hs).
