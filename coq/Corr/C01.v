(* Corr/C01.v — monitor for C01 on recorded histories. *)
From AS Require Import Base.Str Http.Cookie Url.Escape Oidc.Types Oidc.Prog Oidc.Handler Corr.Common Corr.Hist.

(* (a) per check: the proved shape of an OK verdict (Oidc/Monitors.ok_shape, theorem C01_ok_justified);
   (b) across the history: the tokens the store answered with are the ones last bound to the presented
   session by a performed write - nothing was ever bound, or the session was removed => no OK. *)
Definition justified_by_history (c : cfg) (g : ghost) (s : step) : bool := reads_bound g (s_trace s).

Definition mon01 (c : cfg) (db : tokdb) (g : ghost) (s : step) : ghost * bool :=
  (ghost_step g s,
   mon_ok_justified c db (s_now s) (s_req s) (s_trace s) (s_resp s) &&
   justified_by_history c g s).

Definition run (hs : list hist) : list fail := take 20 (run_hists ghost [] mon01 0 hs).
