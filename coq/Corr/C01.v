(* Corr/C01.v — monitor for C01 on recorded histories. *)
From AS Require Import Base.Str Http.Cookie Url.Escape Oidc.Types Oidc.Prog Oidc.Handler Corr.Common Corr.Hist.

(* An OK answer must be justified: the request names a session (cookie), every effect of the check
   succeeded, the store returned tokens for exactly that session which are the ones last bound to it,
   and they are unexpired now - or they were expired, carried a refresh token, a refresh exchange with
   that refresh token was answered with a decodable body and the renewed tokens were stored for the
   same session before answering. *)
Definition is_refresh_of (c : cfg) (t : tokens) (ea : eff * ans) : bool :=
  match ea with
  | (EIdp r, AIdp (IdpBody _)) =>
      let '(params, err) := parse_query (q_body r) in
      negb err && String.eqb (qget "grant_type" params) "refresh_token" &&
      String.eqb (qget "refresh_token" params) (t_refresh t)
  | _ => false
  end.

Definition justified (c : cfg) (db : tokdb) (g : ghost) (s : step) : bool :=
  let sid := sid_of c s in
  negb (String.eqb sid "") && all_answers_ok (s_trace s) &&
  match s_trace s with
  | (EGetTok sid', ATok (Some (Some t))) :: rest =>
      String.eqb sid' sid &&
      match lookup sid g with
      | Some (GSTokens t0) => tokens_eqb t t0
      | Some GSUnknown => true
      | None => false                        (* nothing was ever bound to this id, or it was removed *)
      end &&
      match tokens_expired c db (s_now s) t with
      | Some false => match rest with [] => true | _ => false end
      | Some true =>
          negb (String.eqb (t_refresh t) "") && existsb (is_refresh_of c t) rest &&
          match last rest (EGen, AUnit false) with
          | (ESetTok sid'' _, AUnit true) => String.eqb sid'' sid
          | _ => false
          end
      | None => false
      end
  | _ => false
  end.

Definition mon01 (c : cfg) (db : tokdb) (g : ghost) (s : step) : ghost * bool :=
  (ghost_step g s, if is_allow (s_resp s) then justified c db g s else true).

Definition run (hs : list hist) : list fail := take 20 (run_hists ghost [] mon01 0 hs).
