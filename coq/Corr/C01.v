(* Corr/C01.v — monitor for C01 on recorded histories. *)
From AS Require Import Base.Str Http.Cookie Url.Escape Oidc.Types Oidc.Prog Oidc.Handler Corr.Common Corr.Hist.

(* (a) per check: the proved shape of an OK verdict (Oidc/Monitors.ok_shape, theorem C01_ok_justified);
   (b) across the history: the tokens the store answered with are the ones last bound to the presented
   session by a performed write - nothing was ever bound, or the session was removed => no OK. *)
Definition justified_by_history (c : cfg) (g : ghost) (s : step) : bool := reads_bound g (s_trace s).

Definition mon01 (c : cfg) (db : tokdb) (g : ghost) (s : step) : ghost * bool :=
  (ghost_step g s,
   mon_ok_justified c db (s_now s) (s_req s) (s_trace s) (s_resp s) &&
   justified_by_history c g s).

(* (c) the session timeouts of the store behind the handler (C10 at the level of verdicts): per session id, the time of
   the write that created it and the time of the last performed store operation on it, rebuilt from the effects
   (None = unknown, after a write or removal that was reported failed).  Both are taken leniently (any operation counts
   as a use, one second of slack), so that an OK verdict flagged here is past its limit under either store's rule. *)
Definition tghost := list (string * option (Z * Z)).
Definition t_touch (now : Z) (tg : tghost) (sid : string) (creates : bool) : tghost :=
  match lookup sid tg with
  | Some (Some (cr, _)) => set_key sid (Some (cr, now)) tg
  | Some None => tg
  | None => if creates then set_key sid (Some (now, now)) tg else tg
  end.
Definition t_eff (now : Z) (tg : tghost) (ea : eff * ans) : tghost :=
  match ea with
  | (ESetAuth sid _, AUnit true) | (ESetTok sid _, AUnit true) => t_touch now tg sid true
  | (ESetAuth sid _, AUnit false) | (ESetTok sid _, AUnit false) | (ERemove sid, AUnit false) | (EClearAuth sid, AUnit false) => set_key sid None tg
  | (ERemove sid, AUnit true) => remove_key sid tg
  | (EClearAuth sid, AUnit true) | (EGetTok sid, ATok (Some _)) | (EGetAuth sid, AAuth (Some _)) => t_touch now tg sid false
  | _ => tg
  end.
Definition within_timeouts (abs idle : Z) (c : cfg) (tg : tghost) (s : step) : bool :=
  match s_resp s with
  | OAllow _ =>
      match lookup (sid_of c s) tg with
      | Some (Some (cr, last)) =>
          ((abs =? 0)%Z || (s_now s <=? cr + abs + 1000000000)%Z) && ((idle =? 0)%Z || (s_now s <=? last + idle + 1000000000)%Z)
      | _ => true
      end
  | _ => true
  end.

(* codes: 1 correspondence, 2 OK not justified, 6 OK for a session past one of its timeouts *)
Fixpoint run_steps01 (abs idle : Z) (c : cfg) (db : tokdb) (g : ghost) (tg : tghost) (ci : nat) (ss : list step) (i : nat) : list fail :=
  match ss with
  | [] => []
  | s :: ss' =>
      let '(g', ok) := mon01 c db g s in
      ((if ok then [] else [(ci, i, 2)]) ++
       (if within_timeouts abs idle c tg s then [] else [(ci, i, 6)]) ++
       (match replay_step c db s with 0 => [] | _ => [(ci, i, 1)] end) ++
       run_steps01 abs idle c db g' (fold_left (t_eff (s_now s)) (s_trace s) tg) ci ss' (S i))%list
  end.
Fixpoint run_hists01 (ci : nat) (hs : list hist) : list fail :=
  match hs with
  | [] => []
  | h :: hs' => (run_steps01 (h_abs h) (h_idle h) (h_cfg h) (db_of (h_db h)) [] [] ci (h_steps h) 0 ++ run_hists01 (S ci) hs')%list
  end.
Definition run (hs : list hist) : list fail := take 20 (run_hists01 0 hs).
