(* Corr/C14.v — monitor for C14 on recorded histories: every credential of the history is a unique
   marker (h_secrets); no answer to the browser may contain one, raw or query-escaped; an OK adds only
   the configured token headers. *)
From AS Require Import Base.Str Base.Base64 Http.PathSplit Http.Cookie Url.Escape Oidc.Types Oidc.Prog Oidc.Handler Corr.Common Corr.Hist.

Fixpoint contains (needle hay : string) : bool :=
  if prefixb needle hay then true
  else match hay with EmptyString => false | String _ h' => contains needle h' end.

(* every secret in the encodings the service could apply, computed once per history *)
Definition encodings (secrets : list string) : list string :=
  flat_map (fun s => if String.eqb s "" then [] else [s; query_escape s; base64 s]) secrets.

Definition leaks (encs : list string) (text : string) : bool := existsb (fun e => contains e text) encs.

Definition deny_clean (encs : list string) (o : outcome) : bool :=
  match o with
  | ODeny d => negb (leaks encs (d_body d)) &&
               forallb (fun kv => negb (leaks encs (snd kv))) (d_headers d)
  | _ => true
  end.

Definition ok_adds_only_tokens (c : cfg) (o : outcome) : bool :=
  match o with
  | OAllow h =>
      forallb (fun kv => String.eqb (fst kv) (tc_header (id_token c)) ||
                         match access_token c with Some at_ => String.eqb (fst kv) (tc_header at_) | None => false end) h
  | _ => true
  end.

Section WithSecrets.
  Variable encs : list string.
  Definition mon14 (c : cfg) (db : tokdb) (g : unit) (s : step) : unit * bool :=
    (tt, deny_clean encs (s_resp s) && ok_adds_only_tokens c (s_resp s) && deny_is_public c (s_trace s) (s_resp s)).
End WithSecrets.

Fixpoint run_from (ci : nat) (hs : list hist) : list fail :=
  match hs with
  | [] => []
  | h :: hs' => let encs := encodings (h_secrets h) in
               (run_steps unit (mon14 encs) (h_cfg h) (db_of (h_db h)) tt ci (h_steps h) 0 ++ run_from (S ci) hs')%list
  end.
Definition run (hs : list hist) : list fail := take 20 (run_from 0 hs).
