(* Corr/C17.v — correspondence and monitor for configuration loading. *)
From AS Require Import Base.Str Config.Loader Proofs.P17 Corr.Common.

Record case17 := { k_in : config; k_class : nat (* 0 accepted, 1 error, 2 panic *); k_out : option config }.

(* codes: 1 = model and implementation disagree (class, or the accepted configuration); 6 = both accept, different result;
          2 = the implementation accepted a configuration that is not fully resolved, or panicked *)
Definition run_case (ci : nat) (k : case17) : list fail :=
  let m := load (k_in k) in
  ((match m, k_class k, k_out k with
    (* both accept but the accepted configuration is not the field-by-field resolution of the document: the
       property speaks about exactly that ("overrides merged over the default field by field") *)
    | Ok c, 0, Some c' => if config_eqb c c' then [] else [(ci, 0, 1); (ci, 0, 6)]
    | Error, 1, _ => []
    | Panic, 2, _ => []
    | _, _, _ => [(ci, 0, 1)]
    end) ++
   (match k_class k, k_out k with
    | 0, Some c' => if forallb chain_resolved (chains c') && match default_oidc c' with None => true | Some _ => false end
                       && negb (match chains c' with [] => true | _ => false end)
                    then [] else [(ci, 0, 2)]
    | 0, None => [(ci, 0, 1)]
    | 2, _ => [(ci, 0, 2)]
    | _, _ => []
    end))%list.

Fixpoint run_from (ci : nat) (ks : list case17) : list fail :=
  match ks with [] => [] | k :: ks' => (run_case ci k ++ run_from (S ci) ks')%list end.
Definition run (ks : list case17) : list fail := take 30 (run_from 0 ks).
