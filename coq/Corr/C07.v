(* Corr/C07.v — correspondence + monitor for C07. *)
From AS Require Import Base.Str Http.PathSplit Server.Trigger Server.Regex Corr.Common.

(* Independent boolean formulation of the documented decision, over an independently split path:
   path = longest prefix of the target free of '?' and '#'. *)
Fixpoint path_component (t : string) : string :=
  match t with
  | EmptyString => EmptyString
  | String a t' => if Ascii.eqb a "?"%char || Ascii.eqb a "#"%char then EmptyString
                   else String a (path_component t')
  end.

Definition spec_bool (rx : string -> string -> bool) (rules : list rule) (t : string) : bool :=
  let p := path_component t in
  match rules with [] => true | _ => false end
  || String.eqb p ""
  || existsb (fun r => forallb (fun m => negb (string_match rx m p)) (excluded r)
                       && (match included r with [] => true | _ => false end
                           || existsb (fun m => string_match rx m p) (included r))) rules.

Record case07 := {
  k_rules : list rule;
  k_regex : list (string * regex);          (* pattern text -> AST it was printed from *)
  k_alpha : string; k_len : nat;            (* exhaustive part: all words over alpha up to len ... *)
  k_bits : string;                          (* ... and the implementation's answers, '1' = triggered *)
  k_extra : list (string * bool)            (* further targets with the implementation's answers *)
}.

Fixpoint check_items (rx : string -> string -> bool) (rules : list rule) (ci : nat)
         (items : list (string * bool)) (i : nat) : list fail :=
  match items with
  | [] => []
  | (t, impl) :: items' =>
      let m := must_trigger rx rules t in
      let s := spec_bool rx rules t in
      (if Bool.eqb impl s then [] else [(ci, i, 2)]) ++
      (if Bool.eqb impl m then [] else [(ci, i, 1)]) ++
      check_items rx rules ci items' (S i)
  end%list.

Definition check_case (ci : nat) (k : case07) : list fail :=
  let rx := rx_of_table (k_regex k) in
  let ws := words_upto (list_of_str (k_alpha k)) (k_len k) in
  let bits := map bit_of (list_of_str (k_bits k)) in
  let exh := combine ws bits in
  (if Nat.eqb (length ws) (length bits) then [] else [(ci, 0, 3)]) ++
  check_items rx (k_rules k) ci (exh ++ k_extra k) 0.

Fixpoint run_from (ci : nat) (ks : list case07) : list fail :=
  match ks with [] => [] | k :: ks' => (check_case ci k ++ run_from (S ci) ks')%list end.
Definition run (ks : list case07) : list fail := take 20 (run_from 0 ks).
Definition count (ks : list case07) : nat :=
  fold_left (fun n k => n + length (list_of_str (k_bits k)) + length (k_extra k)) ks 0.
