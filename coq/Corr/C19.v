(* Corr/C19.v — correspondence and monitor for the Kubernetes secret controller. *)
From AS Require Import Base.Str K8s.Secrets Corr.Common.

Record case19 := { k_cns : string; k_sources : list source; k_startup_ok : bool; k_events : list event; k_obs : list (list string) }.

Fixpoint rows_eqb (a b : list (list string)) : bool :=
  match a, b with
  | [], [] => true
  | x :: a', y :: b' => list_eqb String.eqb x y && rows_eqb a' b'
  | _, _ => false
  end.

(* codes: 1 = the controller model and the implementation differ;
          2 = some filter's secret is not what the per-filter reference says, or a cross-namespace reference was accepted *)
Definition run_case (ci : nat) (k : case19) : list fail :=
  let cns := k_cns k in
  let cross := existsb (fun s => match s with
                                 | SrcRef ns name => negb (String.eqb name "") && negb (String.eqb ns "") && negb (String.eqb ns cns)
                                 | _ => false end) (k_sources k) in
  match load_secrets cns (k_sources k) with
  | None => (if k_startup_ok k then [(ci, 0, 1)] else []) ++ (if cross then [] else [(ci, 0, 1)])
  | Some m =>
      ((if k_startup_ok k then [] else [(ci, 0, 1)]) ++
       (if rows_eqb (run_events m ([], k_sources k) (k_events k)) (k_obs k) then [] else [(ci, 1, 1)]) ++
       flat_map (fun js => let '(j, s) := js in
                   if list_eqb String.eqb (map (fun row => nth j row "") (k_obs k)) (ref_filter (watched cns s) s [] (k_events k))
                   then [] else [(ci, j, 2)])
                (combine (seq 0 (length (k_sources k))) (k_sources k)))%list
  end ++ (if cross && k_startup_ok k then [(ci, 0, 2)] else []).

Fixpoint run_from (ci : nat) (ks : list case19) : list fail :=
  match ks with [] => [] | k :: ks' => (run_case ci k ++ run_from (S ci) ks')%list end.
Definition run (ks : list case19) : list fail := take 30 (run_from 0 ks).
