(* Corr/C20.v — correspondence and monitor for the TLS configuration pool. *)
From AS Require Import Base.Str Tls.Pool Corr.Common.

Inductive op20 :=
| OLoad (s : nat) (r : lres)                       (* LoadTLSConfig(settings s) returned r (object = index by first appearance) *)
| OWrite (file content : string)
| OWait                                            (* ten refresh intervals pass *)
| OProbe (client : nat) (ca : string) (ok : bool). (* the client built at the client-th load opened a new connection to the server of CA ca *)
Record case20 := { k_files : list (string * string); k_settings : list settings; k_ops : list op20 }.

(* usable PEM contents of the harness: the two CAs and bundles of them *)
Definition pem_ok (s : string) : bool :=
  negb (String.eqb s "") && forallb (fun p => String.eqb p "PEM-A" || String.eqb p "PEM-B") (split_on "+"%char s).
Definition lres_eqb (a b : lres) : bool :=
  match a, b with LNil, LNil | LErr, LErr => true | LObj i, LObj j => Nat.eqb i j | _, _ => false end.
Definition dflt_settings : settings := {| ts_ca := ""; ts_file := ""; ts_skip := None; ts_interval := 0; ts_interval_str := "0s" |}.

(* the reference, independent of pool and watcher bookkeeping: what a client should trust *)
Record refc := { rc_settings : settings; rc_ok : bool; rc_insecure : bool; rc_extra : option string; rc_index : nat }.
Definition ref_of (fs : list (string * string)) (s : settings) (ok : bool) (idx : nat) : refc :=
  {| rc_settings := s; rc_ok := ok; rc_index := idx;
     rc_insecure := String.eqb (ts_ca s) "" && String.eqb (ts_file s) "" && boolstr (ts_skip s);
     rc_extra := if negb (String.eqb (ts_ca s) "") then Some (ts_ca s)
                 else if negb (String.eqb (ts_file s) "") then match lookup (ts_file s) fs with Some d => if String.eqb d "" then None else Some d | None => None end
                 else None |}.
Definition ref_wait (fs : list (string * string)) (rc : refc) : refc :=
  let s := rc_settings rc in
  if String.eqb (ts_ca s) "" && negb (String.eqb (ts_file s) "") && (0 <? ts_interval s)%Z then
    match lookup (ts_file s) fs with
    | Some d => if pem_ok d then {| rc_settings := s; rc_ok := rc_ok rc; rc_insecure := rc_insecure rc; rc_extra := Some d; rc_index := rc_index rc |} else rc
    | None => rc
    end
  else rc.
Definition ref_trusts (rc : refc) (ca : string) : bool :=
  rc_insecure rc || match rc_extra rc with Some p => existsb (String.eqb ca) (split_on "+"%char p) | None => false end.
(* a later load of DIFFERENT settings that watches the same file (the known way a watcher is lost) *)
Definition superseded (rcs : list refc) (k : nat) : bool :=
  match nth_error rcs k with
  | Some rc =>
      existsb (fun rc' => (rc_index rc <? rc_index rc')%nat && String.eqb (ts_file (rc_settings rc')) (ts_file (rc_settings rc)) &&
                          negb (String.eqb (ts_file (rc_settings rc)) "") &&
                          negb (id_eqb (pool_id (rc_settings rc')) (pool_id (rc_settings rc)))) rcs
  | None => false
  end.

(* codes: 1 = pool model and implementation differ; 2 = a client does not trust what its settings (and the file's
   content as of the last elapsed interval) say; 12 = the same, for a client whose file is also watched by later,
   different settings (watcher superseded) *)
Fixpoint walk (ci i : nat) (settings_ : list settings) (ops : list op20) (st : pstate) (fs : list (string * string))
         (clients : list (option nat)) (rcs : list refc) : list fail :=
  match ops with
  | [] => []
  | o :: ops' =>
      match o with
      | OLoad k r =>
          let s := nth k settings_ dflt_settings in
          let '(st1, mr) := load pem_ok st s in
          ((if lres_eqb mr r then [] else [(ci, i, 1)]) ++
           walk ci (S i) settings_ ops' st1 fs
                (clients ++ [match mr with LObj j => Some j | _ => None end])
                (* identical settings loaded again are served from the pool: the client shares the configuration (and the
                   reference) of the first successful load of those settings - the file is not read again *)
                (rcs ++ [match find (fun rc => rc_ok rc && id_eqb (pool_id (rc_settings rc)) (pool_id s) &&
                                               negb (String.eqb (ts_ca s) "" && String.eqb (ts_file s) "" && match ts_skip s with None => true | Some _ => false end)) rcs with
                         | Some rc0 => {| rc_settings := s; rc_ok := true; rc_insecure := rc_insecure rc0; rc_extra := rc_extra rc0; rc_index := length rcs |}
                         | None => ref_of fs s (match r with LErr => false | _ => true end) (length rcs)
                         end]))%list
      | OWrite f content =>
          walk ci (S i) settings_ ops' (rewrite_file st f content) (set_key f content fs) clients rcs
      | OWait => walk ci (S i) settings_ ops' (tick pem_ok st) fs clients (map (ref_wait fs) rcs)
      | OProbe k ca ok =>
          let model := match nth_error clients k with
                       | Some (Some j) => match nth_error (objs st) j with Some t => trusts t ca | None => false end
                       | _ => false end in
          let reference := match nth_error rcs k with Some rc => ref_trusts rc ca | None => false end in
          ((if Bool.eqb model ok then [] else [(ci, i, 1)]) ++
           (if Bool.eqb reference ok then [] else [(ci, i, if superseded rcs k then 12 else 2)]) ++
           walk ci (S i) settings_ ops' st fs clients rcs)%list
      end
  end.

Definition run_case (ci : nat) (k : case20) : list fail :=
  walk ci 0 (k_settings k) (k_ops k) (pinit (k_files k)) (k_files k) [] [].
Fixpoint run_from (ci : nat) (ks : list case20) : list fail :=
  match ks with [] => [] | k :: ks' => (run_case ci k ++ run_from (S ci) ks')%list end.
Definition run (ks : list case20) : list fail := take 40 (run_from 0 ks).
