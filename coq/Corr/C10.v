(* Corr/C10.v — band monitor for C10 on store-level histories, judged from the OBSERVED results only
   (no store model involved): a read that returns data must lie inside created+abs and last-use+idle; a
   session with a whole second left inside both limits must not be dropped.  Where the observations do
   not determine whether a session was kept or recreated (a write inside the last second), both are
   allowed for. *)
From AS Require Import Base.Str Oidc.Types Store.Spec Store.Memory Store.Redis Corr.Common.
From AS Require Export Corr.C12.

Record g10 := { ga_lo : Z; ga_hi : Z; gl_any : Z; gl_data : Z; g_tok : bool; g_auth : bool; g_unsure : bool }.
Definition ghost10 := list (string * g10).

Section Band.
  Variables abs idle : Z.
  Definition surely_dead (e : g10) (now : Z) : bool :=
    ((0 <? abs)%Z && (ga_hi e + abs <? now)%Z) || ((0 <? idle)%Z && (gl_any e + idle <? now)%Z).
  Definition surely_alive (e : g10) (now : Z) : bool :=
    negb (g_unsure e) &&
    (negb (0 <? abs)%Z || (now + second <=? ga_lo e + abs)%Z) && (negb (0 <? idle)%Z || (now + second <=? gl_data e + idle)%Z).

  Definition sid_of (o : sop) : string := match o with OSetTok s _ | OGetTok s | OSetAuth s _ | OGetAuth s | OClearAuth s | ORemove s => s end.

  (* returns the new ghost and a code: 0 fine, 6 honoured too late, 7 dropped too early *)
  Definition step10 (g : ghost10) (now : Z) (o : sop) (r : option sres) : ghost10 * nat :=
    let sid := sid_of o in
    let cur := match lookup sid g with Some e => if surely_dead e now then None else Some e | None => None end in
    let write (tok auth : bool) :=
      match cur with
      | None => set_key sid {| ga_lo := now; ga_hi := now; gl_any := now; gl_data := now; g_tok := tok; g_auth := auth; g_unsure := false |} g
      | Some e => set_key sid {| ga_lo := ga_lo e; ga_hi := if surely_alive e now then ga_hi e else now; gl_any := now; gl_data := now;
                                  g_tok := tok || g_tok e; g_auth := auth || g_auth e;
                                  (* written inside the last second: the store may have kept the session or started a new one *)
                                  g_unsure := g_unsure e || negb (surely_alive e now) |} g
      end in
    match o, r with
    | OSetTok _ _, _ => (write true false, 0)
    | OSetAuth _ _, _ => (write false true, 0)
    | ORemove _, _ => (remove_key sid g, 0)
    | OClearAuth _, _ =>
        match cur with
        | None => (remove_key sid g, 0)
        | Some e => (set_key sid {| ga_lo := ga_lo e; ga_hi := ga_hi e; gl_any := now; gl_data := now; g_tok := g_tok e; g_auth := false;
                                    g_unsure := g_unsure e || negb (surely_alive e now) |} g, 0)
        end
    | OGetTok _, Some (RTok (Some _)) | OGetAuth _, Some (RAuth (Some _)) =>
        match cur with
        | None => (g, 6)
        | Some e => (set_key sid {| ga_lo := ga_lo e; ga_hi := ga_hi e; gl_any := now; gl_data := now; g_tok := g_tok e; g_auth := g_auth e; g_unsure := false |} g, 0)
        end
    | OGetTok _, Some (RTok None) | OGetAuth _, Some (RAuth None) =>
        match cur with
        | None => (remove_key sid g, 0)
        | Some e =>
            let had := match o with OGetTok _ => g_tok e | _ => g_auth e end in
            if had then (remove_key sid g, if surely_alive e now then 7 else 0)       (* the store dropped it *)
            else (set_key sid {| ga_lo := ga_lo e; ga_hi := ga_hi e; gl_any := now; gl_data := gl_data e; g_tok := g_tok e; g_auth := g_auth e;
                                 g_unsure := g_unsure e |} g, 0)
        end
    | _, _ => (g, 0)      (* an error answer: nothing is learnt *)
    end.
End Band.

Section Case.
  Variable parsing : list string.

  Fixpoint walk10 (abs idle : Z) (ci i : nat) (ops : list (Z * sop)) (mem : list sres) (red : list rres) (gm gr : ghost10) : list fail :=
    match ops, mem, red with
    | (now, o) :: ops', rm :: mem', rr :: red' =>
        let '(gm1, cm) := step10 abs idle gm now o (Some rm) in
        let '(gr1, cr) := step10 abs idle gr now o (match rr with ROk x => Some x | RErr => None end) in
        ((match cm with 0 => [] | c => [(ci, i, c)] end) ++ (match cr with 0 => [] | c => [(ci, i, c + 2)] end) ++
         walk10 abs idle ci (S i) ops' mem' red' gm1 gr1)%list
    | _, _, _ => []
    end.

  Definition wf_case (k : case12) : bool := forallb (fun to => wf_op (parses parsing) (snd to)) (k_ops k).
  Definition run_case10 (ci : nat) (k : case12) : list fail :=
    (* correspondence with the store models, as for C12 (codes 1; C12's own verdicts 2 and 5 are not C10's) *)
    (filter (fun f => match f with (_, _, 1) => true | _ => false end) (run_case parsing ci k) ++
     (if wf_case k then walk10 (k_abs k) (k_idle k) ci 0 (k_ops k) (k_mem k) (k_redis k) [] [] else []))%list.
End Case.

Fixpoint run_from10 (parsing : list string) (ci : nat) (ks : list case12) : list fail :=
  match ks with [] => [] | k :: ks' => (run_case10 parsing ci k ++ run_from10 parsing (S ci) ks')%list end.
Definition run (parsing : list string) (ks : list case12) : list fail := take 30 (run_from10 parsing 0 ks).
Definition run_lin := Corr.C12.run_lin.
