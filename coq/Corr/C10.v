(* Corr/C10.v — band monitor for C10 on store-level histories, judged from the OBSERVED results only
   (no store model involved): a read that returns data must lie inside created+abs and last-use+idle; a
   session with a whole second left inside both limits must not be dropped.  Where the observations do
   not determine whether a session was kept or recreated (a write inside the last second), both are
   allowed for. *)
From AS Require Import Base.Str Oidc.Types Store.Spec Store.Memory Store.Redis Corr.Common.
From AS Require Export Corr.C12.

(* per component (tokens, login state): does the ghost hold it, and is that uncertain (the session was written inside the last
   second before a limit, so the store may have kept it or started a new one - a new one has lost the other component) *)
Record g10 := { ga_lo : Z; ga_hi : Z; gl_any : Z; gl_data : Z; g_tok : bool; g_auth : bool; g_utok : bool; g_uauth : bool }.
Definition ghost10 := list (string * g10).

Section Band.
  Variables abs idle : Z.
  Definition surely_dead (e : g10) (now : Z) : bool :=
    ((0 <? abs)%Z && (ga_hi e + abs <? now)%Z) || ((0 <? idle)%Z && (gl_any e + idle <? now)%Z).
  (* a whole second remains inside both limits *)
  Definition in_limits (e : g10) (now : Z) : bool :=
    (negb (0 <? abs)%Z || (now + second <=? ga_lo e + abs)%Z) && (negb (0 <? idle)%Z || (now + second <=? gl_data e + idle)%Z).

  Definition sid_of (o : sop) : string := match o with OSetTok s _ | OGetTok s | OSetAuth s _ | OGetAuth s | OClearAuth s | ORemove s => s end.

  (* returns the new ghost and a code: 0 fine, 6 honoured too late, 7 dropped too early *)
  Definition step10 (g : ghost10) (now : Z) (o : sop) (r : option sres) : ghost10 * nat :=
    let sid := sid_of o in
    let cur := match lookup sid g with Some e => if surely_dead e now then None else Some e | None => None end in
    let write (tok auth : bool) :=
      match cur with
      | None => set_key sid {| ga_lo := now; ga_hi := now; gl_any := now; gl_data := now; g_tok := tok; g_auth := auth; g_utok := false; g_uauth := false |} g
      | Some e =>
          let kept := in_limits e now in     (* otherwise the store may have started a new session: the OTHER component may be gone *)
          set_key sid {| ga_lo := ga_lo e; ga_hi := if kept then ga_hi e else now; gl_any := now; gl_data := now;
                         g_tok := tok || g_tok e; g_auth := auth || g_auth e;
                         g_utok := if tok then false else g_utok e || negb kept;
                         g_uauth := if auth then false else g_uauth e || negb kept |} g
      end in
    match o, r with
    | OSetTok _ _, _ => (write true false, 0)
    | OSetAuth _ _, _ => (write false true, 0)
    | ORemove _, _ => (remove_key sid g, 0)
    | OClearAuth _, _ =>
        match cur with
        | None => (remove_key sid g, 0)
        | Some e => (set_key sid {| ga_lo := ga_lo e; ga_hi := ga_hi e; gl_any := now; gl_data := now; g_tok := g_tok e; g_auth := false;
                                    g_utok := g_utok e || negb (in_limits e now); g_uauth := false |} g, 0)
        end
    | OGetTok _, Some (RTok (Some _)) =>
        match cur with
        | None => (g, 6)
        | Some e => (set_key sid {| ga_lo := ga_lo e; ga_hi := ga_hi e; gl_any := now; gl_data := now; g_tok := true; g_auth := g_auth e;
                                    g_utok := false; g_uauth := g_uauth e || negb (in_limits e now) |} g, 0)
        end
    | OGetAuth _, Some (RAuth (Some _)) =>
        match cur with
        | None => (g, 6)
        | Some e => (set_key sid {| ga_lo := ga_lo e; ga_hi := ga_hi e; gl_any := now; gl_data := now; g_tok := g_tok e; g_auth := true;
                                    g_utok := g_utok e || negb (in_limits e now); g_uauth := false |} g, 0)
        end
    | OGetTok _, Some (RTok None) | OGetAuth _, Some (RAuth None) =>
        match cur with
        | None => (remove_key sid g, 0)
        | Some e =>
            let is_tok := match o with OGetTok _ => true | _ => false end in
            let had := if is_tok then g_tok e else g_auth e in
            let unsure := if is_tok then g_utok e else g_uauth e in
            if had then
              (* the component is gone: the store dropped the session (and possibly started a new one with the other component) *)
              if unsure then
                (set_key sid {| ga_lo := ga_lo e; ga_hi := ga_hi e; gl_any := now; gl_data := gl_data e;
                                g_tok := if is_tok then false else g_tok e; g_auth := if is_tok then g_auth e else false;
                                g_utok := if is_tok then false else g_utok e; g_uauth := if is_tok then g_uauth e else false |} g, 0)
              else (remove_key sid g, if in_limits e now then 7 else 0)
            else (set_key sid {| ga_lo := ga_lo e; ga_hi := ga_hi e; gl_any := now; gl_data := gl_data e; g_tok := g_tok e; g_auth := g_auth e;
                                 g_utok := g_utok e; g_uauth := g_uauth e |} g, 0)
        end
    | _, _ => (g, 0)      (* an error answer: nothing is learnt *)
    end.
End Band.

Section Case.
  Variable parsing : list string.

  Fixpoint walk10 (abs idle : Z) (ci i : nat) (ops : list (Z * sop)) (mem : list sres) (red : list rres) (gm gr : ghost10) : list fail :=
    match ops, mem, red with
    | (now, o) :: ops', rm :: mem', rr :: red' =>
        let '(gm1, cm) := step10 abs idle gm now o (Some rm) in
        let '(gr1, cr) := step10 abs idle gr now o (match rr with ROk x => Some x | RErr => None end) in
        ((match cm with 0 => [] | c => [(ci, i, c)] end) ++ (match cr with 0 => [] | c => [(ci, i, c + 2)] end) ++
         walk10 abs idle ci (S i) ops' mem' red' gm1 gr1)%list
    | _, _, _ => []
    end.

  Definition wf_case (k : case12) : bool := forallb (fun to => wf_op (parses parsing) (snd to)) (k_ops k).
  Definition run_case10 (ci : nat) (k : case12) : list fail :=
    (* correspondence with the store models, as for C12 (codes 1; C12's own verdicts 2 and 5 are not C10's) *)
    (filter (fun f => match f with (_, _, 1) => true | _ => false end) (run_case parsing ci k) ++
     (if wf_case k then walk10 (k_abs k) (k_idle k) ci 0 (k_ops k) (k_mem k) (k_redis k) [] [] else []))%list.
End Case.

Fixpoint run_from10 (parsing : list string) (ci : nat) (ks : list case12) : list fail :=
  match ks with [] => [] | k :: ks' => (run_case10 parsing ci k ++ run_from10 parsing (S ci) ks')%list end.
Definition run (parsing : list string) (ks : list case12) : list fail := take 30 (run_from10 parsing 0 ks).
Definition run_lin := Corr.C12.run_lin.
