(* Conc/Lockset.v — the lock discipline behind C16.
   (1) Soundness, proved once: in any execution in which a lock is acquired only when free and released only by its
       holder, two accesses to a location by different threads that both happen while their thread holds one common
       lock are separated by a release of that lock by the first thread and a LATER acquisition of it by the second
       one - a synchronises-with edge of the Go memory model - so they are ordered by happens-before and cannot be
       a data race.
   (2) A summary of the accesses of the shipped code (location, function, read/write, under its lock or not, start-up
       or serving phase), REGENERATED from the sources on every run, and the per-run obligation that every location
       written while serving is accessed under its lock everywhere, except for a committed list of known unprotected
       locations. *)
From AS Require Import Base.Str.

Inductive ev := Acq (t l : nat) | Rel (t l : nat) | Acc (t x : nat) (write : bool).

Section OneLock.
  Variable l : nat.

  (* the holder of lock l after one more event *)
  Definition step (h : option nat) (e : ev) : option nat :=
    match e with
    | Acq t l' => if Nat.eqb l' l then Some t else h
    | Rel _ l' => if Nat.eqb l' l then None else h
    | Acc _ _ _ => h
    end.
  Definition after (h : option nat) (tr : list ev) : option nat := fold_left step tr h.

  (* the lock is used correctly: acquired only when free, released only by its holder (events oldest first) *)
  Fixpoint wf (h : option nat) (tr : list ev) : Prop :=
    match tr with
    | [] => True
    | e :: tr' =>
        match e with
        | Acq _ l' => if Nat.eqb l' l then h = None else True
        | Rel t l' => if Nat.eqb l' l then h = Some t else True
        | Acc _ _ _ => True
        end /\ wf (step h e) tr'
    end.

  Lemma wf_app h a b : wf h (a ++ b) -> wf h a /\ wf (after h a) b.
  Proof.
    revert h. induction a as [|e a IH]; intros h; cbn [app wf after fold_left]; [auto|].
    intros [H1 H2]. destruct (IH _ H2) as [Ha Hb]. auto.
  Qed.
  Lemma after_app h a b : after h (a ++ b) = after (after h a) b.
  Proof. unfold after. apply fold_left_app. Qed.

  (* whoever holds the lock at the end and did not hold it at the start acquired it on the way *)
  Lemma became_holder tr : forall h t, after h tr = Some t -> h <> Some t ->
    exists a b, tr = (a ++ Acq t l :: b)%list.
  Proof.
    induction tr as [|e tr IH]; intros h t H N; cbn [after fold_left] in H; [contradiction|].
    destruct e as [t' l'|t' l'|t' x w]; cbn [step] in H.
    - destruct (Nat.eqb_spec l' l) as [->|Ne].
      + destruct (Nat.eq_dec t' t) as [->|Nt]; [exists [], tr; reflexivity|].
        destruct (IH (Some t') t H) as [a [b ->]]; [congruence|]. exists (Acq t' l :: a), b. reflexivity.
      + destruct (IH h t H N) as [a [b ->]]. exists (Acq t' l' :: a), b. reflexivity.
    - destruct (Nat.eqb_spec l' l) as [->|Ne].
      + destruct (IH None t H) as [a [b ->]]; [discriminate|]. exists (Rel t' l :: a), b. reflexivity.
      + destruct (IH h t H N) as [a [b ->]]. exists (Rel t' l' :: a), b. reflexivity.
    - destruct (IH h t H N) as [a [b ->]]. exists (Acc t' x w :: a), b. reflexivity.
  Qed.

  (* if t1 holds the lock and later t2 <> t1 does, t1 released it in between and t2 acquired it after that *)
  Lemma handover tr : forall t1 t2, t1 <> t2 -> wf (Some t1) tr -> after (Some t1) tr = Some t2 ->
    exists a b c, tr = (a ++ Rel t1 l :: b ++ Acq t2 l :: c)%list.
  Proof.
    induction tr as [|e tr IH]; intros t1 t2 N W H; cbn [after fold_left] in H; [congruence|].
    cbn [wf] in W. destruct W as [We W].
    destruct e as [t' l'|t' l'|t' x w]; cbn [step] in *.
    - destruct (Nat.eqb_spec l' l) as [->|Ne]; [discriminate We|].
      destruct (IH t1 t2 N W H) as [a [b [c ->]]]. exists (Acq t' l' :: a), b, c. reflexivity.
    - destruct (Nat.eqb_spec l' l) as [->|Ne].
      + inversion We; subst t'.
        destruct (became_holder tr None t2 H) as [b [c ->]]; [discriminate|]. exists [], b, c. reflexivity.
      + destruct (IH t1 t2 N W H) as [a [b [c ->]]]. exists (Rel t' l' :: a), b, c. reflexivity.
    - destruct (IH t1 t2 N W H) as [a [b [c ->]]]. exists (Acc t' x w :: a), b, c. reflexivity.
  Qed.

  (* lockset soundness *)
  Theorem lockset_sound pre mid post t1 t2 x w1 w2 :
    wf None (pre ++ Acc t1 x w1 :: mid ++ Acc t2 x w2 :: post) ->
    t1 <> t2 ->
    after None pre = Some t1 ->                               (* t1 holds the lock at its access *)
    after None (pre ++ Acc t1 x w1 :: mid) = Some t2 ->       (* t2 holds it at its access *)
    exists a b c, mid = (a ++ Rel t1 l :: b ++ Acq t2 l :: c)%list.
  Proof.
    intros W N H1 H2.
    apply wf_app in W as [_ W]. rewrite H1 in W. cbn [wf step] in W. destruct W as [_ W].
    change (Acc t1 x w1 :: mid) with ([Acc t1 x w1] ++ mid)%list in H2.
    rewrite after_app, after_app, H1 in H2. cbn [after fold_left step] in H2.
    apply wf_app in W as [W _].
    apply (handover mid t1 t2 N W H2).
  Qed.
End OneLock.

(* ---------------- the regenerated summary and its obligation ---------------- *)
Record access := {
  a_loc : string;       (* "pkg.Type.field", "pkg.var" *)
  a_func : string;      (* function performing the access *)
  a_write : bool;
  a_locked : bool;      (* lexically inside a Lock()/Unlock() region of the mutex guarding the location *)
  a_startup : bool      (* constructor / start-up phase (before serving) *)
}.
Definition race_summary := list access.

Definition locs (s : race_summary) : list string := map a_loc s.
Fixpoint dedup (l : list string) : list string :=
  match l with [] => [] | x :: l' => if existsb (String.eqb x) l' then dedup l' else x :: dedup l' end.
(* a location is unprotected when it is written while serving and some serving-phase access to it is not under the lock *)
Definition unprotected (s : race_summary) : list string :=
  dedup (filter (fun x =>
           existsb (fun a => String.eqb (a_loc a) x && a_write a && negb (a_startup a)) s &&
           existsb (fun a => String.eqb (a_loc a) x && negb (a_locked a) && negb (a_startup a)) s) (locs s)).
Definition obligation (known : list string) (s : race_summary) : bool :=
  forallb (fun x => existsb (String.eqb x) known) (unprotected s).
