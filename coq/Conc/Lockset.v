(* Conc/Lockset.v — the lock discipline behind C16.
   (1) Soundness, proved once: in any execution in which a lock is acquired only when free and released only by its
       holder, two accesses to a location by different threads that both happen while their thread holds one common
       lock are separated by a release of that lock by the first thread and a LATER acquisition of it by the second
       one - a synchronises-with edge of the Go memory model - so they are ordered by happens-before and cannot be
       a data race.
   (2) A summary of the accesses of the shipped code (location, function, read/write, under its lock or not, start-up
       or serving phase), REGENERATED from the sources on every run, and the per-run obligation that every location
       written while serving is accessed under its lock everywhere, except for a committed list of known unprotected
       locations. *)
From AS Require Import Base.Str.

Inductive ev := Acq (t l : nat) | Rel (t l : nat) | Acc (t x : nat) (write : bool).

Section OneLock.
  Variable l : nat.

  (* the holder of lock l after one more event *)
  Definition step (h : option nat) (e : ev) : option nat :=
    match e with
    | Acq t l' => if Nat.eqb l' l then Some t else h
    | Rel _ l' => if Nat.eqb l' l then None else h
    | Acc _ _ _ => h
    end.
  Definition after (h : option nat) (tr : list ev) : option nat := fold_left step tr h.

  (* the lock is used correctly: acquired only when free, released only by its holder (events oldest first) *)
  Fixpoint wf (h : option nat) (tr : list ev) : Prop :=
    match tr with
    | [] => True
    | e :: tr' =>
        match e with
        | Acq _ l' => if Nat.eqb l' l then h = None else True
        | Rel t l' => if Nat.eqb l' l then h = Some t else True
        | Acc _ _ _ => True
        end /\ wf (step h e) tr'
    end.

  Lemma wf_app h a b : wf h (a ++ b) -> wf h a /\ wf (after h a) b.
  Proof.
    revert h. induction a as [|e a IH]; intros h; cbn [app wf after fold_left]; [auto|].
    intros [H1 H2]. destruct (IH _ H2) as [Ha Hb]. auto.
  Qed.
  Lemma after_app h a b : after h (a ++ b) = after (after h a) b.
  Proof. unfold after. apply fold_left_app. Qed.

  (* whoever holds the lock at the end and did not hold it at the start acquired it on the way *)
  Lemma became_holder tr : forall h t, after h tr = Some t -> h <> Some t ->
    exists a b, tr = (a ++ Acq t l :: b)%list.
  Proof.
    induction tr as [|e tr IH]; intros h t H N; cbn [after fold_left] in H; [contradiction|].
    destruct e as [t' l'|t' l'|t' x w]; cbn [step] in H.
    - destruct (Nat.eqb_spec l' l) as [->|Ne].
      + destruct (Nat.eq_dec t' t) as [->|Nt]; [exists [], tr; reflexivity|].
        destruct (IH (Some t') t H) as [a [b ->]]; [congruence|]. exists (Acq t' l :: a), b. reflexivity.
      + destruct (IH h t H N) as [a [b ->]]. exists (Acq t' l' :: a), b. reflexivity.
    - destruct (Nat.eqb_spec l' l) as [->|Ne].
      + destruct (IH None t H) as [a [b ->]]; [discriminate|]. exists (Rel t' l :: a), b. reflexivity.
      + destruct (IH h t H N) as [a [b ->]]. exists (Rel t' l' :: a), b. reflexivity.
    - destruct (IH h t H N) as [a [b ->]]. exists (Acc t' x w :: a), b. reflexivity.
  Qed.

  (* if t1 holds the lock and later t2 <> t1 does, t1 released it in between and t2 acquired it after that *)
  Lemma handover tr : forall t1 t2, t1 <> t2 -> wf (Some t1) tr -> after (Some t1) tr = Some t2 ->
    exists a b c, tr = (a ++ Rel t1 l :: b ++ Acq t2 l :: c)%list.
  Proof.
    induction tr as [|e tr IH]; intros t1 t2 N W H; cbn [after fold_left] in H; [congruence|].
    cbn [wf] in W. destruct W as [We W].
    destruct e as [t' l'|t' l'|t' x w]; cbn [step] in *.
    - destruct (Nat.eqb_spec l' l) as [->|Ne]; [discriminate We|].
      destruct (IH t1 t2 N W H) as [a [b [c ->]]]. exists (Acq t' l' :: a), b, c. reflexivity.
    - destruct (Nat.eqb_spec l' l) as [->|Ne].
      + inversion We; subst t'.
        destruct (became_holder tr None t2 H) as [b [c ->]]; [discriminate|]. exists [], b, c. reflexivity.
      + destruct (IH t1 t2 N W H) as [a [b [c ->]]]. exists (Rel t' l' :: a), b, c. reflexivity.
    - destruct (IH t1 t2 N W H) as [a [b [c ->]]]. exists (Acc t' x w :: a), b, c. reflexivity.
  Qed.

  (* lockset soundness *)
  Theorem lockset_sound pre mid post t1 t2 x w1 w2 :
    wf None (pre ++ Acc t1 x w1 :: mid ++ Acc t2 x w2 :: post) ->
    t1 <> t2 ->
    after None pre = Some t1 ->                               (* t1 holds the lock at its access *)
    after None (pre ++ Acc t1 x w1 :: mid) = Some t2 ->       (* t2 holds it at its access *)
    exists a b c, mid = (a ++ Rel t1 l :: b ++ Acq t2 l :: c)%list.
  Proof.
    intros W N H1 H2.
    apply wf_app in W as [_ W]. rewrite H1 in W. cbn [wf step] in W. destruct W as [_ W].
    change (Acc t1 x w1 :: mid) with ([Acc t1 x w1] ++ mid)%list in H2.
    rewrite after_app, after_app, H1 in H2. cbn [after fold_left step] in H2.
    apply wf_app in W as [W _].
    apply (handover mid t1 t2 N W H2).
  Qed.
End OneLock.

(* ---------------- the regenerated summary and its obligation ---------------- *)
Record access := {
  a_loc : string;       (* "pkg.Type.field", "pkg.var" *)
  a_func : string;      (* function performing the access *)
  a_write : bool;
  a_locked : bool;      (* lexically inside a Lock()/Unlock() region of the mutex guarding the location *)
  a_startup : bool      (* constructor / start-up phase (before serving) *)
}.
Definition race_summary := list access.

Definition locs (s : race_summary) : list string := map a_loc s.
Fixpoint dedup (l : list string) : list string :=
  match l with [] => [] | x :: l' => if existsb (String.eqb x) l' then dedup l' else x :: dedup l' end.
(* a location is unprotected when it is written while serving and some serving-phase access to it is not under the lock *)
Definition unprotected (s : race_summary) : list string :=
  dedup (filter (fun x =>
           existsb (fun a => String.eqb (a_loc a) x && a_write a && negb (a_startup a)) s &&
           existsb (fun a => String.eqb (a_loc a) x && negb (a_locked a) && negb (a_startup a)) s) (locs s)).
Definition obligation (known : list string) (s : race_summary) : bool :=
  forallb (fun x => existsb (String.eqb x) known) (unprotected s).

(* ---------------- from the obligation to happens-before ---------------- *)
Lemma in_dedup x l : In x (dedup l) <-> In x l.
Proof.
  induction l as [|y l IH]; cbn [dedup]; [tauto|].
  destruct (existsb (String.eqb y) l) eqn:E.
  - rewrite IH. split; [intros H; right; exact H|]. intros [<-|H]; [|exact H].
    apply existsb_exists in E as [z [Hz Ez]]. apply String.eqb_eq in Ez. now subst.
  - cbn [In]. rewrite IH. tauto.
Qed.

(* what the obligation says about two accesses of the summary *)
Lemma obligation_conflicting_locked known s a1 a2 :
  obligation known s = true -> In a1 s -> In a2 s -> a_loc a1 = a_loc a2 -> ~ In (a_loc a1) known ->
  a_startup a1 = false -> a_startup a2 = false -> (a_write a1 = true \/ a_write a2 = true) ->
  a_locked a1 = true /\ a_locked a2 = true.
Proof.
  intros O H1 H2 E NK S1 S2 W. unfold obligation in O. rewrite forallb_forall in O.
  assert (NU : ~ In (a_loc a1) (unprotected s)).
  { intros U. apply O in U. apply existsb_exists in U as [k [Hk Ek]]. apply String.eqb_eq in Ek. subst k. exact (NK Hk). }
  unfold unprotected in NU. rewrite in_dedup, filter_In in NU.
  assert (Hl : In (a_loc a1) (locs s)) by (unfold locs; apply in_map; exact H1).
  assert (Hw : existsb (fun a => String.eqb (a_loc a) (a_loc a1) && a_write a && negb (a_startup a)) s = true).
  { apply existsb_exists. destruct W as [W|W]; [exists a1|exists a2]; (split; [assumption|]).
    - now rewrite String.eqb_refl, W, S1.
    - now rewrite <- E, String.eqb_refl, W, S2. }
  assert (Hu : existsb (fun a => String.eqb (a_loc a) (a_loc a1) && negb (a_locked a) && negb (a_startup a)) s = false).
  { destruct (existsb _ s) eqn:X in |- *; [|reflexivity]. exfalso. apply NU. split; [exact Hl|]. now rewrite Hw, X. }
  assert (Hall : forall a, In a s -> a_loc a = a_loc a1 -> a_startup a = false -> a_locked a = true).
  { intros a Ha El Sa. destruct (a_locked a) eqn:L; [reflexivity|]. exfalso.
    assert (existsb (fun a => String.eqb (a_loc a) (a_loc a1) && negb (a_locked a) && negb (a_startup a)) s = true).
    { apply existsb_exists. exists a. split; [exact Ha|]. now rewrite El, String.eqb_refl, L, Sa. }
    congruence. }
  split; [apply Hall; auto | apply Hall; auto].
Qed.

(* the obligation and the discipline together: two conflicting serving accesses that the summary lists for a location
   outside the committed list are ordered by a release/acquire pair in every execution that performs them the way the
   summary says (under the lock where it says "locked") *)
Theorem obligation_sound known s l pre mid post t1 t2 x a1 a2 :
  obligation known s = true -> In a1 s -> In a2 s -> a_loc a1 = a_loc a2 -> ~ In (a_loc a1) known ->
  a_startup a1 = false -> a_startup a2 = false -> (a_write a1 = true \/ a_write a2 = true) ->
  wf l None (pre ++ Acc t1 x (a_write a1) :: mid ++ Acc t2 x (a_write a2) :: post) -> t1 <> t2 ->
  (a_locked a1 = true -> after l None pre = Some t1) ->
  (a_locked a2 = true -> after l None (pre ++ Acc t1 x (a_write a1) :: mid) = Some t2) ->
  exists a b c, mid = (a ++ Rel t1 l :: b ++ Acq t2 l :: c)%list.
Proof.
  intros O H1 H2 E NK S1 S2 W Wf N L1 L2.
  destruct (obligation_conflicting_locked known s a1 a2 O H1 H2 E NK S1 S2 W) as [K1 K2].
  exact (lockset_sound l pre mid post t1 t2 x _ _ Wf N (L1 K1) (L2 K2)).
Qed.
