(* Multi/Filters.v — several OIDC filters in one service (C18): which session store each filter is handed by the
   store factory (internal/oidc/session.go: PreRun / Get), which timeouts that store enforces, and histories of checks
   that go through different filters against the stores they share or do not share. *)
From AS Require Import Base.Str Http.Cookie Oidc.Types Oidc.Prog Oidc.Handler Oidc.Spec Oidc.Store.

(* the key under which the factory files a filter's store: one in-memory store for every filter without a Redis
   URI, one Redis store per distinct URI *)
Inductive skind := KMem | KRedis (uri : string).
Definition skind_eqb (a b : skind) : bool :=
  match a, b with KMem, KMem => true | KRedis u, KRedis v => String.eqb u v | _, _ => false end.
Lemma skind_eqb_spec a b : reflect (a = b) (skind_eqb a b).
Proof.
  destruct a as [|u], b as [|v]; cbn; try (constructor; congruence).
  destruct (String.eqb_spec u v); constructor; congruence.
Qed.
(* what the configuration says: an empty server_uri means "no Redis" *)
Definition skind_of_uri (u : string) : skind := if String.eqb u "" then KMem else KRedis u.

Record filt := { f_cfg : cfg; f_store : skind; f_abs : Z; f_idle : Z }.

(* PreRun walks the chains in order: the in-memory store is created for the FIRST filter without Redis (later ones
   reuse it), a Redis store is created for every filter with a URI and REPLACES an earlier one of the same URI *)
Fixpoint first_mem (fs : list filt) : option (Z * Z) :=
  match fs with
  | [] => None
  | f :: fs' => match f_store f with KMem => Some (f_abs f, f_idle f) | _ => first_mem fs' end
  end.
Fixpoint last_redis (u : string) (fs : list filt) : option (Z * Z) :=
  match fs with
  | [] => None
  | f :: fs' =>
      match last_redis u fs' with
      | Some t => Some t
      | None => if skind_eqb (f_store f) (KRedis u) then Some (f_abs f, f_idle f) else None
      end
  end.
(* the timeouts enforced on the sessions of filter f *)
Definition eff_timeouts (fs : list filt) (f : filt) : option (Z * Z) :=
  match f_store f with KMem => first_mem fs | KRedis u => last_redis u fs end.
Definition own_timeouts (fs : list filt) (f : filt) : bool :=
  match eff_timeouts fs f with Some (a, i) => Z.eqb a (f_abs f) && Z.eqb i (f_idle f) | None => false end.
(* two filters are handed the same store *)
Definition shares (f g : filt) : bool := skind_eqb (f_store f) (f_store g).

(* every filter has a store of its own *)
Fixpoint stores_distinct (fs : list filt) : bool :=
  match fs with
  | [] => true
  | f :: fs' => negb (existsb (shares f) fs') && stores_distinct fs'
  end.

(* ---- histories of checks through several filters ---- *)
Definition stores := skind -> store.
Definition supd (S : stores) (k : skind) (st : store) : stores := fun k' => if skind_eqb k' k then st else S k'.
Definition no_sessions : stores := fun _ => empty_store.

Record mcheck := { m_filter : filt; m_req : request; m_now : Z; m_out : outcome; m_tr : list (eff * ans) }.

(* each check is a complete run of the handler with ITS filter's configuration, for any list of environment answers,
   whose store effects are consistent with the store the factory hands to that filter; sessions may also disappear
   between checks (timeouts) *)
Inductive mhist (db : tokdb) : stores -> list mcheck -> stores -> Prop :=
| mh_nil S : mhist db S [] S
| mh_check S m answers rest st' hs S' :
    run (process (f_cfg (m_filter m)) db (m_now m) (m_req m)) answers = Some (m_out m, m_tr m, rest) ->
    steps (S (f_store (m_filter m))) (m_tr m) st' ->
    mhist db (supd S (f_store (m_filter m)) st') hs S' ->
    mhist db S (m :: hs) S'
| mh_drop S k sid hs S' :
    mhist db (supd S k (upd (S k) sid None)) hs S' ->
    mhist db S hs S'.

(* a check "binds tokens t to session sid": its trace contains the store write, answered in any way (a write
   reported as failed may have taken place) *)
Definition binds (m : mcheck) (sid : string) (t : tokens) : Prop := exists a, In (ESetTok sid t, a) (m_tr m).

(* the verdict the code gives to a session of filter f presented to filter g under g's cookie name *)
Definition cookie_for (g : filt) (sid : string) : string := (cookie_name (cookie_prefix (f_cfg g)) ++ "=" ++ sid)%string.
