(* Oidc/Types.v — data of the OIDC handler model. *)
From AS Require Import Base.Str.

Record tokens := { t_id : string; t_access : string; t_refresh : string; t_expiry : Z }.
   (* t_expiry: ns since the epoch; 0 = Go's zero time (IsZero) *)
Record auth_state := { a_state : string; a_nonce : string; a_url : string; a_verifier : string }.

(* ---- configuration of one OIDC filter (fully resolved, as Process sees it) ---- *)
Record tokcfg := { tc_header : string; tc_preamble : string }.
Record logoutcfg := { lo_path : string; lo_redirect : string }.
Record cb_parts := { cb_scheme : string; cb_hostname : string; cb_port : string; cb_path : string }.
   (* url.Parse(callback_uri): modelled, not verified - the harness supplies net/url's answer *)
Record cfg := {
  client_id : string; client_secret : string;
  callback_uri : string; callback : cb_parts;
  auth_uri : string; token_uri : string;
  scopes : list string; cookie_prefix : string;
  id_token : tokcfg; access_token : option tokcfg; logout : option logoutcfg
}.

(* ---- ID tokens: a token is its compact text; the environment says what the JWT library and the
        key set make of it (descriptor) ---- *)
Inductive nonce_claim := NAbsent | NStr (s : string) | NOther.   (* NOther: claim present, not a string *)
Record idtok := {
  d_parses : bool;          (* jwt.Parse succeeds *)
  d_nonce : nonce_claim;
  d_aud : list string;
  d_exp : Z;                (* ns; 0 when the claim is absent (zero time) *)
  d_sig_ok : bool           (* jws.Verify against the filter's key set succeeds *)
}.
Definition tokdb := string -> idtok.
Definition unparsable : idtok :=
  {| d_parses := false; d_nonce := NAbsent; d_aud := []; d_exp := 0; d_sig_ok := false |}.

(* ---- requests and responses ---- *)
Record request := {
  r_has_http : bool;
  r_scheme : string; r_host : string; r_path : string; r_query : string;
  r_cookie : string          (* headers["cookie"], "" when absent *)
}.

Inductive gcode := GOk | GInvalidArgument | GUnauthenticated | GInternal | GUnknown | GPermissionDenied.

Record denial := { d_code : gcode; d_status : nat (* 0 = not set *); d_headers : list (string * string); d_body : string }.

Inductive outcome :=
| OAllow (headers : list (string * string))      (* OK; upstream headers sorted by name *)
| ODeny (d : denial)
| OPanic                                          (* a Go panic at this point *)
| OBadAnswer.                                     (* environment answered with the wrong kind (never for a real run) *)

(* ---- token endpoint ---- *)
Record token_request := { q_uri : string; q_body : string; q_auth : string (* "" = no header *); q_ctype : string }.
Record idp_body := { b_id : string; b_access : string; b_refresh : string; b_expires_in : Z; b_token_type : string }.
Inductive idp_result :=
| IdpTransportError | IdpStatus (code : nat) (* <> 200 *) | IdpUndecodable (* incl. JSON null *) | IdpBody (b : idp_body).

Record gen_out := { g_sid : string; g_nonce : string; g_state : string; g_verifier : string; g_challenge : string }.
   (* g_challenge = S256(g_verifier), computed by golang.org/x/oauth2 (trusted) *)

(* ---- effects of a check and the environment's answers ---- *)
Inductive eff :=
| ERemove (sid : string)
| EGetTok (sid : string) | ESetTok (sid : string) (t : tokens)
| EGetAuth (sid : string) | ESetAuth (sid : string) (a : auth_state) | EClearAuth (sid : string)
| EGen | EIdp (r : token_request) | EJwks.

Inductive ans :=
| AUnit (ok : bool)                               (* RemoveSession / Set* / Clear*: ok or error *)
| ATok (r : option (option tokens))               (* None = error; Some None = no tokens *)
| AAuth (r : option (option auth_state))
| AGen (g : gen_out) | AIdp (r : idp_result) | AJwks (ok : bool).

(* ---- boolean equalities (for the correspondence and the monitors) ---- *)
Definition tokens_eqb (a b : tokens) : bool :=
  String.eqb (t_id a) (t_id b) && String.eqb (t_access a) (t_access b) &&
  String.eqb (t_refresh a) (t_refresh b) && Z.eqb (t_expiry a) (t_expiry b).
Definition auth_eqb (a b : auth_state) : bool :=
  String.eqb (a_state a) (a_state b) && String.eqb (a_nonce a) (a_nonce b) &&
  String.eqb (a_url a) (a_url b) && String.eqb (a_verifier a) (a_verifier b).
Definition treq_eqb (a b : token_request) : bool :=
  String.eqb (q_uri a) (q_uri b) && String.eqb (q_body a) (q_body b) &&
  String.eqb (q_auth a) (q_auth b) && String.eqb (q_ctype a) (q_ctype b).
Definition eff_eqb (a b : eff) : bool :=
  match a, b with
  | ERemove x, ERemove y | EGetTok x, EGetTok y | EGetAuth x, EGetAuth y | EClearAuth x, EClearAuth y => String.eqb x y
  | ESetTok x t, ESetTok y u => String.eqb x y && tokens_eqb t u
  | ESetAuth x t, ESetAuth y u => String.eqb x y && auth_eqb t u
  | EGen, EGen | EJwks, EJwks => true
  | EIdp r, EIdp s => treq_eqb r s
  | _, _ => false
  end.
Definition gcode_eqb (a b : gcode) : bool :=
  match a, b with
  | GOk, GOk | GInvalidArgument, GInvalidArgument | GUnauthenticated, GUnauthenticated
  | GInternal, GInternal | GUnknown, GUnknown | GPermissionDenied, GPermissionDenied => true
  | _, _ => false
  end.
Definition kv_eqb (a b : string * string) : bool := String.eqb (fst a) (fst b) && String.eqb (snd a) (snd b).
Fixpoint kvs_eqb (a b : list (string * string)) : bool :=
  match a, b with
  | [], [] => true
  | x :: a', y :: b' => kv_eqb x y && kvs_eqb a' b'
  | _, _ => false
  end.
