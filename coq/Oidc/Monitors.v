(* Oidc/Monitors.v — the per-check properties as BOOLEAN monitors over (request, performed effects with
   their answers, verdict).  The same functions are (a) proved to hold of every run of the model, for
   every list of environment answers (Proofs/P*.v), and (b) evaluated on the traces recorded from the
   real implementation (Corr/C*.v). *)
From AS Require Import Base.Str Http.PathSplit Http.Cookie Url.Escape Oidc.Types Oidc.Prog Oidc.Handler Oidc.Spec.

Definition answer_ok (a : ans) : bool :=
  match a with
  | AUnit ok => ok | ATok None => false | AAuth None => false | AJwks ok => ok
  | AIdp (IdpBody _) => true | AIdp _ => false | _ => true
  end.
Definition all_answers_ok (tr : list (eff * ans)) : bool := forallb (fun ea => answer_ok (snd ea)) tr.

Definition nonce_of (oa : option auth_state) : string := match oa with Some a => a_nonce a | None => "" end.

(* C01/C11: an OK verdict has exactly one of two shapes *)
Definition ok_shape (c : cfg) (db : tokdb) (now : Z) (r : request) (tr : list (eff * ans)) (h : list (string * string)) : bool :=
  let sid := request_sid c r in
  negb (String.eqb sid "") &&
  match tr with
  | [(EGetTok s, ATok (Some (Some t)))] =>
      String.eqb s sid &&
      match tokens_expired c db now t with Some false => true | _ => false end &&
      kvs_eqb h (tokens_to_headers c t)
  | [(EGetTok s, ATok (Some (Some t))); (EIdp q, AIdp (IdpBody b)); (EGetAuth s2, AAuth (Some oa)); (EJwks, AJwks true);
     (ESetTok s3 t', AUnit true)] =>
      String.eqb s sid && String.eqb s2 sid && String.eqb s3 sid &&
      match tokens_expired c db now t with Some true => true | _ => false end &&
      negb (String.eqb (t_refresh t) "") &&
      treq_eqb q (refresh_request c (t_refresh t)) &&
      valid_refresh_tokens b &&
      tokens_eqb t' (merged_tokens db now t b) &&
      validated c db (t_id t') (nonce_of oa) false &&
      kvs_eqb h (tokens_to_headers c t')
  | _ => false
  end.

Definition mon_ok_justified (c : cfg) (db : tokdb) (now : Z) (r : request) (tr : list (eff * ans)) (o : outcome) : bool :=
  match o with OAllow h => ok_shape c db now r tr h | _ => true end.

(* generic: does some performed effect satisfy p *)
Definition has (p : eff -> bool) (tr : list (eff * ans)) : bool := existsb (fun ea => p (fst ea)) tr.
Definition is_gen (e : eff) : bool := match e with EGen => true | _ => false end.
Definition is_remove_of (sid : string) (e : eff) : bool := match e with ERemove s => String.eqb s sid | _ => false end.

(* ---------------- C02: what may be written as a session's tokens ---------------- *)
Definition login_tokens_of (now : Z) (b : idp_body) : tokens :=
  {| t_id := b_id b; t_access := b_access b; t_refresh := b_refresh b; t_expiry := expiry_of now (b_expires_in b) 0 |}.
Definition cb_params (r : request) : list (string * string) := fst (parse_query (query_of (r_path r))).
Definition cb_state (r : request) : string := qget "state" (cb_params r).
Definition cb_code (r : request) : string := qget "code" (cb_params r).

(* tokens are written in exactly two situations, each with a fully determined trace: a callback whose
   ID token (from the token endpoint's answer to THIS check's code exchange) was validated against the
   nonce stored for the presented session; or a refresh whose merged ID token was validated *)
Definition settok_shape (c : cfg) (db : tokdb) (now : Z) (r : request) (tr : list (eff * ans)) : bool :=
  let sid := request_sid c r in
  if has is_set_tok tr then
    match tr with
    | [(EGetAuth s1, AAuth (Some (Some a))); (EIdp q, AIdp (IdpBody b)); (EJwks, AJwks true); (EClearAuth s2, AUnit true);
       (ESetTok s3 t, AUnit _)] =>
        negb (String.eqb sid "") && String.eqb s1 sid && String.eqb s2 sid && String.eqb s3 sid &&
        matches_callback c r && String.eqb (cb_state r) (a_state a) &&
        treq_eqb q (code_request c (cb_code r) (a_verifier a)) &&
        valid_new_tokens c b && tokens_eqb t (login_tokens_of now b) &&
        validated c db (t_id t) (a_nonce a) true
    | [(EGetTok s, ATok (Some (Some t0))); (EIdp q, AIdp (IdpBody b)); (EGetAuth s2, AAuth (Some oa)); (EJwks, AJwks true);
       (ESetTok s3 t', AUnit _)] =>
        negb (String.eqb sid "") && String.eqb s sid && String.eqb s2 sid && String.eqb s3 sid &&
        treq_eqb q (refresh_request c (t_refresh t0)) && valid_refresh_tokens b &&
        tokens_eqb t' (merged_tokens db now t0 b) &&
        validated c db (t_id t') (nonce_of oa) false
    | _ => false
    end
  else true.

(* ---------------- C04: what may be sent to the token endpoint ---------------- *)
Definition is_code_exchange (q : token_request) : bool :=
  String.eqb (qget "grant_type" (fst (parse_query (q_body q)))) "authorization_code".
(* every token-endpoint call is the 2nd effect of a callback (right after reading the presented
   session's login state, whose state equals the request's) or the 2nd effect of a refresh; at most one
   call per check *)
Definition idp_calls_shape (c : cfg) (db : tokdb) (now : Z) (r : request) (tr : list (eff * ans)) : bool :=
  let sid := request_sid c r in
  if has is_idp tr then
    match tr with
    | (EGetAuth s1, AAuth (Some (Some a))) :: (EIdp q, _) :: rest =>
        negb (String.eqb sid "") && String.eqb s1 sid && matches_callback c r &&
        negb (String.eqb (cb_state r) "") && negb (String.eqb (cb_code r) "") &&
        String.eqb (cb_state r) (a_state a) &&
        treq_eqb q (code_request c (cb_code r) (a_verifier a)) &&
        negb (has is_idp rest)
    | (EGetTok s, ATok (Some (Some t0))) :: (EIdp q, _) :: rest =>
        negb (String.eqb sid "") && String.eqb s sid && negb (String.eqb (t_refresh t0) "") &&
        match tokens_expired c db now t0 with Some true => true | _ => false end &&
        treq_eqb q (refresh_request c (t_refresh t0)) &&
        negb (has is_idp rest)
    | _ => false
    end
  else true.

(* ---------------- C05: login redirects renew the session id ---------------- *)
Definition new_auth (r : request) (g : gen_out) : auth_state :=
  {| a_state := g_state g; a_nonce := g_nonce g; a_url := requested_url r; a_verifier := g_verifier g |}.
(* split at the first draw of new identifiers *)
Fixpoint split_gen (tr : list (eff * ans)) : option (list (eff * ans) * ans * list (eff * ans)) :=
  match tr with
  | [] => None
  | (EGen, a) :: rest => Some ([], a, rest)
  | ea :: rest => match split_gen rest with Some (p, a, s) => Some (ea :: p, a, s) | None => None end
  end.
Definition removed_ok (sid : string) (tr : list (eff * ans)) : bool :=
  existsb (fun ea => match ea with (ERemove s, AUnit true) => String.eqb s sid | _ => false end) tr.
Definition hdr (k : string) (hs : list (string * string)) : option string := lookup k hs.

(* whenever a check draws new identifiers: the presented session (if any) was removed first, nothing
   was written before, the draw is followed by exactly one effect - the write of the new login state
   under the NEW id - and, if that write succeeds, the answer is the login redirect carrying exactly
   that id in its Set-Cookie; without a draw no login state is written and no session cookie is set
   (other than the logout's deletion) *)
Definition renewal_shape (c : cfg) (r : request) (tr : list (eff * ans)) (o : outcome) : bool :=
  let sid := request_sid c r in
  match split_gen tr with
  | Some (before_, AGen g, [(ESetAuth s a, AUnit ok)]) =>
      String.eqb s (g_sid g) && auth_eqb a (new_auth r g) &&
      (String.eqb sid "" || removed_ok sid before_) &&
      negb (has (fun e => is_set_auth e || is_set_tok e) before_) &&
      (if ok then
         match o with
         | ODeny d => Nat.eqb (d_status d) 302 &&
             match hdr "set-cookie" (d_headers d) with
             | Some sc => String.eqb sc (set_cookie_header (cookie_prefix c) (g_sid g) SessionCookie)
             | None => false
             end &&
             match hdr "location" (d_headers d) with
             | Some l => String.eqb l (authorization_url c g)
             | None => false
             end
         | _ => false
         end
       else match o with ODeny d => negb (Nat.eqb (d_status d) 302) | _ => false end)
  | Some _ => false
  | None =>
      negb (has is_set_auth tr) &&
      match o with
      | ODeny d => match hdr "set-cookie" (d_headers d) with
                   | Some sc => String.eqb sc (set_cookie_header (cookie_prefix c) "deleted" MaxAge0) && matches_logout c r
                   | None => true
                   end
      | _ => true
      end
  end.

(* tokens are only ever written under the presented session id *)
Definition settok_under_presented (c : cfg) (r : request) (tr : list (eff * ans)) : bool :=
  forallb (fun ea => match fst ea with ESetTok s _ => String.eqb s (request_sid c r) && negb (String.eqb s "") | _ => true end) tr.

(* ---------------- C11: a failed refresh ends the session ---------------- *)
(* the stored tokens were expired and refreshable: the refresh exchange is attempted with the stored
   refresh token, and when the verdict is not OK then either saving the renewed tokens failed (session
   error) or the removal of the presented session was attempted (its failure being reported as a
   session error, not as a redirect) *)
Definition session_error_resp (o : outcome) : bool :=
  match o with ODeny d => Nat.eqb (d_status d) 0 && String.eqb (d_body d) session_error_body | _ => false end.
Definition refresh_failure_shape (c : cfg) (db : tokdb) (now : Z) (r : request) (tr : list (eff * ans)) (o : outcome) : bool :=
  let sid := request_sid c r in
  match tr with
  | (EGetTok s, ATok (Some (Some t))) :: rest =>
      if negb (matches_logout c r) && negb (matches_callback c r) &&
         match tokens_expired c db now t with Some true => negb (String.eqb (t_refresh t) "") | _ => false end
      then
        match rest with (EIdp q, _) :: _ => treq_eqb q (refresh_request c (t_refresh t)) | _ => false end &&
        match o with
        | OAllow _ => true
        | _ => has (is_remove_of sid) rest || session_error_resp o
        end
      else true
  | _ => true
  end.

(* ---------------- C14: what a denial may be built from ---------------- *)
Fixpoint find_gen (tr : list (eff * ans)) : option gen_out :=
  match tr with [] => None | (EGen, AGen g) :: _ => Some g | _ :: tr' => find_gen tr' end.
(* public material of a check: configuration values that are meant for the browser, identifiers drawn in
   this check (never the verifier), and the URL stored with the login state *)
Definition deny_is_public (c : cfg) (tr : list (eff * ans)) (o : outcome) : bool :=
  match o with
  | ODeny d =>
      match hdr "location" (d_headers d), hdr "set-cookie" (d_headers d) with
      | None, None =>
          kvs_eqb (d_headers d) std_headers &&
            (String.eqb (d_body d) "" || String.eqb (d_body d) oops_body)
          || (match d_headers d with [] => true | _ => false end) && String.eqb (d_body d) session_error_body
      | Some loc, sc =>
          String.eqb (d_body d) "" &&
          match find_gen tr, sc with
          | Some g, Some sc' =>
              String.eqb loc (authorization_url c g) &&
              String.eqb sc' (set_cookie_header (cookie_prefix c) (g_sid g) SessionCookie) &&
              kvs_eqb (d_headers d) (std_headers ++ [("location", loc); ("set-cookie", sc')])
          | None, Some sc' =>
              String.eqb loc (match logout c with Some l => lo_redirect l | None => "" end) &&
              String.eqb sc' (set_cookie_header (cookie_prefix c) "deleted" MaxAge0) &&
              kvs_eqb (d_headers d) (std_headers ++ [("location", loc); ("set-cookie", sc')])
          | None, None =>
              existsb (fun ea => match ea with (EGetAuth _, AAuth (Some (Some a))) => String.eqb loc (a_url a) | _ => false end) tr &&
              kvs_eqb (d_headers d) (std_headers ++ [("location", loc)])
          | Some _, None => false
          end
      | None, Some _ => false
      end
  | _ => true
  end.

(* ---------------- C15 ---------------- *)
Definition ans_typed (ea : eff * ans) : bool :=
  match ea with
  | (ERemove _, AUnit _) | (ESetTok _ _, AUnit _) | (ESetAuth _ _, AUnit _) | (EClearAuth _, AUnit _) => true
  | (EGetTok _, ATok _) | (EGetAuth _, AAuth _) | (EGen, AGen _) | (EIdp _, AIdp _) | (EJwks, AJwks _) => true
  | _ => false
  end.
Definition typed_trace (tr : list (eff * ans)) : bool := forallb ans_typed tr.
Definition no_panic (o : outcome) : bool := match o with OPanic | OBadAnswer => false | _ => true end.
