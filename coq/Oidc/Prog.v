(* Oidc/Prog.v — program trees over the handler's effects (a free monad). *)
From AS Require Import Base.Str Oidc.Types.

Inductive prog (R : Type) : Type :=
| Ret (r : R)
| Do (e : eff) (k : ans -> prog R).
Arguments Ret {R} r.
Arguments Do {R} e k.

Fixpoint bind {A B} (p : prog A) (f : A -> prog B) : prog B :=
  match p with
  | Ret a => f a
  | Do e k => Do e (fun x => bind (k x) f)
  end.

Notation "x <- p ;; q" := (bind p (fun x => q)) (at level 61, p at next level, right associativity).

Definition perform (e : eff) : prog ans := Do e (fun a => Ret a).

(* run a tree against a list of environment answers: result, the (effect, answer) pairs performed and
   the answers left over; None when the answers run out.  Theorems quantify over ALL answer lists,
   i.e. over every behaviour of store, provider, key source and generator, faults included. *)
Fixpoint run {R} (p : prog R) (answers : list ans) : option (R * list (eff * ans) * list ans) :=
  match p with
  | Ret r => Some (r, [], answers)
  | Do e k =>
      match answers with
      | [] => None
      | a :: rest =>
          match run (k a) rest with
          | Some (r, tr, rest') => Some (r, (e, a) :: tr, rest')
          | None => None
          end
      end
  end.

(* lock-step replay against a recorded trace of (effect, answer) pairs *)
Inductive replay_result (R : Type) :=
| RDone (r : R)                       (* same effects, in the same order, with the same arguments *)
| RImplExtra (r : R) (n : nat)        (* model finished; implementation performed n more effects *)
| RImplMissing (e : eff)              (* model wants to perform e; implementation had finished *)
| RMismatch (i : nat) (model impl : eff).
Arguments RDone {R} r.
Arguments RImplExtra {R} r n.
Arguments RImplMissing {R} e.
Arguments RMismatch {R} i model impl.

Fixpoint replay {R} (p : prog R) (tr : list (eff * ans)) (i : nat) : replay_result R :=
  match p, tr with
  | Ret r, [] => RDone r
  | Ret r, _ => RImplExtra r (length tr)
  | Do e _, [] => RImplMissing e
  | Do e k, (e', a) :: tr' => if eff_eqb e e' then replay (k a) tr' (S i) else RMismatch i e e'
  end.
