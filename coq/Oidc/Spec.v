(* Oidc/Spec.v — vocabulary in which the handler's properties are stated. *)
From AS Require Import Base.Str Http.PathSplit Http.Cookie Url.Escape Oidc.Types Oidc.Prog Oidc.Handler.

Section Spec.
  Variable c : cfg.
  Variable db : tokdb.
  Variable now : Z.

  (* what "validated" means for an ID token (C02): it parses, its nonce obeys the login / refresh rule,
     its audience contains the client id and its signature verifies under the filter's key set *)
  Definition nonce_ok (d : idtok) (expected : string) (required : bool) : bool :=
    match d_nonce d with
    | NAbsent => negb required
    | NOther => false
    | NStr tn =>
        negb ((required || (negb (String.eqb tn "") && negb (String.eqb expected "")))
              && negb (String.eqb tn expected))
    end.
  Definition validated (tok expected : string) (required : bool) : bool :=
    let d := db tok in
    d_parses d && nonce_ok d expected required
    && existsb (String.eqb (client_id c)) (d_aud d) && d_sig_ok d.

  (* tokens bound at login from a token-endpoint answer *)
  Definition login_tokens (b : idp_body) : tokens :=
    {| t_id := b_id b; t_access := b_access b; t_refresh := b_refresh b;
       t_expiry := expiry_of now (b_expires_in b) 0 |}.

  (* refresh merge: new values replace old, omitted ones are kept *)
  Definition merged_tokens (old : tokens) (b : idp_body) : tokens :=
    {| t_id := if d_parses (db (b_id b)) then b_id b else t_id old;
       t_access := if String.eqb (b_access b) "" then t_access old else b_access b;
       t_refresh := if String.eqb (b_refresh b) "" then t_refresh old else b_refresh b;
       t_expiry := expiry_of now (b_expires_in b) (t_expiry old) |}.

  Definition request_sid (r : request) : string := session_id_from_cookie (cookie_prefix c) (r_cookie r).
End Spec.

Definition is_allow (o : outcome) : bool := match o with OAllow _ => true | _ => false end.

(* effects by kind *)
Definition is_store_write (e : eff) : bool :=
  match e with ESetTok _ _ | ESetAuth _ _ | EClearAuth _ | ERemove _ => true | _ => false end.
Definition is_set_tok (e : eff) : bool := match e with ESetTok _ _ => true | _ => false end.
Definition is_set_auth (e : eff) : bool := match e with ESetAuth _ _ => true | _ => false end.
Definition is_idp (e : eff) : bool := match e with EIdp _ => true | _ => false end.
Definition effs (tr : list (eff * ans)) : list eff := map fst tr.
