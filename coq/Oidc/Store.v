(* Oidc/Store.v — the abstract session map against which histories of checks are stated: a plain map
   from session id to {login state, tokens}.  A check's recorded (effect, answer) pairs are
   *consistent* with a store when every answer is one the map could have given, a reported failure
   having happened either before or after the effect took place.  Timeouts / evictions are [drop]
   events between checks.  (C12 is what ties the two concrete stores to this map.) *)
From AS Require Import Base.Str Oidc.Types Oidc.Prog.

Record sess := { ss_auth : option auth_state; ss_tok : option tokens }.
Definition store := string -> option sess.
Definition empty_store : store := fun _ => None.

Definition upd (st : store) (sid : string) (v : option sess) : store :=
  fun k => if String.eqb k sid then v else st k.

Definition tok_of (st : store) (sid : string) : option tokens :=
  match st sid with Some s => ss_tok s | None => None end.
Definition auth_of (st : store) (sid : string) : option auth_state :=
  match st sid with Some s => ss_auth s | None => None end.

(* the effect of a store call that takes place *)
Definition apply_eff (st : store) (e : eff) : store :=
  match e with
  | ERemove sid => upd st sid None
  | ESetTok sid t => upd st sid (Some {| ss_auth := auth_of st sid; ss_tok := Some t |})
  | ESetAuth sid a => upd st sid (Some {| ss_auth := Some a; ss_tok := tok_of st sid |})
  | EClearAuth sid =>
      match st sid with
      | Some s => upd st sid (Some {| ss_auth := None; ss_tok := ss_tok s |})
      | None => st
      end
  | _ => st
  end.

Definition is_store_eff (e : eff) : bool :=
  match e with EGen | EIdp _ | EJwks => false | _ => true end.

(* one (effect, answer) pair against the store *)
Inductive step1 : store -> eff * ans -> store -> Prop :=
| S_write_ok st e : (match e with ERemove _ | ESetTok _ _ | ESetAuth _ _ | EClearAuth _ => True | _ => False end) ->
    step1 st (e, AUnit true) (apply_eff st e)
| S_write_fail_before st e : (match e with ERemove _ | ESetTok _ _ | ESetAuth _ _ | EClearAuth _ => True | _ => False end) ->
    step1 st (e, AUnit false) st
| S_write_fail_after st e : (match e with ERemove _ | ESetTok _ _ | ESetAuth _ _ | EClearAuth _ => True | _ => False end) ->
    step1 st (e, AUnit false) (apply_eff st e)
| S_get_tok st sid : step1 st (EGetTok sid, ATok (Some (tok_of st sid))) st
| S_get_tok_err st sid : step1 st (EGetTok sid, ATok None) st
| S_get_auth st sid : step1 st (EGetAuth sid, AAuth (Some (auth_of st sid))) st
| S_get_auth_err st sid : step1 st (EGetAuth sid, AAuth None) st
| S_gen st g : step1 st (EGen, AGen g) st
| S_idp st q r : step1 st (EIdp q, AIdp r) st
| S_jwks st ok : step1 st (EJwks, AJwks ok) st.

Inductive steps : store -> list (eff * ans) -> store -> Prop :=
| steps_nil st : steps st [] st
| steps_cons st ea st1 tr st2 : step1 st ea st1 -> steps st1 tr st2 -> steps st (ea :: tr) st2.

Lemma steps_app st tr1 tr2 st2 :
  steps st (tr1 ++ tr2) st2 <-> exists st1, steps st tr1 st1 /\ steps st1 tr2 st2.
Proof.
  revert st. induction tr1 as [|ea tr1 IH]; intros st; simpl.
  - split; [intros H; exists st; split; [constructor|exact H] | intros [st1 [H1 H2]]; inversion H1; subst; exact H2].
  - split.
    + intros H; inversion H as [|? ? sta ? ? Hs Hr]; subst. apply IH in Hr as [st1 [Ha Hb]].
      exists st1; split; [econstructor; eassumption | exact Hb].
    + intros [st1 [H1 H2]]. inversion H1 as [|? ? sta ? ? Hs Hr]; subst.
      econstructor; [exact Hs|]. apply IH. exists st1; split; assumption.
Qed.

Lemma upd_same st sid v : upd st sid v sid = v.
Proof. unfold upd. now rewrite String.eqb_refl. Qed.
Lemma upd_other st sid v k : k <> sid -> upd st sid v k = st k.
Proof. unfold upd. intros H. destruct (String.eqb_spec k sid); [contradiction|reflexivity]. Qed.
