(* Oidc/Conc.v — concurrent checks at effect granularity.  Each check is a complete run of [process]
   against its own list of environment answers; an execution interleaves the (effect, answer) pairs of
   the checks in some global order, and every session-store answer in that order must be one the
   abstract session map gives at that point (Oidc/Store.steps): store calls are atomic, nothing else is.
   A check is "answered" after its last effect. *)
From AS Require Import Base.Str Http.Cookie Oidc.Types Oidc.Prog Oidc.Handler Oidc.Spec Oidc.Monitors Oidc.Store.

Record cthread := { ct_now : Z; ct_req : request; ct_out : outcome; ct_tr : list (eff * ans) }.

Definition valid_thread (c : cfg) (db : tokdb) (t : cthread) : Prop :=
  exists answers rest, run (process c db (ct_now t) (ct_req t)) answers = Some (ct_out t, ct_tr t, rest) /\
                       typed_trace (ct_tr t) = true.

(* the effects of thread i in a global order *)
Definition proj (i : nat) (m : list (nat * (eff * ans))) : list (eff * ans) :=
  map snd (filter (fun x => Nat.eqb (fst x) i) m).

Record cexec (c : cfg) (db : tokdb) (ts : list cthread) (m : list (nat * (eff * ans))) (st0 st1 : store) : Prop := {
  ce_valid : forall i t, nth_error ts i = Some t -> valid_thread c db t;
  ce_proj : forall i t, nth_error ts i = Some t -> proj i m = ct_tr t;
  ce_steps : steps st0 (map snd m) st1
}.

Definition writes_under (sid : string) (e : eff) : bool :=
  match e with ESetTok s _ | ESetAuth s _ => String.eqb s sid | _ => false end.
Definition thread_in (j : nat) (m : list (nat * (eff * ans))) : bool := existsb (fun x => Nat.eqb (fst x) j) m.
