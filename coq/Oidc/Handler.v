(* Oidc/Handler.v — model of oidcHandler.Process and its helpers (internal/authz/oidc.go),
   one Gallina definition per Go function, same order of store / IdP / key / generator calls. *)
From AS Require Import Base.Str Base.Base64 Http.PathSplit Http.Cookie Url.Escape Oidc.Types Oidc.Prog.

Definition std_headers : list (string * string) := [("cache-control", "no-cache"); ("pragma", "no-cache")].

(* newDenyResponse + setDenyResponse *)
Definition deny (code : gcode) : outcome :=
  ODeny {| d_code := code; d_status := 0; d_headers := std_headers; d_body := "" |}.
(* newSessionErrorResponse (no headers) *)
Definition session_error_body : string := "There was an error accessing your session data. Try again later.".
Definition session_error : outcome :=
  ODeny {| d_code := GUnauthenticated; d_status := 0; d_headers := []; d_body := session_error_body |}.
Definition redirect (location : string) (extra : list (string * string)) : outcome :=
  ODeny {| d_code := GUnauthenticated; d_status := 302;
           d_headers := std_headers ++ [("location", location)] ++ extra; d_body := "" |}.
Definition oops_body : string := "Oops, your session has expired. Please try again.".

(* typed access to the environment's answers *)
Definition do_unit (e : eff) : prog (option bool) :=
  a <- perform e ;; Ret (match a with AUnit ok => Some ok | _ => None end).
Definition do_get_tok (sid : string) : prog (option (option (option tokens))) :=
  a <- perform (EGetTok sid) ;; Ret (match a with ATok r => Some r | _ => None end).
Definition do_get_auth (sid : string) : prog (option (option (option auth_state))) :=
  a <- perform (EGetAuth sid) ;; Ret (match a with AAuth r => Some r | _ => None end).

Section Handler.
  Variable c : cfg.
  Variable db : tokdb.
  Variable now : Z.            (* the clock is read-only during a check *)

  Definition second : Z := 1000000000.

  (* matchesLogoutPath *)
  Definition matches_logout (r : request) : bool :=
    match logout c with
    | None => false
    | Some l => String.eqb (path_of (r_path r)) (lo_path l)
    end.

  (* matchesCallbackPath *)
  Definition matches_callback (r : request) : bool :=
    let cb := callback c in
    let host_port := if String.eqb (cb_port cb) "" then cb_hostname cb else cb_hostname cb ++ ":" ++ cb_port cb in
    let host_ok :=
      String.eqb (r_host r) host_port
      || (String.eqb (cb_scheme cb) "https" && String.eqb (cb_port cb) "443" && String.eqb (r_host r) (cb_hostname cb))
      || (String.eqb (cb_scheme cb) "http" && String.eqb (cb_port cb) "80" && String.eqb (r_host r) (cb_hostname cb)) in
    String.eqb (path_of (r_path r)) (cb_path cb) && host_ok.

  (* encodeHeaderValue *)
  Definition header_value (preamble value : string) : string :=
    if String.eqb preamble "" then value else preamble ++ " " ++ value.

  (* encodeTokensToHeaders: a Go map - equal header names overwrite; emitted sorted by name *)
  Definition tokens_to_headers (t : tokens) : list (string * string) :=
    let h := [(tc_header (id_token c), header_value (tc_preamble (id_token c)) (t_id t))] in
    match access_token c with
    | None => h
    | Some at_ =>
        if String.eqb (t_access t) "" then h
        else sort_kv (set_key (tc_header at_) (header_value (tc_preamble at_) (t_access t)) h)
    end.

  Definition allow (t : tokens) : outcome := OAllow (tokens_to_headers t).

  (* areRequiredTokensExpired: None = the stored ID token does not parse (error) *)
  Definition tokens_expired (t : tokens) : option bool :=
    let d := db (t_id t) in
    if negb (d_parses d) then None
    else if (d_exp d <? now)%Z then Some true
    else match access_token c with
         | None => Some false
         | Some _ =>
             Some (negb (String.eqb (t_access t) "") && negb (Z.eqb (t_expiry t) 0) && (t_expiry t <? now)%Z)
         end.

  (* strings.EqualFold(tokenType, "Bearer") *)
  Definition is_bearer (tt : string) : bool := String.eqb (to_lower tt) "bearer".

  Definition valid_new_tokens (b : idp_body) : bool :=
    is_bearer (b_token_type b) && negb (b_expires_in b <? 0)%Z &&
    negb (match access_token c with Some _ => String.eqb (b_access b) "" | None => false end).
  Definition valid_refresh_tokens (b : idp_body) : bool :=
    is_bearer (b_token_type b) && negb (b_expires_in b <? 0)%Z.

  (* expiry of the access token: unknown (zero) when the provider sends no positive expires_in *)
  Definition expiry_of (expires_in : Z) (dflt : Z) : Z :=
    if (0 <? expires_in)%Z then (now + expires_in * second - 5)%Z else dflt.

  (* isValidIDToken: inl tt = valid; inr code = the status to deny with *)
  Definition is_valid_id_token (tok expected_nonce : string) (nonce_required : bool) : prog (option gcode) :=
    let d := db tok in
    if negb (d_parses d) then Ret (Some GInternal) else
    let nonce_bad :=
      match d_nonce d with
      | NAbsent => nonce_required
      | NOther => true                         (* claim present but not a string *)
      | NStr tn =>
          (nonce_required || (negb (String.eqb tn "") && negb (String.eqb expected_nonce "")))
          && negb (String.eqb tn expected_nonce)
      end in
    if nonce_bad then Ret (Some GInvalidArgument) else
    if negb (existsb (String.eqb (client_id c)) (d_aud d)) then Ret (Some GInvalidArgument) else
    a <- perform EJwks ;;
    match a with
    | AJwks true => if d_sig_ok d then Ret None else Ret (Some GInternal)
    | AJwks false => Ret (Some GInternal)
    | _ => Ret (Some GPermissionDenied)   (* ill-typed answer; rendered as OBadAnswer by callers *)
    end.

  Definition requested_url (r : request) : string :=
    r_scheme r ++ "://" ++ r_host r ++ r_path r ++
    (if String.eqb (r_query r) "" then "" else "?" ++ r_query r).

  (* the authorization request; the endpoint's own query, if any, is kept *)
  Definition authorization_url (g : gen_out) : string :=
    auth_uri c ++ (if has_char c_q (auth_uri c) then "&" else "?") ++
    values_encode [("response_type", "code"); ("client_id", client_id c); ("redirect_uri", callback_uri c);
                   ("scope", concat_with " " (scopes c)); ("state", g_state g); ("nonce", g_nonce g);
                   ("code_challenge", g_challenge g); ("code_challenge_method", "S256")].

  (* redirectToIDP *)
  Definition redirect_to_idp (r : request) (old_sid : string) : prog outcome :=
    rm <- (if String.eqb old_sid "" then Ret (Some true) else do_unit (ERemove old_sid)) ;;
    match rm with
    | None => Ret OBadAnswer
    | Some false => Ret session_error
    | Some true =>
        a <- perform EGen ;;
        match a with
        | AGen g =>
            st <- do_unit (ESetAuth (g_sid g)
                     {| a_state := g_state g; a_nonce := g_nonce g; a_url := requested_url r; a_verifier := g_verifier g |}) ;;
            match st with
            | None => Ret OBadAnswer
            | Some false => Ret session_error
            | Some true =>
                Ret (redirect (authorization_url g)
                       [("set-cookie", set_cookie_header (cookie_prefix c) (g_sid g) SessionCookie)])
            end
        | _ => Ret OBadAnswer
        end
    end.

  Definition code_request (code verifier : string) : token_request :=
    {| q_uri := token_uri c;
       q_body := values_encode [("grant_type", "authorization_code"); ("code", code);
                                ("redirect_uri", callback_uri c); ("code_verifier", verifier)];
       q_auth := basic_auth (client_id c) (client_secret c);
       q_ctype := "application/x-www-form-urlencoded" |}.

  Definition refresh_request (rt : string) : token_request :=
    {| q_uri := token_uri c;
       q_body := values_encode [("grant_type", "refresh_token"); ("refresh_token", rt);
                                ("client_id", client_id c); ("client_secret", client_secret c)];
       q_auth := "";
       q_ctype := "application/x-www-form-urlencoded" |}.

  (* retrieveTokens *)
  Definition retrieve_tokens (r : request) (sid : string) : prog outcome :=
    let '(params, perr) := parse_query (query_of (r_path r)) in
    if perr then Ret (deny GInvalidArgument) else
    match params with
    | [] => Ret (deny GInvalidArgument)
    | _ =>
    let state := qget "state" params in
    let code := qget "code" params in
    if String.eqb state "" || String.eqb code "" then Ret (deny GInvalidArgument) else
    ga <- do_get_auth sid ;;
    match ga with
    | None => Ret OBadAnswer
    | Some None => Ret session_error
    | Some (Some None) =>
        Ret (ODeny {| d_code := GUnauthenticated; d_status := 400; d_headers := std_headers; d_body := oops_body |})
    | Some (Some (Some a)) =>
        if negb (String.eqb state (a_state a)) then Ret (deny GInvalidArgument) else
        ir <- perform (EIdp (code_request code (a_verifier a))) ;;
        match ir with
        | AIdp IdpTransportError => Ret (deny GInternal)
        | AIdp (IdpStatus _) => Ret (deny GUnknown)
        | AIdp IdpUndecodable => Ret (deny GInternal)
        | AIdp (IdpBody b) =>
            if negb (valid_new_tokens b) then Ret (deny GInvalidArgument) else
            v <- is_valid_id_token (b_id b) (a_nonce a) true ;;
            match v with
            | Some GPermissionDenied => Ret OBadAnswer
            | Some code_ => Ret (deny code_)
            | None =>
                cl <- do_unit (EClearAuth sid) ;;
                match cl with
                | None => Ret OBadAnswer
                | Some false => Ret session_error
                | Some true =>
                    st <- do_unit (ESetTok sid {| t_id := b_id b; t_access := b_access b; t_refresh := b_refresh b;
                                                   t_expiry := expiry_of (b_expires_in b) 0 |}) ;;
                    match st with
                    | None => Ret OBadAnswer
                    | Some false => Ret session_error
                    | Some true =>
                        Ret (ODeny {| d_code := GUnauthenticated; d_status := 302;
                                      d_headers := std_headers ++ [("location", a_url a)]; d_body := "" |})
                    end
                end
            end
        | _ => Ret OBadAnswer
        end
    end
    end.

  (* refreshToken: None = refresh failed (caller sends the user to the IdP); the error flag says that
     the environment answered with the wrong kind *)
  Definition refresh_token (old : tokens) (sid : string) : prog (option (option tokens)) :=
    ir <- perform (EIdp (refresh_request (t_refresh old))) ;;
    match ir with
    | AIdp (IdpBody b) =>
        if negb (valid_refresh_tokens b) then Ret (Some None) else
        let merged :=
          {| t_id := if d_parses (db (b_id b)) then b_id b else t_id old;
             t_access := if String.eqb (b_access b) "" then t_access old else b_access b;
             t_refresh := if String.eqb (b_refresh b) "" then t_refresh old else b_refresh b;
             t_expiry := expiry_of (b_expires_in b) (t_expiry old) |} in
        ga <- do_get_auth sid ;;
        match ga with
        | None => Ret None
        | Some None => Ret (Some None)
        | Some (Some oa) =>
            let expected := match oa with Some a => a_nonce a | None => "" end in
            v <- is_valid_id_token (t_id merged) expected false ;;
            match v with
            | None => Ret (Some (Some merged))
            | Some GPermissionDenied => Ret None
            | Some _ => Ret (Some None)
            end
        end
    | AIdp _ => Ret (Some None)
    | _ => Ret None
    end.

  (* Process *)
  Definition process (r : request) : prog outcome :=
    if negb (r_has_http r) then Ret (deny GInvalidArgument) else
    let sid := session_id_from_cookie (cookie_prefix c) (r_cookie r) in
    if matches_logout r then
      rm <- (if String.eqb sid "" then Ret (Some true) else do_unit (ERemove sid)) ;;
      match rm with
      | None => Ret OBadAnswer
      | Some false => Ret session_error
      | Some true =>
          Ret (redirect (match logout c with Some l => lo_redirect l | None => "" end)
                 [("set-cookie", set_cookie_header (cookie_prefix c) "deleted" MaxAge0)])
      end
    else if String.eqb sid "" then redirect_to_idp r ""
    else if matches_callback r then retrieve_tokens r sid
    else
      gt <- do_get_tok sid ;;
      match gt with
      | None => Ret OBadAnswer
      | Some None => Ret session_error
      | Some (Some None) => redirect_to_idp r sid
      | Some (Some (Some t)) =>
          match tokens_expired t with
          | None => Ret (deny GInternal)
          | Some false => Ret (allow t)
          | Some true =>
              if String.eqb (t_refresh t) "" then redirect_to_idp r sid else
              rt <- refresh_token t sid ;;
              match rt with
              | None => Ret OBadAnswer
              | Some None => redirect_to_idp r sid
              | Some (Some t') =>
                  st <- do_unit (ESetTok sid t') ;;
                  match st with
                  | None => Ret OBadAnswer
                  | Some false => Ret session_error
                  | Some true => Ret (allow t')
                  end
              end
          end
      end.
End Handler.
