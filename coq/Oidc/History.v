(* Oidc/History.v — sequential histories of checks over the abstract session map.  Between checks the
   map may lose any session (timeouts, evictions: C10's business); within a check every recorded
   answer must be one the map can give (Oidc/Store.steps), a reported failure having happened before
   or after the effect.  Each check runs against an arbitrary list of environment answers. *)
From AS Require Import Base.Str Http.Cookie Oidc.Types Oidc.Prog Oidc.Handler Oidc.Spec Oidc.Monitors Oidc.Store.

Record obs := { o_now : Z; o_req : request; o_tr : list (eff * ans); o_out : outcome }.

Inductive hrun (c : cfg) (db : tokdb) : store -> list obs -> store -> Prop :=
| hrun_nil st : hrun c db st [] st
| hrun_check st now r answers o tr rest st1 os st2 :
    run (process c db now r) answers = Some (o, tr, rest) -> typed_trace tr = true -> steps st tr st1 ->
    hrun c db st1 os st2 ->
    hrun c db st ({| o_now := now; o_req := r; o_tr := tr; o_out := o |} :: os) st2
| hrun_drop st sid os st2 : hrun c db (upd st sid None) os st2 -> hrun c db st os st2.

(* a state invariant that checks and drops preserve holds after every history *)
Lemma hrun_invariant c db (P : store -> Prop) :
  (forall st sid, P st -> P (upd st sid None)) ->
  (forall st now r answers o tr rest st1,
      P st -> run (process c db now r) answers = Some (o, tr, rest) -> typed_trace tr = true -> steps st tr st1 -> P st1) ->
  forall st os st2, hrun c db st os st2 -> P st -> P st2.
Proof.
  intros Hd Hc st os st2 H. induction H as [st|st now r answers o tr rest st1 os st2 Hr Ht Hs Hh IH|st sid os st2 Hh IH]; intros HP.
  - exact HP.
  - apply IH. eapply Hc; eassumption.
  - apply IH. apply Hd. exact HP.
Qed.

(* ... and holds before every check of the history; [Q] is then true of every observation *)
Lemma hrun_forall_obs c db (P : store -> Prop) (Q : obs -> Prop) :
  (forall st sid, P st -> P (upd st sid None)) ->
  (forall st now r answers o tr rest st1,
      P st -> run (process c db now r) answers = Some (o, tr, rest) -> typed_trace tr = true -> steps st tr st1 ->
      P st1 /\ Q {| o_now := now; o_req := r; o_tr := tr; o_out := o |}) ->
  forall st os st2, hrun c db st os st2 -> P st -> Forall Q os.
Proof.
  intros Hd Hc st os st2 H. induction H as [st|st now r answers o tr rest st1 os st2 Hr Ht Hs Hh IH|st sid os st2 Hh IH]; intros HP.
  - constructor.
  - destruct (Hc _ _ _ _ _ _ _ _ HP Hr Ht Hs) as [HP1 HQ]. constructor; [exact HQ | apply IH; exact HP1].
  - apply IH. apply Hd. exact HP.
Qed.

(* the session ids the service drew in a history *)
Definition drawn_in (tr : list (eff * ans)) : list string :=
  flat_map (fun ea => match ea with (EGen, AGen g) => [g_sid g] | _ => [] end) tr.
Definition drawn_ids (os : list obs) : list string := flat_map (fun ob => drawn_in (o_tr ob)) os.
