(* Tls/Pool.v — model of the TLS configuration pool (internal/tls.go), the CA file watcher (internal/file.go) and
   BoolStrValue (internal/boolstr.go): which trust a set of TLS settings yields, how configurations are pooled
   (one object per distinct settings) and how a watched CA file reaches the pooled object.  X.509 and the TLS
   handshake are not modelled: a configuration is {roots; skip verification} and "trusts CA c" is read off it. *)
From AS Require Import Base.Str.

(* google.protobuf.Value as far as BoolStrValue looks at it *)
Inductive sval := VNull | VBool (b : bool) | VStr (s : string) | VOther.
(* strconv.ParseBool *)
Definition parse_bool (s : string) : bool :=
  existsb (String.eqb s) ["1"; "t"; "T"; "TRUE"; "true"; "True"].
Definition boolstr (v : option sval) : bool :=
  match v with
  | Some (VStr s) => if String.eqb s "" then false else parse_bool s
  | Some (VBool b) => b
  | _ => false
  end.

Record settings := {
  ts_ca : string;            (* inline PEM *)
  ts_file : string;          (* CA file path *)
  ts_skip : option sval;     (* skip_verify_peer_cert *)
  ts_interval : Z;           (* refresh interval, ns *)
  ts_interval_str : string   (* time.Duration.String() of it (oracle; injective) *)
}.

(* the pool key: every field that distinguishes two settings, kept apart *)
Definition pool_id (s : settings) : bool * string * string * string :=
  (boolstr (ts_skip s), ts_ca s, ts_file s, ts_interval_str s).
Definition id_eqb (a b : bool * string * string * string) : bool :=
  let '(a1, a2, a3, a4) := a in let '(b1, b2, b3, b4) := b in
  Bool.eqb a1 b1 && String.eqb a2 b2 && String.eqb a3 b3 && String.eqb a4 b4.
(* what the pool key used to be: the same fields concatenated without separators (kept for the refutation) *)
Definition old_pool_id (s : settings) : string :=
  (if boolstr (ts_skip s) then "true" else "false") ++ ts_ca s ++ ts_file s ++ ts_interval_str s.

(* a tls.Config as far as trust goes *)
Record tlsconf := { tc_extra_ca : option string (* RootCAs = system roots + this PEM; None = system roots only *);
                    tc_insecure : bool }.
(* a PEM text may hold several certificates (a bundle, written "X+Y" in the symbolic contents the harness uses): every one
   of them is trusted *)
Definition trusts (t : tlsconf) (ca : string) : bool :=
  tc_insecure t || match tc_extra_ca t with Some pem => existsb (String.eqb ca) (split_on "+"%char pem) | None => false end.

(* a watcher is registered under (pool id of the settings, path) - the path is part of the pool id - and its callback
   is updateCA(pool id, new content), which looks the pooled object up when it fires *)
Record watcher := { w_id : bool * string * string * string; w_file : string; w_interval : Z; w_data : string; w_alive : bool }.

Record pstate := {
  objs : list tlsconf;                                        (* every tls.Config ever built, by index (object identity) *)
  pool : list ((bool * string * string * string) * nat);      (* id -> object index *)
  watchers : list watcher;
  files : list (string * string)                              (* path -> content; absent = unreadable *)
}.
Definition pinit (fs : list (string * string)) : pstate := {| objs := []; pool := []; watchers := []; files := fs |}.

Fixpoint pool_lookup (id : bool * string * string * string) (p : list ((bool * string * string * string) * nat)) : option nat :=
  match p with
  | [] => None
  | (k, v) :: p' => if id_eqb id k then Some v else pool_lookup id p'
  end.

Inductive lres := LNil | LObj (i : nat) | LErr.

Fixpoint set_nth_conf (n : nat) (v : tlsconf) (l : list tlsconf) : list tlsconf :=
  match l, n with
  | [], _ => []
  | _ :: l', 0 => v :: l'
  | x :: l', S n' => x :: set_nth_conf n' v l'
  end.

Section Pool.
  Variable pem_ok : string -> bool.      (* x509.CertPool.AppendCertsFromPEM accepts it (oracle) *)

  (* FileWatcher.WatchFile: any watcher registered under the same reader id is cancelled first - even when the new
     registration does not start one (interval <= 0) or the read fails.  The reader id is (pool id, path) since fix
     a TLS configuration per watcher; before it was the path alone, so that different settings watching one file
     stopped each other's watchers *)
  Definition cancel_watchers (id : bool * string * string * string) (ws : list watcher) : list watcher :=
    map (fun w => if id_eqb (w_id w) id then {| w_id := w_id w; w_file := w_file w; w_interval := w_interval w; w_data := w_data w; w_alive := false |} else w) ws.

  Definition load (st : pstate) (s : settings) : pstate * lres :=
    if String.eqb (ts_ca s) "" && String.eqb (ts_file s) "" && (match ts_skip s with None => true | Some _ => false end) then (st, LNil)
    else
      let id := pool_id s in
      match pool_lookup id (pool st) with
      | Some i => (st, LObj i)
      | None =>
          let new_index := length (objs st) in
          if negb (String.eqb (ts_ca s) "") then
            if pem_ok (ts_ca s)
            then ({| objs := objs st ++ [{| tc_extra_ca := Some (ts_ca s); tc_insecure := false |}]; pool := (id, new_index) :: pool st;
                     watchers := watchers st; files := files st |}, LObj new_index)
            else (st, LErr)
          else if negb (String.eqb (ts_file s) "") then
            let ws := cancel_watchers id (watchers st) in
            match lookup (ts_file s) (files st) with
            | None => ({| objs := objs st; pool := pool st; watchers := ws; files := files st |}, LErr)
            | Some data =>
                let ws' := if (0 <? ts_interval s)%Z
                           then (ws ++ [{| w_id := id; w_file := ts_file s; w_interval := ts_interval s; w_data := data; w_alive := true |}])%list
                           else ws in
                if String.eqb data "" then
                  ({| objs := objs st ++ [{| tc_extra_ca := None; tc_insecure := false |}]; pool := (id, new_index) :: pool st; watchers := ws'; files := files st |}, LObj new_index)
                else if pem_ok data then
                  ({| objs := objs st ++ [{| tc_extra_ca := Some data; tc_insecure := false |}]; pool := (id, new_index) :: pool st; watchers := ws'; files := files st |}, LObj new_index)
                else ({| objs := objs st; pool := pool st; watchers := ws'; files := files st |}, LErr)
            end
          else
            ({| objs := objs st ++ [{| tc_extra_ca := None; tc_insecure := boolstr (ts_skip s) |}]; pool := (id, new_index) :: pool st;
                watchers := watchers st; files := files st |}, LObj new_index)
      end.

  (* the file is rewritten *)
  Definition rewrite_file (st : pstate) (path content : string) : pstate :=
    {| objs := objs st; pool := pool st; watchers := watchers st; files := set_key path content (files st) |}.

  (* every live watcher's ticker fires once (the model is driven at multiples of the intervals): re-read, and on a
     change update the pooled object it was registered for (updateCA), provided the PEM loads *)
  Definition tick_one (pl : list ((bool * string * string * string) * nat)) (fs : list (string * string)) (os : list tlsconf) (w : watcher) : list tlsconf * watcher :=
    if w_alive w then
      match lookup (w_file w) fs with
      | None => (os, w)
      | Some data =>
          if String.eqb data (w_data w) then (os, w)
          else
            let w' := {| w_id := w_id w; w_file := w_file w; w_interval := w_interval w; w_data := data; w_alive := true |} in
            (* updateCA(id, data): "config not found" when the load that registered the watcher failed *)
            match pool_lookup (w_id w) pl with
            | Some k =>
                match nth_error os k with
                | Some old => if pem_ok data then (set_nth_conf k {| tc_extra_ca := Some data; tc_insecure := tc_insecure old |} os, w') else (os, w')
                | None => (os, w')
                end
            | None => (os, w')
            end
      end
    else (os, w).
  Fixpoint tick_all (pl : list ((bool * string * string * string) * nat)) (fs : list (string * string)) (os : list tlsconf) (ws : list watcher) : list tlsconf * list watcher :=
    match ws with
    | [] => (os, [])
    | w :: ws' => let '(os1, w1) := tick_one pl fs os w in let '(os2, ws2) := tick_all pl fs os1 ws' in (os2, w1 :: ws2)
    end.
  Definition tick (st : pstate) : pstate :=
    let '(os, ws) := tick_all (pool st) (files st) (objs st) (watchers st) in
    {| objs := os; pool := pool st; watchers := ws; files := files st |}.
End Pool.
