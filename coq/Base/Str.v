(* Base/Str.v — byte strings (Coq [string] = list of bytes) and the Go [strings] functions
   the models need.  Executable definitions only; lemmas are in Base/StrFacts.v. *)
From Coq Require Export String Ascii List Bool Arith ZArith Lia.
Export ListNotations.
Open Scope string_scope.

(* strings.HasPrefix(s, p) *)
Fixpoint prefixb (p s : string) : bool :=
  match p, s with
  | EmptyString, _ => true
  | String a p', String b s' => if Ascii.eqb a b then prefixb p' s' else false
  | String _ _, EmptyString => false
  end.

(* strings.HasSuffix(s, p) *)
Fixpoint suffixb (p s : string) : bool :=
  if String.eqb p s then true
  else match s with
       | EmptyString => false
       | String _ s' => suffixb p s'
       end.

(* s[:i] where i is the first index of byte c, or all of s when c does not occur *)
Fixpoint before (c : ascii) (s : string) : string :=
  match s with
  | EmptyString => EmptyString
  | String a s' => if Ascii.eqb a c then EmptyString else String a (before c s')
  end.

(* Some s[i+1:] where i is the first index of byte c; None when c does not occur *)
Fixpoint after (c : ascii) (s : string) : option string :=
  match s with
  | EmptyString => None
  | String a s' => if Ascii.eqb a c then Some s' else after c s'
  end.

Fixpoint has_char (c : ascii) (s : string) : bool :=
  match s with
  | EmptyString => false
  | String a s' => if Ascii.eqb a c then true else has_char c s'
  end.

Definition odflt (o : option string) : string :=
  match o with Some s => s | None => EmptyString end.

(* strings.Split(s, string(c)) — always at least one piece *)
Fixpoint split_on (c : ascii) (s : string) : list string :=
  match s with
  | EmptyString => [EmptyString]
  | String a s' =>
      if Ascii.eqb a c then EmptyString :: split_on c s'
      else match split_on c s' with
           | [] => [String a EmptyString]   (* unreachable *)
           | x :: xs => String a x :: xs
           end
  end.

Fixpoint concat_with (sep : string) (l : list string) : string :=
  match l with
  | [] => EmptyString
  | [x] => x
  | x :: xs => x ++ sep ++ concat_with sep xs
  end.

Definition is_upper (a : ascii) : bool :=
  let n := nat_of_ascii a in ((65 <=? n) && (n <=? 90))%nat.
Definition lower_ascii (a : ascii) : ascii :=
  if is_upper a then ascii_of_nat (nat_of_ascii a + 32) else a.
(* strings.ToLower on ASCII strings *)
Fixpoint to_lower (s : string) : string :=
  match s with
  | EmptyString => EmptyString
  | String a s' => String (lower_ascii a) (to_lower s')
  end.

Fixpoint string_rev_acc (s acc : string) : string :=
  match s with EmptyString => acc | String a s' => string_rev_acc s' (String a acc) end.
Definition string_rev (s : string) : string := string_rev_acc s EmptyString.

Fixpoint string_of_list (l : list ascii) : string :=
  match l with [] => EmptyString | a :: l' => String a (string_of_list l') end.
Fixpoint list_of_str (s : string) : list ascii :=
  match s with EmptyString => [] | String a s' => a :: list_of_str s' end.

(* ---- hex transport: the harness writes every byte string as hex, [hx] decodes it ---- *)
Definition hexval (a : ascii) : nat :=
  let n := nat_of_ascii a in
  if ((48 <=? n) && (n <=? 57))%nat then n - 48
  else if ((97 <=? n) && (n <=? 102))%nat then n - 87
  else if ((65 <=? n) && (n <=? 70))%nat then n - 55
  else 0.
Fixpoint hx (s : string) : string :=
  match s with
  | String a (String b s') => String (ascii_of_nat (16 * hexval a + hexval b)) (hx s')
  | _ => EmptyString
  end.

Definition hexdigit (n : nat) : ascii :=
  if (n <? 10)%nat then ascii_of_nat (48 + n) else ascii_of_nat (55 + n).   (* upper-case *)

(* assoc-list maps keyed by strings: Go map[string]T with explicit "later wins" when built by [set] *)
Fixpoint lookup {A} (k : string) (m : list (string * A)) : option A :=
  match m with
  | [] => None
  | (k', v) :: m' => if String.eqb k k' then Some v else lookup k m'
  end.
Fixpoint remove_key {A} (k : string) (m : list (string * A)) : list (string * A) :=
  match m with
  | [] => []
  | (k', v) :: m' => if String.eqb k k' then remove_key k m' else (k', v) :: remove_key k m'
  end.
Definition set_key {A} (k : string) (v : A) (m : list (string * A)) : list (string * A) :=
  (k, v) :: remove_key k m.
