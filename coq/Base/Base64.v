(* Base/Base64.v — base64.StdEncoding.EncodeToString (with '=' padding). *)
From AS Require Import Base.Str.

Definition b64char (n : nat) : ascii :=
  if (n <? 26)%nat then ascii_of_nat (65 + n)
  else if (n <? 52)%nat then ascii_of_nat (97 + (n - 26))
  else if (n <? 62)%nat then ascii_of_nat (48 + (n - 52))
  else if Nat.eqb n 62 then "+"%char else "/"%char.

Fixpoint b64_list (l : list ascii) : string :=
  match l with
  | [] => EmptyString
  | [a] =>
      let x := nat_of_ascii a in
      String (b64char (x / 4)) (String (b64char ((x mod 4) * 16)) "==")
  | [a; b] =>
      let x := nat_of_ascii a in let y := nat_of_ascii b in
      String (b64char (x / 4)) (String (b64char ((x mod 4) * 16 + y / 16))
        (String (b64char ((y mod 16) * 4)) "="))
  | a :: b :: c :: l' =>
      let x := nat_of_ascii a in let y := nat_of_ascii b in let z := nat_of_ascii c in
      String (b64char (x / 4)) (String (b64char ((x mod 4) * 16 + y / 16))
        (String (b64char ((y mod 16) * 4 + z / 64)) (String (b64char (z mod 64)) (b64_list l'))))
  end.

Definition base64 (s : string) : string := b64_list (list_of_str s).

(* inthttp.BasicAuthHeader *)
Definition basic_auth (id secret : string) : string := "Basic " ++ base64 (id ++ ":" ++ secret).
