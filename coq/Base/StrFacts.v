(* Base/StrFacts.v — lemmas about Base/Str.v *)
From AS Require Import Base.Str.

Lemma ascii_eqb_refl a : Ascii.eqb a a = true.
Proof. apply Ascii.eqb_eq; reflexivity. Qed.

Lemma prefixb_spec p s : prefixb p s = true <-> exists t, s = p ++ t.
Proof.
  revert s; induction p as [|a p IH]; intros s; simpl.
  - split; [intros _; exists s; reflexivity | reflexivity].
  - destruct s as [|b s]; [split; [discriminate | intros [t H]; discriminate]|].
    destruct (Ascii.eqb a b) eqn:E.
    + apply Ascii.eqb_eq in E; subst b. rewrite IH. split; intros [t H]; exists t.
      * now rewrite H.
      * now inversion H.
    + split; [discriminate|]. intros [t H]. inversion H; subst.
      rewrite ascii_eqb_refl in E; discriminate.
Qed.

Lemma prefixb_empty s : prefixb "" s = true.
Proof. reflexivity. Qed.

Lemma prefixb_refl s : prefixb s s = true.
Proof. induction s as [|a s IH]; simpl; [reflexivity|]. now rewrite ascii_eqb_refl. Qed.

Lemma append_nil_r s : s ++ "" = s.
Proof. induction s as [|a s IH]; simpl; [reflexivity|now rewrite IH]. Qed.

Lemma append_assoc (a b c : string) : (a ++ b) ++ c = a ++ b ++ c.
Proof. induction a as [|x a IH]; simpl; [reflexivity|now rewrite IH]. Qed.

Lemma suffixb_spec p s : suffixb p s = true <-> exists t, s = t ++ p.
Proof.
  induction s as [|a s IH]; simpl.
  - destruct (String.eqb p "") eqn:E.
    + apply String.eqb_eq in E; subst. split; [intros _; exists ""; reflexivity|reflexivity].
    + split; [discriminate|]. intros [t H]. destruct t; simpl in H.
      * subst p. discriminate.
      * discriminate.
  - destruct (String.eqb p (String a s)) eqn:E.
    + apply String.eqb_eq in E; subst. split; [intros _; exists ""; reflexivity|reflexivity].
    + rewrite IH. split.
      * intros [t H]. exists (String a t). simpl. now rewrite H.
      * intros [t H]. destruct t as [|b t]; simpl in H.
        -- subst p. rewrite String.eqb_refl in E. discriminate.
        -- inversion H; subst. now exists t.
Qed.

Lemma has_char_app c s t : has_char c (s ++ t) = has_char c s || has_char c t.
Proof. induction s as [|a s IH]; simpl; [reflexivity|]. destruct (Ascii.eqb a c); [reflexivity|exact IH]. Qed.

Lemma before_no_char c s : has_char c (before c s) = false.
Proof.
  induction s as [|a s IH]; simpl; [reflexivity|].
  destruct (Ascii.eqb a c) eqn:E; simpl; [reflexivity|]. now rewrite E.
Qed.

Lemma before_after c s :
  s = before c s ++ match after c s with Some r => String c r | None => "" end.
Proof.
  induction s as [|a s IH]; simpl; [reflexivity|].
  destruct (Ascii.eqb a c) eqn:E; simpl.
  - apply Ascii.eqb_eq in E. now subst.
  - now rewrite <- IH.
Qed.

Lemma before_absent c s : has_char c s = false -> before c s = s.
Proof.
  induction s as [|a s IH]; simpl; [reflexivity|].
  destruct (Ascii.eqb a c); [discriminate|]. intros H. now rewrite IH.
Qed.

Lemma after_absent c s : has_char c s = false -> after c s = None.
Proof.
  induction s as [|a s IH]; simpl; [reflexivity|].
  destruct (Ascii.eqb a c); [discriminate|]. exact IH.
Qed.

Lemma before_app_char c s t : has_char c s = false -> before c (s ++ String c t) = s.
Proof.
  induction s as [|a s IH]; simpl.
  - now rewrite ascii_eqb_refl.
  - destruct (Ascii.eqb a c); [discriminate|]. intros H. now rewrite IH.
Qed.

Lemma after_app_char c s t : has_char c s = false -> after c (s ++ String c t) = Some t.
Proof.
  induction s as [|a s IH]; simpl.
  - now rewrite ascii_eqb_refl.
  - destruct (Ascii.eqb a c); [discriminate|]. exact IH.
Qed.

Lemma has_char_before_other c d s : has_char d s = false -> has_char d (before c s) = false.
Proof.
  induction s as [|a s IH]; simpl; [reflexivity|].
  destruct (Ascii.eqb a d) eqn:E; [discriminate|]. intros H.
  destruct (Ascii.eqb a c); simpl; [reflexivity|]. rewrite E. now apply IH.
Qed.

Lemma string_eqb_sym a b : String.eqb a b = String.eqb b a.
Proof.
  destruct (String.eqb a b) eqn:E.
  - apply String.eqb_eq in E. subst. now rewrite String.eqb_refl.
  - destruct (String.eqb b a) eqn:E2; [|reflexivity].
    apply String.eqb_eq in E2. subst. rewrite String.eqb_refl in E. discriminate.
Qed.

Lemma lookup_set_same {A} k (v : A) m : lookup k (set_key k v m) = Some v.
Proof. unfold set_key; simpl. now rewrite String.eqb_refl. Qed.

Lemma lookup_remove_other {A} k k' (m : list (string * A)) :
  String.eqb k k' = false -> lookup k (remove_key k' m) = lookup k m.
Proof.
  intros Hne. induction m as [|[k2 v2] m IH]; simpl; [reflexivity|].
  destruct (String.eqb k' k2) eqn:E.
  - apply String.eqb_eq in E; subst k2. rewrite Hne. exact IH.
  - simpl. destruct (String.eqb k k2); [reflexivity|exact IH].
Qed.

Lemma lookup_remove_same {A} k (m : list (string * A)) : lookup k (remove_key k m) = None.
Proof.
  induction m as [|[k2 v2] m IH]; simpl; [reflexivity|].
  destruct (String.eqb k k2) eqn:E; [exact IH|]. simpl. now rewrite E.
Qed.

Lemma lookup_set_other {A} k k' (v : A) m :
  String.eqb k k' = false -> lookup k (set_key k' v m) = lookup k m.
Proof. intros H. unfold set_key; simpl. rewrite H. now apply lookup_remove_other. Qed.
