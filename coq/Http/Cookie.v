(* Http/Cookie.v — models of inthttp.DecodeCookiesHeader / EncodeCookieHeader and of the cookie
   helpers of internal/authz/oidc.go (getCookieName, getCookieDirectives, generateSetCookieHeader,
   getSessionIDFromCookie). *)
From AS Require Import Base.Str.

(* strings.TrimSpace restricted to ASCII input: \t \n \v \f \r and space *)
Definition is_space (a : ascii) : bool :=
  let n := nat_of_ascii a in ((9 <=? n) && (n <=? 13))%nat || Nat.eqb n 32.
Fixpoint trim_left (s : string) : string :=
  match s with
  | String a s' => if is_space a then trim_left s' else s
  | EmptyString => EmptyString
  end.
Definition trim_space (s : string) : string := string_rev (trim_left (string_rev (trim_left s))).

(* one piece of the Cookie header: kept only if splitting on '=' gives exactly two parts *)
Definition cookie_piece (c : string) : option (string * string) :=
  match split_on "="%char (trim_space c) with
  | [n; v] => Some (n, v)
  | _ => None
  end.

(* map semantics: a later piece with the same name overwrites an earlier one *)
Fixpoint decode_pieces (ps : list string) (m : list (string * string)) : list (string * string) :=
  match ps with
  | [] => m
  | p :: ps' => decode_pieces ps' (match cookie_piece p with Some (n, v) => set_key n v m | None => m end)
  end.
Definition decode_cookies (header : string) : list (string * string) :=
  decode_pieces (split_on ";"%char header) [].

Definition cookie_suffix : string := "-authservice-session-id-cookie".
Definition cookie_name (prefix : string) : string :=
  if String.eqb prefix "" then "__Host-authservice-session-id-cookie"
  else "__Host-" ++ prefix ++ cookie_suffix.

(* getSessionIDFromCookie: "" means "no session cookie" *)
Definition session_id_from_cookie (prefix : string) (cookie_header : string) : string :=
  if String.eqb cookie_header "" then ""
  else odflt (lookup (cookie_name prefix) (decode_cookies cookie_header)).

Inductive cookie_age := SessionCookie (* timeout < 0: no Max-Age *) | MaxAge0.

Definition cookie_directives (age : cookie_age) : list string :=
  ["HttpOnly"; "Secure"; "SameSite=Lax"; "Path=/"] ++
  match age with SessionCookie => [] | MaxAge0 => ["Max-Age=0"] end.

Fixpoint encode_directives (ds : list string) : string :=
  match ds with [] => "" | d :: ds' => "; " ++ d ++ encode_directives ds' end.
Definition encode_cookie (name value : string) (ds : list string) : string :=
  name ++ "=" ++ value ++ encode_directives ds.

Definition set_cookie_header (prefix value : string) (age : cookie_age) : string :=
  encode_cookie (cookie_name prefix) value (cookie_directives age).
