(* Http/Cookie.v — models of inthttp.DecodeCookiesHeader / EncodeCookieHeader and of the cookie
   helpers of internal/authz/oidc.go (getCookieName, getCookieDirectives, generateSetCookieHeader,
   getSessionIDFromCookie). *)
From AS Require Import Base.Str.

(* strings.TrimSpace: Unicode White_Space, decoded from UTF-8 at both ends (an invalid byte is not a space):
   ASCII \t \n \v \f \r and space; U+0085, U+00A0 (two bytes); U+1680, U+2000..U+200A, U+2028, U+2029, U+202F,
   U+205F, U+3000 (three bytes) *)
Definition is_space (a : ascii) : bool :=
  let n := nat_of_ascii a in ((9 <=? n) && (n <=? 13))%nat || Nat.eqb n 32.
Definition space2 (a b : ascii) : bool :=
  Nat.eqb (nat_of_ascii a) 194 && (Nat.eqb (nat_of_ascii b) 133 || Nat.eqb (nat_of_ascii b) 160).
Definition space3 (a b c : ascii) : bool :=
  let x := nat_of_ascii a in let y := nat_of_ascii b in let z := nat_of_ascii c in
  (Nat.eqb x 225 && Nat.eqb y 154 && Nat.eqb z 128) ||
  (Nat.eqb x 226 && Nat.eqb y 128 && (((128 <=? z) && (z <=? 138))%nat || Nat.eqb z 168 || Nat.eqb z 169 || Nat.eqb z 175)) ||
  (Nat.eqb x 226 && Nat.eqb y 129 && Nat.eqb z 159) ||
  (Nat.eqb x 227 && Nat.eqb y 128 && Nat.eqb z 128).

Fixpoint trim_left (s : string) : string :=
  match s with
  | String a s1 =>
      if is_space a then trim_left s1
      else match s1 with
           | String b s2 =>
               if space2 a b then trim_left s2
               else match s2 with
                    | String c s3 => if space3 a b c then trim_left s3 else s
                    | EmptyString => s
                    end
           | EmptyString => s
           end
  | EmptyString => EmptyString
  end.
(* the same from the right, on the reversed string (bytes of a rune come in reverse order) *)
Fixpoint trim_left_rev (s : string) : string :=
  match s with
  | String a s1 =>
      if is_space a then trim_left_rev s1
      else match s1 with
           | String b s2 =>
               if space2 b a then trim_left_rev s2
               else match s2 with
                    | String c s3 => if space3 c b a then trim_left_rev s3 else s
                    | EmptyString => s
                    end
           | EmptyString => s
           end
  | EmptyString => EmptyString
  end.
Definition trim_space (s : string) : string := string_rev (trim_left_rev (string_rev (trim_left s))).

(* one piece of the Cookie header: kept only if splitting on '=' gives exactly two parts *)
Definition cookie_piece (c : string) : option (string * string) :=
  match split_on "="%char (trim_space c) with
  | [n; v] => Some (n, v)
  | _ => None
  end.

(* map semantics: a later piece with the same name overwrites an earlier one *)
Fixpoint decode_pieces (ps : list string) (m : list (string * string)) : list (string * string) :=
  match ps with
  | [] => m
  | p :: ps' => decode_pieces ps' (match cookie_piece p with Some (n, v) => set_key n v m | None => m end)
  end.
Definition decode_cookies (header : string) : list (string * string) :=
  decode_pieces (split_on ";"%char header) [].

Definition cookie_suffix : string := "-authservice-session-id-cookie".
Definition cookie_name (prefix : string) : string :=
  if String.eqb prefix "" then "__Host-authservice-session-id-cookie"
  else "__Host-" ++ prefix ++ cookie_suffix.

(* getSessionIDFromCookie: "" means "no session cookie" *)
Definition session_id_from_cookie (prefix : string) (cookie_header : string) : string :=
  if String.eqb cookie_header "" then ""
  else odflt (lookup (cookie_name prefix) (decode_cookies cookie_header)).

Inductive cookie_age := SessionCookie (* timeout < 0: no Max-Age *) | MaxAge0.

Definition cookie_directives (age : cookie_age) : list string :=
  ["HttpOnly"; "Secure"; "SameSite=Lax"; "Path=/"] ++
  match age with SessionCookie => [] | MaxAge0 => ["Max-Age=0"] end.

Fixpoint encode_directives (ds : list string) : string :=
  match ds with [] => "" | d :: ds' => "; " ++ d ++ encode_directives ds' end.
Definition encode_cookie (name value : string) (ds : list string) : string :=
  name ++ "=" ++ value ++ encode_directives ds.

Definition set_cookie_header (prefix value : string) (age : cookie_age) : string :=
  encode_cookie (cookie_name prefix) value (cookie_directives age).
