(* Http/PathSplit.v — model of inthttp.GetPathQueryFragment (internal/http/http.go). *)
From AS Require Import Base.Str.

Definition c_hash : ascii := "#"%char.
Definition c_q : ascii := "?"%char.

(* Go: hash = Index(full,"#"); inter = Index(full[:hash] or full, "?"); four cases. *)
Definition path_query_fragment (full : string) : string * string * string :=
  let h := before c_hash full in          (* full[:hash], or full when there is no '#' *)
  let frag := odflt (after c_hash full) in
  let p := before c_q h in
  let q := odflt (after c_q h) in
  (p, q, frag).

Definition path_of (full : string) : string := fst (fst (path_query_fragment full)).
Definition query_of (full : string) : string := snd (fst (path_query_fragment full)).
Definition fragment_of (full : string) : string := snd (path_query_fragment full).
