(* Http/SetCookie.v — an INDEPENDENT reading of a Set-Cookie header value, after RFC 6265 section 5.2
   (what a user agent does with it).  Used to judge what the service emits; shares no code with the
   model of the encoder in Http/Cookie.v except string primitives. *)
From AS Require Import Base.Str Http.Cookie.

Record parsed_cookie := { pc_name : string; pc_value : string; pc_attrs : list (string * string) }.   (* attribute names lower-cased *)

Definition split_first (c : ascii) (s : string) : string * option string := (before c s, after c s).

Definition parse_attr (a : string) : string * string :=
  let '(n, v) := split_first "="%char a in
  (to_lower (trim_space n), trim_space (odflt v)).

(* None: the user agent ignores the header entirely (no '=' in the name-value pair, or empty name) *)
Definition parse_set_cookie (h : string) : option parsed_cookie :=
  let '(nv, rest) := split_first ";"%char h in
  match after "="%char nv with
  | None => None
  | Some v =>
      let n := trim_space (before "="%char nv) in
      if String.eqb n "" then None
      else Some {| pc_name := n; pc_value := trim_space v;
                   pc_attrs := match rest with
                               | None => []
                               | Some r => map parse_attr (split_on ";"%char r)
                               end |}
  end.

Definition attr_values (k : string) (p : parsed_cookie) : list string :=
  flat_map (fun kv => if String.eqb (fst kv) k then [snd kv] else []) (pc_attrs p).
Definition has_attr (k : string) (p : parsed_cookie) : bool :=
  match attr_values k p with [] => false | _ => true end.

(* what C05 demands of the session cookie *)
Definition host_locked_and_protected (p : parsed_cookie) : bool :=
  prefixb "__Host-" (pc_name p) &&
  negb (has_attr "domain" p) &&
  (match attr_values "path" p with [] => false | vs => forallb (String.eqb "/") vs end) &&
  has_attr "secure" p && has_attr "httponly" p &&
  (match attr_values "samesite" p with
   | [] => false
   | vs => forallb (fun v => String.eqb (to_lower v) "lax" || String.eqb (to_lower v) "strict") vs
   end).

(* expired by the answer: Max-Age present and zero or negative (digits only, all '0', or a leading '-') *)
Fixpoint all_zero (s : string) : bool :=
  match s with EmptyString => true | String a s' => Ascii.eqb a "0"%char && all_zero s' end.
Definition expires_now (p : parsed_cookie) : bool :=
  match attr_values "max-age" p with
  | [] => false
  | vs => forallb (fun v => negb (String.eqb v "") && (all_zero v || prefixb "-" v)) vs
  end.
