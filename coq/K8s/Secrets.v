(* K8s/Secrets.v — model of the Kubernetes secret controller (internal/k8s/secret_controller.go):
   loadSecrets (start-up map from "namespace/name" to the filters that reference that Secret, cross-namespace
   references refused) and Reconcile (copy the Secret's client-secret value into every filter of the map entry;
   ignore unknown, missing, deleting and key-less Secrets). *)
From AS Require Import Base.Str.

(* the client-secret source of one OIDC filter (the oneof) *)
Inductive source := SrcNone | SrcLiteral (s : string) | SrcRef (ns name : string).
Definition effective (s : source) : string := match s with SrcLiteral x => x | _ => "" end.      (* GetClientSecret() *)

(* a Secret object as Reconcile sees it *)
Record secret_obj := { so_deleting : bool; so_data : option string (* the client-secret key; None = key absent *) }.
Definition cluster := list (string * secret_obj).     (* keyed by "namespace/name" *)
Definition key_of (ns name : string) : string := ns ++ "/" ++ name.

Inductive event :=
| EvApply (ns name : string) (o : option secret_obj)   (* the cluster's Secret ns/name becomes o (None = gone); a reconcile of it follows *)
| EvResync (ns name : string).                          (* a reconcile without a change *)

Section Controller.
  Variable cns : string.     (* the namespace the service runs in *)

  (* loadSecrets: None = cross-namespace reference refused; else the map key -> indices of referencing filters *)
  Fixpoint load_from (i : nat) (fs : list source) (m : list (string * list nat)) : option (list (string * list nat)) :=
    match fs with
    | [] => Some m
    | SrcRef ns name :: fs' =>
        if String.eqb name "" then load_from (S i) fs' m
        else if negb (String.eqb ns "") && negb (String.eqb ns cns) then None
        else let k := key_of cns name in
             load_from (S i) fs' (set_key k (match lookup k m with Some l => l ++ [i] | None => [i] end)%list m)
    | _ :: fs' => load_from (S i) fs' m
    end.
  Definition load_secrets (fs : list source) := load_from 0 fs [].

  Fixpoint set_nth (n : nat) (v : source) (l : list source) : list source :=
    match l, n with
    | [], _ => []
    | _ :: l', 0 => v :: l'
    | x :: l', S n' => x :: set_nth n' v l'
    end.

  (* Reconcile *)
  Definition reconcile (m : list (string * list nat)) (cl : cluster) (ns name : string) (fs : list source) : list source :=
    let k := key_of ns name in
    match lookup k m with
    | None => fs
    | Some idxs =>
        match lookup k cl with
        | None => fs
        | Some o =>
            if so_deleting o then fs
            else match so_data o with
                 | None => fs
                 | Some v => if String.eqb v "" then fs else fold_left (fun acc i => set_nth i (SrcLiteral v) acc) idxs fs
                 end
        end
    end.

  Definition apply_event (m : list (string * list nat)) (st : cluster * list source) (e : event) : cluster * list source :=
    let '(cl, fs) := st in
    match e with
    | EvApply ns name o =>
        let k := key_of ns name in
        let cl' := match o with Some x => set_key k x cl | None => remove_key k cl end in
        (cl', reconcile m cl' ns name fs)
    | EvResync ns name => (cl, reconcile m cl ns name fs)
    end.

  (* the controller over a history; the observation after each event is every filter's effective secret *)
  Fixpoint run_events (m : list (string * list nat)) (st : cluster * list source) (es : list event) : list (list string) :=
    match es with
    | [] => []
    | e :: es' => let st' := apply_event m st e in map effective (snd st') :: run_events m st' es'
    end.

  (* ---- the reference: per filter, independent of the controller's bookkeeping ---- *)
  (* the Secret a filter referenced AT START-UP, if the reference is one the controller watches *)
  Definition watched (s : source) : option string :=
    match s with
    | SrcRef ns name => if String.eqb name "" then None else Some (key_of cns name)
    | _ => None
    end.
  (* the value an event delivers for key k, if any *)
  Definition delivers (cl_after : cluster) (e : event) (k : string) : option string :=
    let ek := match e with EvApply ns name _ | EvResync ns name => key_of ns name end in
    if String.eqb ek k then
      match lookup k cl_after with
      | Some o => if so_deleting o then None else match so_data o with Some v => if String.eqb v "" then None else Some v | None => None end
      | None => None
      end
    else None.
  Definition cluster_after (cl : cluster) (e : event) : cluster :=
    match e with
    | EvApply ns name (Some x) => set_key (key_of ns name) x cl
    | EvApply ns name None => remove_key (key_of ns name) cl
    | EvResync _ _ => cl
    end.
  (* reference for one filter: start from its configured source; every event that delivers a value for the Secret it
     referenced at start-up replaces it by that literal *)
  Fixpoint ref_filter (w : option string) (cur : source) (cl : cluster) (es : list event) : list string :=
    match es with
    | [] => []
    | e :: es' =>
        let cl' := cluster_after cl e in
        let cur' := match w with
                    | Some k => match delivers cl' e k with Some v => SrcLiteral v | None => cur end
                    | None => cur
                    end in
        effective cur' :: ref_filter w cur' cl' es'
    end.
End Controller.
