(* Config/Loader.v — model of LocalConfigFile.Validate (internal/config.go) on the DECODED configuration
   message (protojson itself is not modelled): port clash, URL validation, chain pre-checks, proto.Merge of
   an override over the default OIDC configuration, defaults, structural checks and the generated ValidateAll
   rules.  net/url.Parse, redis.ParseURL and net.ParseIP are oracles attached to the values they are applied
   to (the harness supplies their answers): modelled, not verified. *)
From AS Require Import Base.Str.

(* a URL-typed string field with what url.Parse makes of it *)
Record urlv := { u_text : string; u_ok : bool; u_path : string }.
Definition uempty : urlv := {| u_text := ""; u_ok := true; u_path := "" |}.
Definition is_unset (u : urlv) : bool := String.eqb (u_text u) "".

Record tokc := { tk_header : string; tk_preamble : string }.
Record logoutc := { lg_path : string; lg_redirect : string }.
Record redisc := { rd_uri : string; rd_ok : bool (* redis.ParseURL accepts it after tcp:// -> redis:// *) }.
Inductive pval := PNull | PBool (b : bool) | PStr (s : string) | PNum | PStruct | PList.    (* google.protobuf.Value *)
Record fetcher := { jf_uri : urlv; jf_interval : nat; jf_skip : option pval }.
Inductive jwksc := JNone | JInline (s : string) | JFetcher (f : fetcher).
Inductive secretc := SNone | SLiteral (s : string) | SRef (ns name : string).
Inductive cac := CANone | CAInline (s : string) | CAFile (s : string).
Record duration := { dur_s : Z; dur_ns : Z }.

Record oidc := {
  o_configuration_uri : urlv; o_authorization_uri : urlv; o_token_uri : urlv; o_callback_uri : urlv;
  o_jwks : jwksc; o_client_id : string; o_secret : secretc; o_scopes : list string; o_cookie_prefix : string;
  o_id_token : option tokc; o_access_token : option tokc; o_logout : option logoutc;
  o_abs : nat; o_idle : nat; o_ca : cac; o_ca_refresh : option duration; o_proxy_uri : urlv;
  o_redis : option redisc; o_skip_verify : option pval
}.

Inductive cfilter := FNoType | FOidc (o : oidc) | FOverride (o : oidc) | FMock (allow : bool).
Inductive crit := CritNone | CritPrefix (s : string) | CritEq (s : string).
Record matchc := { mt_header : string; mt_crit : crit }.
Record chain := { ch_name : string; ch_match : option matchc; ch_filters : list cfilter }.
Record config := {
  chains : list chain; listen_address : string; listen_ip_ok : bool (* net.ParseIP *); listen_port : Z; log_level : string;
  threads : nat; default_oidc : option oidc; allow_unmatched : bool; health_port : Z
}.

Inductive result (A : Type) := Ok (a : A) | Error | Panic.
Arguments Ok {A} a. Arguments Error {A}. Arguments Panic {A}.

(* ---------------- validateURLs ---------------- *)
(* strings.Replace(uri, "tcp://", "redis://", 1) *)
Fixpoint replace_tcp (s : string) : string :=
  if prefixb "tcp://" s then "redis://" ++ substring 6 (String.length s - 6) s
  else match s with EmptyString => EmptyString | String a s' => String a (replace_tcp s') end.
Definition norm_redis (o : oidc) : oidc :=
  {| o_configuration_uri := o_configuration_uri o; o_authorization_uri := o_authorization_uri o; o_token_uri := o_token_uri o;
     o_callback_uri := o_callback_uri o; o_jwks := o_jwks o; o_client_id := o_client_id o; o_secret := o_secret o;
     o_scopes := o_scopes o; o_cookie_prefix := o_cookie_prefix o; o_id_token := o_id_token o; o_access_token := o_access_token o;
     o_logout := o_logout o; o_abs := o_abs o; o_idle := o_idle o; o_ca := o_ca o; o_ca_refresh := o_ca_refresh o; o_proxy_uri := o_proxy_uri o;
     o_redis := match o_redis o with Some r => Some {| rd_uri := replace_tcp (rd_uri r); rd_ok := rd_ok r |} | None => None end;
     o_skip_verify := o_skip_verify o |}.
Definition norm_filter (f : cfilter) : cfilter :=
  match f with FOidc o => FOidc (norm_redis o) | FOverride o => FOverride (norm_redis o) | _ => f end.
Definition norm_chain (c : chain) : chain :=
  {| ch_name := ch_name c; ch_match := ch_match c; ch_filters := map norm_filter (ch_filters c) |}.

Definition jwks_fetcher_uri (j : jwksc) : urlv := match j with JFetcher f => jf_uri f | _ => uempty end.
Definition is_root (p : string) : bool := String.eqb p "/" || String.eqb p "".
(* validateOIDCConfigURLs: true = no error *)
Definition urls_ok (o : oidc) : bool :=
  u_ok (o_proxy_uri o) && u_ok (o_token_uri o) && u_ok (o_configuration_uri o) && u_ok (o_authorization_uri o) &&
  u_ok (o_callback_uri o) && u_ok (jwks_fetcher_uri (o_jwks o)) &&
  match o_redis o with Some r => String.eqb (rd_uri r) "" || rd_ok r | None => true end &&
  negb (negb (is_unset (o_callback_uri o)) && is_root (u_path (o_callback_uri o))).

Definition filters_urls_ok (fs : list cfilter) : bool :=
  forallb (fun f => match f with FOidc o | FOverride o => urls_ok o | _ => true end) fs.

(* ---------------- the chain pre-checks ---------------- *)
Definition is_oidcish (f : cfilter) : bool := match f with FOidc _ | FOverride _ => true | _ => false end.
Definition chain_precheck (has_default : bool) (c : chain) : bool :=
  forallb (fun f => match f with
                    | FOidc _ => negb has_default
                    | FOverride _ => has_default
                    | _ => true end) (ch_filters c) &&
  (length (filter is_oidcish (ch_filters c)) <=? 1)%nat.

(* ---------------- proto.Merge(dst, src) on OIDCConfig ---------------- *)
Definition mstr (d s : string) : string := if String.eqb s "" then d else s.
Definition murl (d s : urlv) : urlv := if is_unset s then d else s.
Definition mnat (d s : nat) : nat := match s with 0 => d | _ => s end.
Definition mZ (d s : Z) : Z := if (s =? 0)%Z then d else s.
Definition mopt {A} (m : A -> A -> A) (d s : option A) : option A :=
  match d, s with
  | _, None => d
  | None, Some x => Some x
  | Some x, Some y => Some (m x y)
  end.
Definition mtok (d s : tokc) : tokc := {| tk_header := mstr (tk_header d) (tk_header s); tk_preamble := mstr (tk_preamble d) (tk_preamble s) |}.
Definition mlogout (d s : logoutc) : logoutc := {| lg_path := mstr (lg_path d) (lg_path s); lg_redirect := mstr (lg_redirect d) (lg_redirect s) |}.
Definition mredis (d s : redisc) : redisc := if String.eqb (rd_uri s) "" then d else s.
Definition mdur (d s : duration) : duration := {| dur_s := mZ (dur_s d) (dur_s s); dur_ns := mZ (dur_ns d) (dur_ns s) |}.
(* google.protobuf.Value: a message whose only field is a oneof: the source's kind replaces *)
Definition mval (d s : pval) : pval := s.
Definition mfetcher (d s : fetcher) : fetcher :=
  {| jf_uri := murl (jf_uri d) (jf_uri s); jf_interval := mnat (jf_interval d) (jf_interval s); jf_skip := mopt mval (jf_skip d) (jf_skip s) |}.
(* oneofs: a set member of the source replaces the destination's member; the same message-typed member is merged *)
Definition mjwks (d s : jwksc) : jwksc :=
  match s with
  | JNone => d
  | JInline x => JInline x
  | JFetcher fs => match d with JFetcher fd => JFetcher (mfetcher fd fs) | _ => JFetcher fs end
  end.
Definition msecret (d s : secretc) : secretc :=
  match s with
  | SNone => d
  | SLiteral x => SLiteral x
  | SRef ns n => match d with SRef dns dn => SRef (mstr dns ns) (mstr dn n) | _ => SRef ns n end
  end.
Definition mca (d s : cac) : cac := match s with CANone => d | _ => s end.

Definition merge_oidc (d s : oidc) : oidc :=
  {| o_configuration_uri := murl (o_configuration_uri d) (o_configuration_uri s);
     o_authorization_uri := murl (o_authorization_uri d) (o_authorization_uri s);
     o_token_uri := murl (o_token_uri d) (o_token_uri s);
     o_callback_uri := murl (o_callback_uri d) (o_callback_uri s);
     o_jwks := mjwks (o_jwks d) (o_jwks s);
     o_client_id := mstr (o_client_id d) (o_client_id s);
     o_secret := msecret (o_secret d) (o_secret s);
     o_scopes := (o_scopes d ++ o_scopes s)%list;
     o_cookie_prefix := mstr (o_cookie_prefix d) (o_cookie_prefix s);
     o_id_token := mopt mtok (o_id_token d) (o_id_token s);
     o_access_token := mopt mtok (o_access_token d) (o_access_token s);
     o_logout := mopt mlogout (o_logout d) (o_logout s);
     o_abs := mnat (o_abs d) (o_abs s); o_idle := mnat (o_idle d) (o_idle s);
     o_ca := mca (o_ca d) (o_ca s);
     o_ca_refresh := mopt mdur (o_ca_refresh d) (o_ca_refresh s);
     o_proxy_uri := murl (o_proxy_uri d) (o_proxy_uri s);
     o_redis := mopt mredis (o_redis d) (o_redis s);
     o_skip_verify := mopt mval (o_skip_verify d) (o_skip_verify s) |}.

(* ---------------- mergeAndValidateOIDCConfigs ---------------- *)
Definition apply_defaults (o : oidc) : oidc :=
  {| o_configuration_uri := o_configuration_uri o; o_authorization_uri := o_authorization_uri o; o_token_uri := o_token_uri o;
     o_callback_uri := o_callback_uri o; o_jwks := o_jwks o; o_client_id := o_client_id o; o_secret := o_secret o;
     o_scopes := if existsb (String.eqb "openid") (o_scopes o) then o_scopes o else (o_scopes o ++ ["openid"])%list;
     o_cookie_prefix := o_cookie_prefix o; o_id_token := o_id_token o; o_access_token := o_access_token o; o_logout := o_logout o;
     o_abs := o_abs o; o_idle := o_idle o; o_ca := o_ca o; o_ca_refresh := o_ca_refresh o; o_proxy_uri := o_proxy_uri o;
     o_redis := o_redis o; o_skip_verify := o_skip_verify o |}.

Definition endpoints_missing (o : oidc) : bool :=
  is_unset (o_configuration_uri o) &&
  (is_unset (o_authorization_uri o) || is_unset (o_token_uri o) ||
   match o_jwks o with
   | JInline s => String.eqb s ""
   | JFetcher f => is_unset (jf_uri f)
   | JNone => true
   end).

(* one filter: the resolved filter, and whether an error was collected (joined at the end) or returned at once *)
Inductive fres := FR (f : cfilter) (collected : bool) | FRError | FRPanic.
Definition resolve_filter (dflt : option oidc) (f : cfilter) : fres :=
  match f with
  | FMock _ => FR f false
  | FNoType => FRError            (* a filter without a type is reported as an error (it used to reach applyOIDCDefaults(nil)) *)
  | FOidc _ | FOverride _ =>
      let mo := match f with
                | FOverride s => match dflt with Some d => Some (merge_oidc d s) | None => None end
                | FOidc o => Some o
                | _ => None end in
      match mo with
      | None => FRPanic             (* cloning a nil default: excluded by the pre-checks *)
      | Some o =>
          let o1 := apply_defaults o in
          match o_logout o1 with
          | Some l => if is_root (lg_path l) then FRError
                      else FR (FOidc o1) (endpoints_missing o || String.eqb (u_path (o_callback_uri o1)) (lg_path l))
          | None => FR (FOidc o1) (endpoints_missing o)
          end
      end
  end.

Fixpoint resolve_filters (dflt : option oidc) (fs : list cfilter) : result (list cfilter * bool) :=
  match fs with
  | [] => Ok ([], false)
  | f :: fs' =>
      match resolve_filter dflt f with
      | FRPanic => Panic
      | FRError => Error
      | FR f1 e1 =>
          match resolve_filters dflt fs' with
          | Ok (r, e) => Ok (f1 :: r, e1 || e)
          | Error => Error
          | Panic => Panic
          end
      end
  end.
Fixpoint resolve_chains (dflt : option oidc) (cs : list chain) : result (list chain * bool) :=
  match cs with
  | [] => Ok ([], false)
  | c :: cs' =>
      match resolve_filters dflt (ch_filters c) with
      | Panic => Panic | Error => Error
      | Ok (fs, e1) =>
          match resolve_chains dflt cs' with
          | Ok (r, e) => Ok ({| ch_name := ch_name c; ch_match := ch_match c; ch_filters := fs |} :: r, e1 || e)
          | Error => Error | Panic => Panic
          end
      end
  end.

(* ---------------- the generated ValidateAll rules ---------------- *)
Definition nonempty (s : string) : bool := negb (String.eqb s "").
Definition valid_tok (t : option tokc) : bool := match t with Some x => nonempty (tk_header x) | None => true end.
Definition valid_oidc (o : oidc) : bool :=
  nonempty (u_text (o_callback_uri o)) && nonempty (o_client_id o) && negb (has_char ":"%char (o_client_id o)) &&
  match o_id_token o with Some t => nonempty (tk_header t) | None => false end &&
  valid_tok (o_access_token o) &&
  match o_logout o with Some l => nonempty (lg_path l) | None => true end &&
  match o_redis o with Some r => nonempty (rd_uri r) | None => true end &&
  match o_secret o with SLiteral s => nonempty s | SRef _ n => nonempty n | SNone => false end.
Definition valid_filter (f : cfilter) : bool :=
  match f with FNoType => false | FOidc o | FOverride o => valid_oidc o | FMock _ => true end.
Definition valid_match (m : option matchc) : bool :=
  match m with
  | None => true
  | Some x => nonempty (mt_header x) && match mt_crit x with CritNone => false | CritPrefix s | CritEq s => nonempty s end
  end.
Definition valid_chain (c : chain) : bool :=
  nonempty (ch_name c) && valid_match (ch_match c) && negb (match ch_filters c with [] => true | _ => false end) &&
  forallb valid_filter (ch_filters c).
Definition log_levels : list string := ["trace"; "debug"; "info"; "error"; "critical"].
Definition valid_config (k : config) : bool :=
  negb (match chains k with [] => true | _ => false end) && forallb valid_chain (chains k) &&
  listen_ip_ok k && (listen_port k <? 65536)%Z && existsb (String.eqb (log_level k)) log_levels &&
  (1 <=? threads k)%nat && (health_port k <? 65536)%Z &&
  match default_oidc k with Some o => valid_oidc o | None => true end.

(* ---------------- Validate ---------------- *)
Definition load (k0 : config) : result config :=
  (* validateURLs rewrites tcp:// Redis URIs in place while it checks (a rejected document is not observed) *)
  let k := {| chains := map norm_chain (chains k0); listen_address := listen_address k0; listen_ip_ok := listen_ip_ok k0;
              listen_port := listen_port k0; log_level := log_level k0; threads := threads k0;
              default_oidc := match default_oidc k0 with Some o => Some (norm_redis o) | None => None end;
              allow_unmatched := allow_unmatched k0; health_port := health_port k0 |} in
  if (listen_port k =? health_port k)%Z then Error
  else if negb (match default_oidc k with Some o => urls_ok o | None => true end) then Error
  else if negb (forallb (fun c => filters_urls_ok (ch_filters c)) (chains k)) then Error
  else if negb (forallb (chain_precheck (match default_oidc k with Some _ => true | None => false end)) (chains k)) then Error
  else
    match resolve_chains (default_oidc k) (chains k) with
    | Panic => Panic
    | Error => Error
    | Ok (cs, collected) =>
        if collected then Error
        else
          let k1 := {| chains := cs; listen_address := listen_address k; listen_ip_ok := listen_ip_ok k; listen_port := listen_port k;
                       log_level := log_level k; threads := 1; default_oidc := None; allow_unmatched := allow_unmatched k;
                       health_port := health_port k |} in
          if valid_config k1 then Ok k1 else Error
    end.

(* ---------------- boolean equality (correspondence) ---------------- *)
Definition urlv_eqb (a b : urlv) : bool := String.eqb (u_text a) (u_text b).
Definition opt_eqb {A} (e : A -> A -> bool) (a b : option A) : bool :=
  match a, b with Some x, Some y => e x y | None, None => true | _, _ => false end.
Definition tokc_eqb (a b : tokc) : bool := String.eqb (tk_header a) (tk_header b) && String.eqb (tk_preamble a) (tk_preamble b).
Definition logoutc_eqb (a b : logoutc) : bool := String.eqb (lg_path a) (lg_path b) && String.eqb (lg_redirect a) (lg_redirect b).
Definition pval_eqb (a b : pval) : bool :=
  match a, b with
  | PNull, PNull | PNum, PNum | PStruct, PStruct | PList, PList => true
  | PBool x, PBool y => Bool.eqb x y
  | PStr x, PStr y => String.eqb x y
  | _, _ => false
  end.
Definition jwksc_eqb (a b : jwksc) : bool :=
  match a, b with
  | JNone, JNone => true
  | JInline x, JInline y => String.eqb x y
  | JFetcher x, JFetcher y => urlv_eqb (jf_uri x) (jf_uri y) && Nat.eqb (jf_interval x) (jf_interval y) && opt_eqb pval_eqb (jf_skip x) (jf_skip y)
  | _, _ => false
  end.
Definition secretc_eqb (a b : secretc) : bool :=
  match a, b with
  | SNone, SNone => true
  | SLiteral x, SLiteral y => String.eqb x y
  | SRef n1 m1, SRef n2 m2 => String.eqb n1 n2 && String.eqb m1 m2
  | _, _ => false
  end.
Definition cac_eqb (a b : cac) : bool :=
  match a, b with
  | CANone, CANone => true | CAInline x, CAInline y | CAFile x, CAFile y => String.eqb x y | _, _ => false
  end.
Fixpoint strs_eqb (a b : list string) : bool :=
  match a, b with [], [] => true | x :: a', y :: b' => String.eqb x y && strs_eqb a' b' | _, _ => false end.
Definition oidc_eqb (a b : oidc) : bool :=
  urlv_eqb (o_configuration_uri a) (o_configuration_uri b) && urlv_eqb (o_authorization_uri a) (o_authorization_uri b) &&
  urlv_eqb (o_token_uri a) (o_token_uri b) && urlv_eqb (o_callback_uri a) (o_callback_uri b) &&
  jwksc_eqb (o_jwks a) (o_jwks b) && String.eqb (o_client_id a) (o_client_id b) && secretc_eqb (o_secret a) (o_secret b) &&
  strs_eqb (o_scopes a) (o_scopes b) && String.eqb (o_cookie_prefix a) (o_cookie_prefix b) &&
  opt_eqb tokc_eqb (o_id_token a) (o_id_token b) && opt_eqb tokc_eqb (o_access_token a) (o_access_token b) &&
  opt_eqb logoutc_eqb (o_logout a) (o_logout b) && Nat.eqb (o_abs a) (o_abs b) && Nat.eqb (o_idle a) (o_idle b) &&
  cac_eqb (o_ca a) (o_ca b) &&
  opt_eqb (fun x y => Z.eqb (dur_s x) (dur_s y) && Z.eqb (dur_ns x) (dur_ns y)) (o_ca_refresh a) (o_ca_refresh b) &&
  urlv_eqb (o_proxy_uri a) (o_proxy_uri b) &&
  opt_eqb (fun x y => String.eqb (rd_uri x) (rd_uri y)) (o_redis a) (o_redis b) &&
  opt_eqb pval_eqb (o_skip_verify a) (o_skip_verify b).
Definition cfilter_eqb (a b : cfilter) : bool :=
  match a, b with
  | FNoType, FNoType => true
  | FOidc x, FOidc y | FOverride x, FOverride y => oidc_eqb x y
  | FMock x, FMock y => Bool.eqb x y
  | _, _ => false
  end.
Fixpoint filters_eqb (a b : list cfilter) : bool :=
  match a, b with [], [] => true | x :: a', y :: b' => cfilter_eqb x y && filters_eqb a' b' | _, _ => false end.
Definition chain_eqb (a b : chain) : bool := String.eqb (ch_name a) (ch_name b) && filters_eqb (ch_filters a) (ch_filters b).
Fixpoint chains_eqb (a b : list chain) : bool :=
  match a, b with [], [] => true | x :: a', y :: b' => chain_eqb x y && chains_eqb a' b' | _, _ => false end.
Definition config_eqb (a b : config) : bool :=
  chains_eqb (chains a) (chains b) && Nat.eqb (threads a) (threads b) && opt_eqb oidc_eqb (default_oidc a) (default_oidc b) &&
  Z.eqb (listen_port a) (listen_port b) && Z.eqb (health_port a) (health_port b).
