(* Url/Escape.v — byte-exact models of net/url QueryEscape, QueryUnescape, Values.Encode and
   ParseQuery (Go 1.24), as used by redirectToIDP / retrieveTokens / performIDPRequest. *)
From AS Require Import Base.Str.

Definition nat_in (lo hi n : nat) : bool := ((lo <=? n) && (n <=? hi))%nat.

Definition unreserved (a : ascii) : bool :=
  let n := nat_of_ascii a in
  nat_in 65 90 n || nat_in 97 122 n || nat_in 48 57 n
  || Nat.eqb n 45 (* - *) || Nat.eqb n 95 (* _ *) || Nat.eqb n 46 (* . *) || Nat.eqb n 126 (* ~ *).

Definition c_space : ascii := " "%char.
Definition c_plus : ascii := "+"%char.
Definition c_pct : ascii := "%"%char.
Definition c_amp : ascii := "&"%char.
Definition c_eq : ascii := "="%char.
Definition c_semi : ascii := ";"%char.

Definition escape_byte (a : ascii) : string :=
  if unreserved a then String a EmptyString
  else if Ascii.eqb a c_space then String c_plus EmptyString
  else let n := nat_of_ascii a in
       String c_pct (String (hexdigit (n / 16)) (String (hexdigit (n mod 16)) EmptyString)).

Fixpoint query_escape (s : string) : string :=
  match s with
  | EmptyString => EmptyString
  | String a s' => escape_byte a ++ query_escape s'
  end.

Definition is_hex (a : ascii) : bool :=
  let n := nat_of_ascii a in nat_in 48 57 n || nat_in 97 102 n || nat_in 65 70 n.

(* QueryUnescape: None = EscapeError *)
Fixpoint query_unescape (s : string) : option string :=
  match s with
  | EmptyString => Some EmptyString
  | String a s' =>
      if Ascii.eqb a c_pct then
        match s' with
        | String h (String l s'') =>
            if is_hex h && is_hex l then
              match query_unescape s'' with
              | Some r => Some (String (ascii_of_nat (16 * hexval h + hexval l)) r)
              | None => None
              end
            else None
        | _ => None
        end
      else
        match query_unescape s' with
        | Some r => Some (String (if Ascii.eqb a c_plus then c_space else a) r)
        | None => None
        end
  end.

(* bytewise string order, as Go's sort on strings *)
Fixpoint str_leb (a b : string) : bool :=
  match a, b with
  | EmptyString, _ => true
  | String _ _, EmptyString => false
  | String x a', String y b' =>
      let nx := nat_of_ascii x in let ny := nat_of_ascii y in
      if (nx <? ny)%nat then true else if (ny <? nx)%nat then false else str_leb a' b'
  end.

Fixpoint insert_kv (kv : string * string) (l : list (string * string)) : list (string * string) :=
  match l with
  | [] => [kv]
  | x :: l' => if str_leb (fst kv) (fst x) then kv :: l else x :: insert_kv kv l'
  end.
(* stable w.r.t. equal keys is irrelevant here: url.Values built from a map literal has unique keys *)
Definition sort_kv (l : list (string * string)) : list (string * string) :=
  fold_right insert_kv [] l.

Fixpoint encode_pairs (l : list (string * string)) : string :=
  match l with
  | [] => EmptyString
  | [(k, v)] => query_escape k ++ String c_eq (query_escape v)
  | (k, v) :: l' => query_escape k ++ String c_eq (query_escape v) ++ String c_amp (encode_pairs l')
  end.

(* url.Values{...}.Encode() for single-valued, distinct keys *)
Definition values_encode (l : list (string * string)) : string := encode_pairs (sort_kv l).

(* url.ParseQuery: pairs in order of appearance (so that Get = first value), and whether an error
   was reported (parsing continues after an error) *)
Definition parse_piece (piece : string) : option (string * string) * bool :=
  if has_char c_semi piece then (None, true)
  else if String.eqb piece "" then (None, false)
  else
    let k := before c_eq piece in
    let v := odflt (after c_eq piece) in
    match query_unescape k with
    | None => (None, true)
    | Some k' =>
        match query_unescape v with
        | None => (None, true)
        | Some v' => (Some (k', v'), false)
        end
    end.

Fixpoint parse_pieces (ps : list string) : list (string * string) * bool :=
  match ps with
  | [] => ([], false)
  | p :: ps' =>
      let '(kv, e) := parse_piece p in
      let '(rest, e') := parse_pieces ps' in
      (match kv with Some x => x :: rest | None => rest end, e || e')
  end.

Definition parse_query (q : string) : list (string * string) * bool :=
  if String.eqb q "" then ([], false) else parse_pieces (split_on c_amp q).

(* Values.Get: first value of the key, "" when absent *)
Fixpoint qget (k : string) (l : list (string * string)) : string :=
  match l with
  | [] => EmptyString
  | (k', v) :: l' => if String.eqb k k' then v else qget k l'
  end.
