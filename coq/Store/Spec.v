(* Store/Spec.v — the abstract session map of C12/C10: session id -> {login state, tokens, created, last
   used}, parameterised by the liveness rule [alive] (which of the two concrete stores' expiry arithmetic
   is in force).  Every operation happens at a clock reading [now]; a session that is not alive at [now] is
   treated as absent (and forgotten). *)
From AS Require Import Base.Str Oidc.Types.

Record asess := {
  s_tok : option tokens; s_auth : option auth_state;
  s_added : Z;           (* time of the write that created this incarnation of the session *)
  s_last : Z;            (* time of the last operation that found or created it *)
  s_last_data : Z        (* time of the last operation that wrote it or read data from it *)
}.
Definition amap := string -> option asess.
Definition aempty : amap := fun _ => None.
Definition aupd (m : amap) (sid : string) (v : option asess) : amap := fun k => if String.eqb k sid then v else m k.

Inductive sop :=
| OSetTok (sid : string) (t : tokens) | OGetTok (sid : string)
| OSetAuth (sid : string) (a : auth_state) | OGetAuth (sid : string) | OClearAuth (sid : string)
| ORemove (sid : string).
Inductive sres := RUnit | RTok (r : option tokens) | RAuth (r : option auth_state).

Definition sres_eqb (a b : sres) : bool :=
  match a, b with
  | RUnit, RUnit => true
  | RTok None, RTok None | RAuth None, RAuth None => true
  | RTok (Some x), RTok (Some y) => tokens_eqb x y
  | RAuth (Some x), RAuth (Some y) => auth_eqb x y
  | _, _ => false
  end.

Section Spec.
  Variable alive : asess -> Z -> bool.

  (* the session as seen at [now] *)
  Definition view (m : amap) (sid : string) (now : Z) : option asess :=
    match m sid with Some s => if alive s now then Some s else None | None => None end.

  Definition fresh (now : Z) : asess := {| s_tok := None; s_auth := None; s_added := now; s_last := now; s_last_data := now |}.

  Definition astep (m : amap) (now : Z) (o : sop) : amap * sres :=
    match o with
    | OSetTok sid t =>
        let s := match view m sid now with Some s => s | None => fresh now end in
        (aupd m sid (Some {| s_tok := Some t; s_auth := s_auth s; s_added := s_added s; s_last := now; s_last_data := now |}), RUnit)
    | OSetAuth sid a =>
        let s := match view m sid now with Some s => s | None => fresh now end in
        (aupd m sid (Some {| s_tok := s_tok s; s_auth := Some a; s_added := s_added s; s_last := now; s_last_data := now |}), RUnit)
    | OGetTok sid =>
        match view m sid now with
        | Some s => (aupd m sid (Some {| s_tok := s_tok s; s_auth := s_auth s; s_added := s_added s; s_last := now;
                                         s_last_data := match s_tok s with Some _ => now | None => s_last_data s end |}), RTok (s_tok s))
        | None => (aupd m sid None, RTok None)
        end
    | OGetAuth sid =>
        match view m sid now with
        | Some s => (aupd m sid (Some {| s_tok := s_tok s; s_auth := s_auth s; s_added := s_added s; s_last := now;
                                         s_last_data := match s_auth s with Some _ => now | None => s_last_data s end |}), RAuth (s_auth s))
        | None => (aupd m sid None, RAuth None)
        end
    | OClearAuth sid =>
        match view m sid now with
        | Some s => (aupd m sid (Some {| s_tok := s_tok s; s_auth := None; s_added := s_added s; s_last := now; s_last_data := now |}), RUnit)
        | None => (aupd m sid None, RUnit)
        end
    | ORemove sid => (aupd m sid None, RUnit)
    end.

  (* a history: operations with their clock readings *)
  Fixpoint arun (m : amap) (h : list (Z * sop)) : amap * list sres :=
    match h with
    | [] => (m, [])
    | (now, o) :: h' => let '(m1, r) := astep m now o in let '(m2, rs) := arun m1 h' in (m2, r :: rs)
    end.
End Spec.

(* ---- the two liveness rules ---- *)
Definition second : Z := 1000000000.
Section Rules.
  Variables abs idle : Z.      (* configured timeouts in ns; 0 = none *)

  (* memory store: dead when created strictly before now-abs, or last touched strictly before now-idle *)
  Definition alive_mem (s : asess) (now : Z) : bool :=
    negb ((0 <? abs)%Z && (s_added s <? now - abs)%Z) && negb ((0 <? idle)%Z && (s_last s <? now - idle)%Z).

  (* Redis: EXPIREAT floor_seconds(min(created+abs, last data access+idle)); the key is gone once the
     clock reaches that second *)
  Definition redis_deadline (s : asess) : option Z :=
    if (abs =? 0)%Z && (idle =? 0)%Z then None
    else if (abs =? 0)%Z then Some (s_last_data s + idle)%Z
    else if (idle =? 0)%Z then Some (s_added s + abs)%Z
    else Some (Z.min (s_added s + abs) (s_last_data s + idle)).
  Definition alive_redis (s : asess) (now : Z) : bool :=
    match redis_deadline s with
    | None => true
    | Some d => (now <? (d / second) * second)%Z
    end.
End Rules.
