(* Store/Redis.v — model of internal/oidc/redis.go over a model of the Redis commands it uses.
   One hash per session id with typed members; EXPIREAT in whole seconds; a key whose expiry second has been
   reached is gone; HDEL of the last member deletes the key.  Each store method is the command sequence of
   the Go code, in order. *)
From AS Require Import Base.Str Oidc.Types Store.Spec.

(* members of the session hash (the time members hold Go time.Time values; absent = zero time) *)
Record rhash := {
  h_id : option string; h_access : option string; h_access_exp : option Z; h_refresh : option string;
  h_state : option string; h_nonce : option string; h_url : option string; h_verifier : option string;
  h_added : option Z
}.
Definition hempty : rhash :=
  {| h_id := None; h_access := None; h_access_exp := None; h_refresh := None;
     h_state := None; h_nonce := None; h_url := None; h_verifier := None; h_added := None |}.
Definition his_empty (h : rhash) : bool :=
  match h with
  | {| h_id := None; h_access := None; h_access_exp := None; h_refresh := None;
       h_state := None; h_nonce := None; h_url := None; h_verifier := None; h_added := None |} => true
  | _ => false
  end.

Record rkey := { k_hash : rhash; k_expire_s : option Z (* EXPIREAT second *) }.
Definition rdb := list (string * rkey).

(* what the server holds for a key at clock [now] (ns): nothing once the expiry second is reached *)
Definition rlive (db : rdb) (sid : string) (now : Z) : option rkey :=
  match lookup sid db with
  | Some k => match k_expire_s k with
              | Some e => if (e * second <=? now)%Z then None else Some k
              | None => Some k
              end
  | None => None
  end.
Definition rhget (db : rdb) (sid : string) (now : Z) : rhash :=
  match rlive db sid now with Some k => k_hash k | None => hempty end.
(* write a hash back: creating the key if needed (no expiry), deleting it when no member is left *)
Definition rput (db : rdb) (sid : string) (now : Z) (h : rhash) : rdb :=
  if his_empty h then remove_key sid db
  else set_key sid {| k_hash := h; k_expire_s := match rlive db sid now with Some k => k_expire_s k | None => None end |} db.
Definition rdel (db : rdb) (sid : string) : rdb := remove_key sid db.
(* EXPIREAT: no-op on a missing key; a time not in the future deletes the key *)
Definition rexpireat (db : rdb) (sid : string) (now : Z) (at_ns : Z) : rdb :=
  match rlive db sid now with
  | None => remove_key sid db
  | Some k => let e := (at_ns / second)%Z in
              if (e * second <=? now)%Z then remove_key sid db
              else set_key sid {| k_hash := k_hash k; k_expire_s := Some e |} db
  end.

Definition opt_nonempty (o : option string) : string := match o with Some s => s | None => "" end.

Section Redis.
  Variables abs idle : Z.
  Variable parses : string -> bool.     (* jwt.Parse succeeds on the stored ID token (jwx: modelled, not verified) *)

  Inductive rres := ROk (r : sres) | RErr.

  (* refreshExpiration(timeAdded): zero => HGET time_added; still zero => DEL + error *)
  Definition refresh_expiration (db : rdb) (sid : string) (now : Z) (time_added : Z) : rdb * bool (* ok *) :=
    let ta := if (time_added =? 0)%Z then match h_added (rhget db sid now) with Some t => t | None => 0%Z end else time_added in
    if (ta =? 0)%Z then (rdel db sid, false)
    else if (abs =? 0)%Z && (idle =? 0)%Z then (db, true)
    else
      let expire_at :=
        if (abs =? 0)%Z then (now + idle)%Z
        else if (idle =? 0)%Z then (ta + abs)%Z
        else Z.min (ta + abs) (now + idle) in
      (rexpireat db sid now expire_at, true).

  Definition rstep (db : rdb) (now : Z) (o : sop) : rdb * rres :=
    match o with
    | OSetTok sid t =>
        (* HSET id_token; HSET or queue-HDEL access_token, access_token_expiry, refresh_token; one HDEL; HSETNX time_added; refresh *)
        let h := rhget db sid now in
        let h1 := {| h_id := Some (t_id t);
                     h_access := if String.eqb (t_access t) "" then None else Some (t_access t);
                     h_access_exp := if (t_expiry t =? 0)%Z then None else Some (t_expiry t);
                     h_refresh := if String.eqb (t_refresh t) "" then None else Some (t_refresh t);
                     h_state := h_state h; h_nonce := h_nonce h; h_url := h_url h; h_verifier := h_verifier h;
                     h_added := match h_added h with Some a => Some a | None => Some now end |} in
        let db1 := rput db sid now h1 in
        let '(db2, ok) := refresh_expiration db1 sid now 0 in
        (db2, if ok then ROk RUnit else RErr)
    | OGetTok sid =>
        let h := rhget db sid now in
        match h_id h with
        | None => (db, ROk (RTok None))
        | Some idt =>
            if String.eqb idt "" || negb (parses idt) then (db, ROk (RTok None))
            else
              let '(db1, ok) := refresh_expiration db sid now (match h_added h with Some a => a | None => 0%Z end) in
              (db1, if ok then ROk (RTok (Some {| t_id := idt; t_access := opt_nonempty (h_access h);
                                                   t_refresh := opt_nonempty (h_refresh h);
                                                   t_expiry := match h_access_exp h with Some e => e | None => 0%Z end |}))
                    else RErr)
        end
    | OSetAuth sid a =>
        let h := rhget db sid now in
        let h1 := {| h_id := h_id h; h_access := h_access h; h_access_exp := h_access_exp h; h_refresh := h_refresh h;
                     h_state := Some (a_state a); h_nonce := Some (a_nonce a); h_url := Some (a_url a); h_verifier := Some (a_verifier a);
                     h_added := match h_added h with Some x => Some x | None => Some now end |} in
        let db1 := rput db sid now h1 in
        let '(db2, ok) := refresh_expiration db1 sid now 0 in
        (db2, if ok then ROk RUnit else RErr)
    | OGetAuth sid =>
        let h := rhget db sid now in
        let st := opt_nonempty (h_state h) in let nn := opt_nonempty (h_nonce h) in
        let u := opt_nonempty (h_url h) in let v := opt_nonempty (h_verifier h) in
        if String.eqb st "" || String.eqb nn "" || String.eqb u "" || String.eqb v "" then (db, ROk (RAuth None))
        else
          let '(db1, ok) := refresh_expiration db sid now (match h_added h with Some a => a | None => 0%Z end) in
          (db1, if ok then ROk (RAuth (Some {| a_state := st; a_nonce := nn; a_url := u; a_verifier := v |})) else RErr)
    | OClearAuth sid =>
        (* EXISTS; a missing key: nothing to clear.  Otherwise HDEL state nonce requested_url (the verifier stays);
           refresh with the zero time *)
        match rlive db sid now with
        | None => (db, ROk RUnit)
        | Some _ =>
            let h := rhget db sid now in
            let h1 := {| h_id := h_id h; h_access := h_access h; h_access_exp := h_access_exp h; h_refresh := h_refresh h;
                         h_state := None; h_nonce := None; h_url := None; h_verifier := h_verifier h; h_added := h_added h |} in
            let db1 := rput db sid now h1 in
            let '(db2, ok) := refresh_expiration db1 sid now 0 in
            (db2, if ok then ROk RUnit else RErr)
        end
    | ORemove sid => (rdel db sid, ROk RUnit)
    end.

  Fixpoint rrun (db : rdb) (h : list (Z * sop)) : rdb * list rres :=
    match h with
    | [] => (db, [])
    | (now, o) :: h' => let '(d1, r) := rstep db now o in let '(d2, rs) := rrun d1 h' in (d2, r :: rs)
    end.
End Redis.
