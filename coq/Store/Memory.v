(* Store/Memory.v — model of internal/oidc/memory.go (one mutex around every method, so each method is one
   atomic step): a Go map from session id to {tokenResponse, authorizationState, added, accessed}.
   Sessions past a configured timeout are dropped by the accessor [mget] that every method uses, and by
   RemoveAllExpired. *)
From AS Require Import Base.Str Oidc.Types Store.Spec.

Record msess := { m_tok : option tokens; m_auth : option auth_state; m_added : Z; m_accessed : Z }.
Definition mmap := list (string * msess).

Section Mem.
  Variables abs idle : Z.

  (* memoryStore.expired *)
  Definition mexpired (s : msess) (now : Z) : bool :=
    ((0 <? abs)%Z && (m_added s <? now - abs)%Z) || ((0 <? idle)%Z && (m_accessed s <? now - idle)%Z).

  (* memoryStore.get: the session, unless absent or timed out (then it is deleted) *)
  Definition mget (m : mmap) (sid : string) (now : Z) : mmap * option msess :=
    match lookup sid m with
    | Some s => if mexpired s now then (remove_key sid m, None) else (m, Some s)
    | None => (m, None)
    end.

  (* memoryStore.set *)
  Definition mset (m : mmap) (sid : string) (now : Z) (f : msess -> msess) : mmap :=
    let '(m1, os) := mget m sid now in
    match os with
    | Some s => set_key sid (f {| m_tok := m_tok s; m_auth := m_auth s; m_added := m_added s; m_accessed := now |}) m1
    | None => set_key sid (f {| m_tok := None; m_auth := None; m_added := now; m_accessed := now |}) m1
    end.

  Definition mstep (m : mmap) (now : Z) (o : sop) : mmap * sres :=
    match o with
    | OSetTok sid t => (mset m sid now (fun s => {| m_tok := Some t; m_auth := m_auth s; m_added := m_added s; m_accessed := m_accessed s |}), RUnit)
    | OSetAuth sid a => (mset m sid now (fun s => {| m_tok := m_tok s; m_auth := Some a; m_added := m_added s; m_accessed := m_accessed s |}), RUnit)
    | OGetTok sid =>
        let '(m1, os) := mget m sid now in
        match os with
        | Some s => (set_key sid {| m_tok := m_tok s; m_auth := m_auth s; m_added := m_added s; m_accessed := now |} m1, RTok (m_tok s))
        | None => (m1, RTok None)
        end
    | OGetAuth sid =>
        let '(m1, os) := mget m sid now in
        match os with
        | Some s => (set_key sid {| m_tok := m_tok s; m_auth := m_auth s; m_added := m_added s; m_accessed := now |} m1, RAuth (m_auth s))
        | None => (m1, RAuth None)
        end
    | OClearAuth sid =>
        let '(m1, os) := mget m sid now in
        match os with
        | Some s => (set_key sid {| m_tok := m_tok s; m_auth := None; m_added := m_added s; m_accessed := now |} m1, RUnit)
        | None => (m1, RUnit)
        end
    | ORemove sid => (remove_key sid m, RUnit)
    end.

  (* RemoveAllExpired *)
  Definition msweep (m : mmap) (now : Z) : mmap := filter (fun kv => negb (mexpired (snd kv) now)) m.

  Fixpoint mrun (m : mmap) (h : list (Z * sop)) : mmap * list sres :=
    match h with
    | [] => (m, [])
    | (now, o) :: h' => let '(m1, r) := mstep m now o in let '(m2, rs) := mrun m1 h' in (m2, r :: rs)
    end.
End Mem.
