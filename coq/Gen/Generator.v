(* Gen/Generator.v — entropy-flow model of the session generator (C06).  A generator turns entropy (independent
   uniform draws of the OS CSPRNG - the only thing assumed unpredictable) and the request time (known to the
   attacker up to a window) into (session id, nonce, state, verifier).  A SUMMARY of the shipped generator - which
   source class feeds each output, regenerated from the Go sources on every run - is what the per-run obligation is
   about; the two theorems say what each verdict means. *)
From AS Require Import Base.Str.

Inductive src_class :=
| Csprng            (* crypto/rand, or a library documented to use it *)
| TimeSeededPrng    (* deterministic generator whose seed is a clock reading *)
| WeakPrng          (* other non-cryptographic generator (math/rand with any seed, counters, pids) *)
| ConstantSrc       (* no entropy at all *)
| UnknownSrc.       (* a call the translator cannot classify *)

Record out_summary := {
  os_name : string;               (* session_id / nonce / state / code_verifier *)
  os_sources : list src_class;    (* every entropy source reachable from the method that produces it *)
  os_stateful_stream : option string   (* name of a per-generator stateful stream object it draws from, if any *)
}.
Definition gen_summary := list out_summary.

Definition class_ok (c : src_class) : bool := match c with Csprng => true | _ => false end.
Definition out_ok (o : out_summary) : bool :=
  negb (match os_sources o with [] => true | _ => false end) && forallb class_ok (os_sources o) &&
  match os_stateful_stream o with None => true | Some _ => false end.
(* the obligation: the three identifiers that must be unpredictable are fed by the CSPRNG only, from draws of their own *)
Definition secret_outputs : list string := ["session_id"; "nonce"; "state"].
Definition secure (g : gen_summary) : bool :=
  forallb (fun n => existsb (fun o => String.eqb (os_name o) n && out_ok o) g) secret_outputs.

(* ---------------- what "time-seeded" means: the attack ---------------- *)
Section TimeSeeded.
  Variable seed : Type.
  Variable out : Type.                                  (* (sid, public part) *)
  Variable gen : seed -> string * out.                  (* the whole tuple is a deterministic function of the seed *)
  Variable out_eqb : out -> out -> bool.
  Hypothesis out_eqb_refl : forall x, out_eqb x x = true.

  (* the attacker knows the window of possible seeds and the public part (state, nonce, challenge) *)
  Definition attack (window : list seed) (public : out) : list string :=
    map (fun s => fst (gen s)) (filter (fun s => out_eqb (snd (gen s)) public) window).

  Theorem time_seeded_predictable window s :
    In s window ->
    In (fst (gen s)) (attack window (snd (gen s))) /\ length (attack window (snd (gen s))) <= length window.
  Proof.
    intros H. unfold attack. split.
    - apply (in_map (fun s0 => fst (gen s0))). apply filter_In. split; [exact H | apply out_eqb_refl].
    - rewrite map_length. clear H. induction window as [|x w IH]; cbn [filter length]; [lia|].
      assert (L : length (filter (fun s0 => out_eqb (snd (gen s0)) (snd (gen s))) w) <= length w).
      { clear. induction w as [|y w IHw]; cbn [filter length]; [lia|]. destruct (out_eqb _ _); cbn [length]; lia. }
      destruct (out_eqb _ _); cbn [length]; lia.
  Qed.
End TimeSeeded.

(* ---------------- what "CSPRNG, draws of its own" means ---------------- *)
Section Csprng.
  (* entropy is split into the draws that make the session id and the rest; everything disclosed outside the
     cookie (state, nonce, challenge, earlier and later ids) is a function of the rest and of the time *)
  Variable draws : Type.
  Variable rest : Type.
  Variable sid_of : draws -> string.
  Variable view : rest -> Z -> string.                  (* the public view *)
  Hypothesis sid_onto_range : forall d1 d2, sid_of d1 = sid_of d2 -> d1 = d2.   (* rejection sampling: one draw sequence per id *)

  (* for every public view and any two candidate ids, the entropy values producing (view, id1) and (view, id2)
     correspond one to one: the view carries no information about the id *)
  Theorem csprng_view_independent (d1 d2 : draws) :
    exists f : draws * rest -> draws * rest,
      (forall r t, view (snd (f (d1, r))) t = view r t) /\
      (forall r, sid_of (fst (f (d1, r))) = sid_of d2) /\
      (forall r r', f (d1, r) = f (d1, r') -> r = r').
  Proof.
    exists (fun p => (d2, snd p)). repeat split; cbn; auto. intros r r' H. inversion H. reflexivity.
  Qed.
End Csprng.
